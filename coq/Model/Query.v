(** Model/Query.v — SPECIFICATION (S) of the membership / containment / overlap /
    measure queries of a 1-D MOC, with their set-theoretic characterisation.
    The Rust code answers these with binary searches over the flattened bound
    array; the specification uses plain list scans.  Tied to the code by the
    correspondence harness (C03). *)
From Coq Require Import List NArith Lia Bool.
From MOC.Base Require Import RangeSet.
Import ListNotations.
Open Scope N_scope.

Definition contains_val (l : list range) (x : N) : bool := covb l x.

Definition contains_range (l : list range) (a b : N) : bool :=
  existsb (fun r => (fst r <=? a) && (b <=? snd r)) l.

Definition intersects_range (l : list range) (a b : N) : bool :=
  existsb (fun r => (fst r <? b) && (a <? snd r)) l.

Definition intersects (A B : list range) : bool :=
  existsb (fun r => intersects_range B (fst r) (snd r)) A.

(** A ⊇ B *)
Definition contains (A B : list range) : bool :=
  forallb (fun r => contains_range A (fst r) (snd r)) B.

Definition overlapped_by (A B : list range) : list range :=
  filter (fun r => intersects_range B (fst r) (snd r)) A.

Fixpoint msum (l : list range) : N :=
  match l with [] => 0 | r :: t => (snd r - fst r) + msum t end.

(** numerator of range_fraction: size of cov l ∩ [a,b) *)
Fixpoint width (l : list range) (a b : N) : N :=
  match l with
  | [] => 0
  | r :: t => (N.min (snd r) b - N.max (fst r) a) + width t a b
  end.

(** ---------- theorems ---------- *)

Lemma contains_val_spec l x : contains_val l x = true <-> cov l x.
Proof. apply covb_spec. Qed.

Lemma chain_in_gt l : forall lo r, chain lo l -> In r l -> lo < fst r /\ fst r < snd r.
Proof.
  induction l as [|r0 l IH]; intros lo r Hc Hin; [destruct Hin|].
  simpl in Hc. destruct Hc as (H1 & H2 & H3). destruct Hin as [->|Hin]; [lia|].
  destruct (IH _ _ H3 Hin). lia.
Qed.

(** two distinct ranges of a canonical list are separated by a strict gap *)
Lemma canon_separated l : forall lo, sorted_from lo l ->
  forall r r', In r l -> In r' l -> r = r' \/ snd r < fst r' \/ snd r' < fst r.
Proof.
  induction l as [|r0 l IH]; intros lo Hs r r' Hr Hr'; [destruct Hr|].
  simpl in Hs. destruct Hs as (H1 & H2 & H3).
  destruct Hr as [->|Hr]; destruct Hr' as [->|Hr'].
  - left; reflexivity.
  - right; left. destruct (chain_in_gt _ _ _ H3 Hr'). lia.
  - right; right. destruct (chain_in_gt _ _ _ H3 Hr). lia.
  - apply (IH (snd r0)); [apply chain_sorted; exact H3|exact Hr|exact Hr'].
Qed.

Lemma canon_in_nonempty l lo r : sorted_from lo l -> In r l -> fst r < snd r.
Proof.
  destruct l as [|r0 l]; intros Hs Hin; [destruct Hin|].
  simpl in Hs. destruct Hs as (H1 & H2 & H3). destruct Hin as [->|Hin]; [exact H2|].
  apply (chain_in_gt _ _ _ H3 Hin).
Qed.

Theorem contains_range_spec l a b : Canon l -> a < b ->
  (contains_range l a b = true <-> forall x, a <= x < b -> cov l x).
Proof.
  intros Hc Hab. unfold contains_range. rewrite existsb_exists. split.
  - intros [r [Hin Hr]] x Hx. apply andb_true_iff in Hr. rewrite !N.leb_le in Hr.
    exists r. split; [exact Hin|]. unfold inr. lia.
  - intros Hall.
    destruct (Hall a ltac:(lia)) as [r [Hin [Hr1 Hr2]]].
    exists r. split; [exact Hin|]. apply andb_true_iff. rewrite !N.leb_le. split; [exact Hr1|].
    destruct (N.le_gt_cases b (snd r)) as [Hle|Hgt]; [exact Hle|exfalso].
    destruct (Hall (snd r) ltac:(lia)) as [r' [Hin' [Hr1' Hr2']]].
    destruct (canon_separated l 0 Hc r r' Hin Hin') as [->|[H|H]]; lia.
Qed.

Theorem intersects_range_spec l a b : Canon l -> a < b ->
  (intersects_range l a b = true <-> exists x, (a <= x < b) /\ cov l x).
Proof.
  intros Hc Hab. unfold intersects_range. rewrite existsb_exists. split.
  - intros [r [Hin Hr]]. apply andb_true_iff in Hr. rewrite !N.ltb_lt in Hr.
    pose proof (canon_in_nonempty l 0 r Hc Hin).
    exists (N.max a (fst r)). split; [lia|]. exists r. split; [exact Hin|]. unfold inr. lia.
  - intros [x [Hx [r [Hin [Hr1 Hr2]]]]]. exists r. split; [exact Hin|].
    apply andb_true_iff. rewrite !N.ltb_lt. lia.
Qed.

Theorem intersects_spec A B : Canon A -> Canon B ->
  (intersects A B = true <-> exists x, cov A x /\ cov B x).
Proof.
  intros HA HB. unfold intersects. rewrite existsb_exists. split.
  - intros [r [Hin Hr]]. pose proof (canon_in_nonempty A 0 r HA Hin) as Hne.
    apply (intersects_range_spec B _ _ HB Hne) in Hr.
    destruct Hr as [x [Hx Hc]]. exists x. split; [|exact Hc]. exists r. split; [exact Hin|exact Hx].
  - intros [x [[r [Hin Hr]] Hc]]. exists r. split; [exact Hin|].
    pose proof (canon_in_nonempty A 0 r HA Hin) as Hne.
    apply (intersects_range_spec B _ _ HB Hne). exists x. split; [exact Hr|exact Hc].
Qed.

Theorem contains_spec A B : Canon A -> Canon B ->
  (contains A B = true <-> forall x, cov B x -> cov A x).
Proof.
  intros HA HB. unfold contains. rewrite forallb_forall. split.
  - intros H x [r [Hin Hr]]. specialize (H r Hin).
    pose proof (canon_in_nonempty B 0 r HB Hin) as Hne.
    apply (proj1 (contains_range_spec A _ _ HA Hne) H). exact Hr.
  - intros H r Hin. pose proof (canon_in_nonempty B 0 r HB Hin) as Hne.
    apply (proj2 (contains_range_spec A _ _ HA Hne)). intros x Hx. apply H. exists r. split; [exact Hin|exact Hx].
Qed.

Theorem overlapped_by_spec A B r : Canon A -> Canon B ->
  (In r (overlapped_by A B) <-> In r A /\ exists x, inr r x /\ cov B x).
Proof.
  intros HA HB. unfold overlapped_by. rewrite filter_In. split.
  - intros [Hin Hr]. split; [exact Hin|]. pose proof (canon_in_nonempty A 0 r HA Hin) as Hne.
    apply (intersects_range_spec B _ _ HB Hne) in Hr. exact Hr.
  - intros [Hin Hr]. split; [exact Hin|]. pose proof (canon_in_nonempty A 0 r HA Hin) as Hne.
    apply (intersects_range_spec B _ _ HB Hne). exact Hr.
Qed.

(** [width] is the measure of the intersection: it equals [msum] of the
    specification intersection with the single range [a,b). *)
Lemma width_nil_range l a b : b <= a -> width l a b = 0.
Proof. induction l as [|r t IH]; simpl; intros H; [reflexivity|]. rewrite IH by exact H. lia. Qed.

Lemma width_before l : forall lo a b, chain lo l -> b <= lo -> width l a b = 0.
Proof.
  induction l as [|r t IH]; simpl; intros lo a b Hc Hb; [reflexivity|].
  destruct Hc as (H1 & H2 & H3). rewrite (IH (snd r)) by (try assumption; lia). lia.
Qed.

Lemma width_le l : forall lo a b, sorted_from lo l -> a <= b -> width l a b <= b - N.max a lo.
Proof.
  induction l as [|r t IH]; intros lo a b Hs Hab; [simpl; lia|].
  simpl in Hs. destruct Hs as (H1 & H2 & H3). cbn [width].
  specialize (IH (snd r) a b (chain_sorted _ _ H3) Hab). lia.
Qed.

(** exactness clauses of range_fraction: width = 0 iff nothing of [a,b) is covered;
    width = b - a iff everything is. *)
Lemma width_zero_iff_gen a b : a < b -> forall l lo, sorted_from lo l ->
  (width l a b = 0 <-> forall x, a <= x < b -> ~ cov l x).
Proof.
  intros Hab.
  induction l as [|r t IH]; intros lo Hs.
  - simpl. split; [intros _ x _ H; destruct (cov_nil _ H)|reflexivity].
  - simpl in Hs. destruct Hs as (H1 & H2 & H3). cbn [width].
    specialize (IH (snd r) (chain_sorted _ _ H3)).
    split.
    + intros Hw x Hx Hcov. apply cov_cons in Hcov.
      assert (Hw1 : N.min (snd r) b - N.max (fst r) a = 0) by lia.
      assert (Hw2 : width t a b = 0) by lia.
      destruct Hcov as [[Ha Hb]|Hcov]; [lia|].
      apply (proj1 IH Hw2 x Hx Hcov).
    + intros Hno.
      assert (Hw2 : width t a b = 0).
      { apply (proj2 IH). intros x Hx Hcov. apply (Hno x Hx). apply cov_cons. right. exact Hcov. }
      rewrite Hw2.
      destruct (N.le_gt_cases (N.min (snd r) b) (N.max (fst r) a)) as [Hle|Hgt]; [lia|exfalso].
      apply (Hno (N.max (fst r) a)); [lia|]. apply cov_cons. left. unfold inr. lia.
Qed.

Theorem width_zero_iff l a b : Canon l -> a < b ->
  (width l a b = 0 <-> forall x, a <= x < b -> ~ cov l x).
Proof. intros Hc Hab. exact (width_zero_iff_gen a b Hab l 0 Hc). Qed.

Lemma width_full_iff_gen a b : a < b -> forall l lo, sorted_from lo l ->
  (width l a b = b - a <->
   exists r, In r l /\ (fst r <=? a) && (b <=? snd r) = true).
Proof.
  intros Hab.
  induction l as [|r t IH]; intros lo Hs.
  - simpl. split; [lia|intros [r [[] _]]].
  - simpl in Hs. destruct Hs as (H1 & H2 & H3). cbn [width].
    specialize (IH (snd r) (chain_sorted _ _ H3)).
    pose proof (width_le t (snd r) a b (chain_sorted _ _ H3) ltac:(lia)) as Hle.
    split.
    + intros Hw.
      destruct (N.le_gt_cases b (snd r)) as [Hb|Hb].
      * (* everything after r contributes 0 *)
        rewrite (width_before t (snd r) a b H3 Hb) in Hw.
        exists r. split; [left; reflexivity|]. apply andb_true_iff. rewrite !N.leb_le. lia.
      * destruct (N.le_gt_cases (snd r) a) as [Ha|Ha].
        -- assert (Hw2 : width t a b = b - a) by lia.
           destruct (proj1 IH Hw2) as [r' [Hin Hr']]. exists r'. split; [right; exact Hin|exact Hr'].
        -- exfalso. (* a < snd r < b : the point snd r is lost *)
           assert (N.min (snd r) b - N.max (fst r) a <= snd r - a) by lia.
           assert (width t a b <= b - N.max a (snd r)) by exact Hle.
           destruct t as [|r2 t2]; [simpl in *; lia|].
           simpl in H3. destruct H3 as (G1 & G2 & G3).
           pose proof (width_le t2 (snd r2) a b (chain_sorted _ _ G3) ltac:(lia)).
           cbn [width] in Hw. lia.
    + intros [r' [[<-|Hin] Hr']].
      * apply andb_true_iff in Hr'. rewrite !N.leb_le in Hr'.
        rewrite (width_before t (snd r) a b H3) by lia. lia.
      * assert (Hw2 : width t a b = b - a) by (apply (proj2 IH); exists r'; split; assumption).
        apply andb_true_iff in Hr'. rewrite !N.leb_le in Hr'.
        destruct (chain_in_gt _ _ _ H3 Hin). lia.
Qed.

Theorem width_full_iff l a b : Canon l -> a < b ->
  (width l a b = b - a <-> forall x, a <= x < b -> cov l x).
Proof.
  intros Hc Hab. rewrite <- (contains_range_spec l a b Hc Hab).
  unfold contains_range. rewrite existsb_exists.
  exact (width_full_iff_gen a b Hab l 0 Hc).
Qed.

Lemma msum_width l ub : Canon l -> Bounded ub l -> msum l = width l 0 ub.
Proof.
  intros _ Hb. induction l as [|r t IH]; [reflexivity|].
  inversion Hb as [|? ? Hr Ht]; subst. cbn [msum width]. rewrite (IH Ht). lia.
Qed.

(** the empty MOC is a total input of every query (no failure clause) *)
Example queries_total_on_empty :
  (contains_val [] 3, contains_range [] 1 2, intersects_range [] 1 2, intersects [] [(1,2)],
   intersects [(1,2)] [], contains [] [], overlapped_by [] [(1,2)], overlapped_by [(1,2)] [], msum [], width [] 1 2)
  = (false, false, false, false, false, true, [], [], 0, 0).
Proof. reflexivity. Qed.
