(** Model/Repr.v — representations of a MOC: hierarchical cells (normal form,
    decided by a verified checker), numbering schemes (HEALPix NUNIQ, z-order uniq)
    and index-width conversion.  SPECIFICATION level; tied to the Rust adapters by
    the correspondence harness (C05), whose verdict on the cell view is computed by
    the extracted checker [normal_cellsb] (sound and complete, theorem below). *)
From Coq Require Import List NArith Lia Bool.
From MOC.Base Require Import RangeSet.
From MOC.Model Require Import Qty Query Build.
Import ListNotations.
Open Scope N_scope.

(** ---------- hierarchical cells ---------- *)
Definition cell := (N * N)%type.   (* depth, index *)
Definition crange (q : qty) (w : N) (c : cell) : range := cell_range q w (fst c) (snd c).
Definition parent (q : qty) (c : cell) : cell := (fst c - 1, snd c / 2 ^ dim q).

(** ascending and pairwise disjoint (touching allowed) *)
Fixpoint asc (lo : N) (l : list range) : Prop :=
  match l with [] => True | r :: t => lo <= fst r /\ fst r < snd r /\ asc (snd r) t end.
Fixpoint ascb (lo : N) (l : list range) : bool :=
  match l with [] => true | r :: t => (lo <=? fst r) && (fst r <? snd r) && ascb (snd r) t end.

Lemma ascb_spec l : forall lo, ascb lo l = true <-> asc lo l.
Proof.
  induction l as [|r t IH]; intros lo; simpl; [tauto|].
  rewrite !andb_true_iff, N.leb_le, N.ltb_lt, IH. tauto.
Qed.

Fixpoint ranges_eqb (a b : list range) : bool :=
  match a, b with
  | [], [] => true
  | x :: a', y :: b' => (fst x =? fst y) && (snd x =? snd y) && ranges_eqb a' b'
  | _, _ => false
  end.
Lemma ranges_eqb_spec a : forall b, ranges_eqb a b = true <-> a = b.
Proof.
  induction a as [|[x1 x2] a IH]; intros [|[y1 y2] b]; simpl; try (split; [discriminate|discriminate]); [tauto|].
  rewrite !andb_true_iff, !N.eqb_eq, IH. split; [intros [[-> ->] ->]; reflexivity|intros H; inversion H; auto].
Qed.

(** The property's definition of the cell normal form of the MOC (d, l) *)
Record NormalCells (q : qty) (w d : N) (l : list range) (cells : list cell) : Prop :=
  { nc_depths : Forall (fun c => fst c <= d /\ snd c < n_cells q (fst c)) cells;
    nc_ascending_disjoint : asc 0 (map (crange q w) cells);
    nc_cover : forall x, cov (map (crange q w) cells) x <-> cov l x;
    nc_maximal : Forall (fun c => fst c = 0 \/
                    ~ (forall x, inr (crange q w (parent q c)) x -> cov l x)) cells }.

Definition normal_cellsb (q : qty) (w d : N) (l : list range) (cells : list cell) : bool :=
  forallb (fun c => (fst c <=? d) && (snd c <? n_cells q (fst c))) cells
  && ascb 0 (map (crange q w) cells)
  && ranges_eqb (canon_of (map (crange q w) cells)) l
  && forallb (fun c => (fst c =? 0) ||
        negb (contains_range l (fst (crange q w (parent q c))) (snd (crange q w (parent q c))))) cells.

Theorem normal_cellsb_spec q w d l cells : Canon l ->
  (normal_cellsb q w d l cells = true <-> NormalCells q w d l cells).
Proof.
  intros Hc. unfold normal_cellsb. rewrite !andb_true_iff, !forallb_forall, ascb_spec, ranges_eqb_spec.
  split.
  - intros [[[H1 H2] H3] H4]. constructor.
    + apply Forall_forall. intros c Hin. specialize (H1 c Hin).
      apply andb_true_iff in H1. rewrite N.leb_le, N.ltb_lt in H1. exact H1.
    + exact H2.
    + intros x. rewrite <- H3. symmetry. apply canon_of_cov.
    + apply Forall_forall. intros c Hin. specialize (H4 c Hin).
      apply orb_true_iff in H4. destruct H4 as [H4|H4]; [left; apply N.eqb_eq; exact H4|right].
      apply negb_true_iff in H4. intros Hall.
      assert (Hne := cell_range_nonempty q w (fst (parent q c)) (snd (parent q c))).
      fold (crange q w (parent q c)) in Hne.
      pose proof (proj2 (contains_range_spec l _ _ Hc Hne)) as F.
      rewrite F in H4; [discriminate|]. intros x Hx. apply Hall. exact Hx.
  - intros [H1 H2 H3 H4]. repeat split.
    + intros c Hin. rewrite Forall_forall in H1. specialize (H1 c Hin).
      apply andb_true_iff. rewrite N.leb_le, N.ltb_lt. exact H1.
    + exact H2.
    + apply canon_unique; [apply canon_of_canon|exact Hc|].
      intros x. rewrite canon_of_cov. apply H3.
    + intros c Hin. rewrite Forall_forall in H4. specialize (H4 c Hin).
      apply orb_true_iff. destruct H4 as [H4|H4]; [left; apply N.eqb_eq; exact H4|right].
      apply negb_true_iff. apply not_true_is_false. intros Hcr. apply H4.
      assert (Hne := cell_range_nonempty q w (fst (parent q c)) (snd (parent q c))).
      fold (crange q w (parent q c)) in Hne.
      pose proof (proj1 (contains_range_spec l _ _ Hc Hne) Hcr) as F.
      intros x Hx. apply F. exact Hx.
Qed.

(** ---------- HEALPix NUNIQ ---------- *)
Definition uniq_hpx (d i : N) : N := i + 4 * 4 ^ d.
Definition from_uniq_hpx (u : N) : N * N :=
  let d := (N.log2 u - 2) / 2 in (d, u - 4 * 4 ^ d).

Lemma four_pow d : 4 ^ d = 2 ^ (2 * d).
Proof. rewrite N.pow_mul_r. reflexivity. Qed.

Theorem uniq_hpx_roundtrip d i : i < 12 * 4 ^ d -> from_uniq_hpx (uniq_hpx d i) = (d, i).
Proof.
  intros Hi. unfold from_uniq_hpx, uniq_hpx.
  set (u := i + 4 * 4 ^ d).
  assert (Hp : 0 < 4 ^ d) by (rewrite four_pow; apply pow2_pos).
  assert (Hlo : 2 ^ (2 * d + 2) <= u).
  { rewrite N.pow_add_r, <- four_pow. unfold u. change (2 ^ 2) with 4. lia. }
  assert (Hhi : u < 2 ^ (2 * d + 4)).
  { rewrite N.pow_add_r, <- four_pow. unfold u. change (2 ^ 4) with 16. lia. }
  assert (Hu : 0 < u) by (unfold u; lia).
  apply (N.log2_le_pow2 _ _ Hu) in Hlo. apply (N.log2_lt_pow2 _ _ Hu) in Hhi.
  assert (Hd : (N.log2 u - 2) / 2 = d).
  { symmetry. apply (N.div_unique _ _ _ (N.log2 u - 2 - 2 * d)); lia. }
  rewrite Hd. f_equal. unfold u. lia.
Qed.

Theorem uniq_hpx_injective d i d' i' : i < 12 * 4 ^ d -> i' < 12 * 4 ^ d' ->
  uniq_hpx d i = uniq_hpx d' i' -> d = d' /\ i = i'.
Proof.
  intros H H' E. pose proof (uniq_hpx_roundtrip d i H) as R. rewrite E in R.
  rewrite (uniq_hpx_roundtrip d' i' H') in R. inversion R. auto.
Qed.

(** order: by depth first, then by index *)
Theorem uniq_hpx_order d i d' i' : i < 12 * 4 ^ d -> i' < 12 * 4 ^ d' ->
  (uniq_hpx d i < uniq_hpx d' i' <-> d < d' \/ (d = d' /\ i < i')).
Proof.
  intros H H'. unfold uniq_hpx.
  destruct (N.lt_trichotomy d d') as [Hlt|[->|Hgt]].
  - assert (4 ^ (d + 1) <= 4 ^ d') by (apply N.pow_le_mono_r; lia).
    rewrite N.pow_add_r in H0. change (4 ^ 1) with 4 in H0. split; [tauto|intros _; lia].
  - split; [intros; right; split; [reflexivity|lia]|intros [Hc|[_ Hc]]; lia].
  - assert (4 ^ (d' + 1) <= 4 ^ d) by (apply N.pow_le_mono_r; lia).
    rewrite N.pow_add_r in H0. change (4 ^ 1) with 4 in H0. split; [intros; lia|intros [Hc|[Hc _]]; lia].
Qed.

(** ---------- z-order uniq ---------- *)
Fixpoint ctz_pos (p : positive) : N :=
  match p with xO p' => N.succ (ctz_pos p') | _ => 0 end.
Definition ctz (x : N) : N := match x with N0 => 0 | Npos p => ctz_pos p end.

Definition to_zuniq (q : qty) (w d i : N) : N := (2 * i + 1) * 2 ^ shift q w d.
Definition from_zuniq (q : qty) (w z : N) : N * N :=
  let tz := ctz z in
  (max_depth q w - tz / dim q, z / 2 ^ (tz + 1)).

Lemma ctz_odd_shift (m : N) (k : nat) : ctz ((2 * m + 1) * 2 ^ N.of_nat k) = N.of_nat k.
Proof.
  induction k as [|k IH].
  - simpl. rewrite N.mul_1_r. destruct m as [|p]; reflexivity.
  - rewrite Nat2N.inj_succ, N.pow_succ_r'.
    replace ((2 * m + 1) * (2 * 2 ^ N.of_nat k)) with (2 * ((2 * m + 1) * 2 ^ N.of_nat k)) by lia.
    remember ((2 * m + 1) * 2 ^ N.of_nat k) as y eqn:Ey.
    assert (Hy : 0 < y).
    { subst y. apply N.mul_pos_pos; [lia|apply pow2_pos]. }
    destruct y as [|p]; [lia|]. simpl in *. rewrite IH. reflexivity.
Qed.

Theorem zuniq_roundtrip q w d i : d <= max_depth q w ->
  from_zuniq q w (to_zuniq q w d i) = (d, i).
Proof.
  intros Hd. unfold from_zuniq, to_zuniq.
  rewrite <- (N2Nat.id (shift q w d)). rewrite ctz_odd_shift. rewrite N2Nat.id.
  f_equal.
  - unfold shift. rewrite N.mul_comm, N.div_mul by (destruct q; discriminate). lia.
  - rewrite N.pow_add_r. change (2 ^ 1) with 2.
    rewrite <- N.div_div by (try apply N.pow_nonzero; lia).
    rewrite N.div_mul by (apply N.pow_nonzero; lia).
    symmetry. apply (N.div_unique _ _ _ 1); lia.
Qed.

(** ---------- index width conversion ---------- *)
Definition scale (k : N) (l : list range) : list range :=
  map (fun r => (fst r * 2 ^ k, snd r * 2 ^ k)) l.

Lemma scale_cov k l x : cov (scale k l) x <-> cov l (x / 2 ^ k).
Proof.
  unfold scale, cov. pose proof (pow2_pos k) as Hp.
  destruct (divmod_facts (2 ^ k) x Hp) as [D1 D2].
  split.
  - intros [r [Hin [H1 H2]]]. apply in_map_iff in Hin. destruct Hin as [[a b] [<- Hin]].
    simpl in *. exists (a, b). split; [exact Hin|]. unfold inr; simpl. split.
    + apply N.div_le_lower_bound; lia.
    + apply N.div_lt_upper_bound; lia.
  - intros [[a b] [Hin [H1 H2]]]. simpl in *. exists (a * 2 ^ k, b * 2 ^ k).
    split; [apply in_map_iff; exists (a, b); split; [reflexivity|exact Hin]|].
    unfold inr; simpl. split; [nia|].
    assert (x / 2 ^ k + 1 <= b) by lia.
    assert ((x / 2 ^ k + 1) * 2 ^ k <= b * 2 ^ k) by (apply N.mul_le_mono_r; exact H).
    lia.
Qed.

Lemma scale_chain k l : forall lo, chain lo l -> chain (lo * 2 ^ k) (scale k l).
Proof.
  pose proof (pow2_pos k) as Hp.
  induction l as [|r t IH]; intros lo Hc; simpl; [exact I|].
  simpl in Hc. destruct Hc as (H1 & H2 & H3). repeat split.
  - apply N.mul_lt_mono_pos_r; assumption.
  - apply N.mul_lt_mono_pos_r; assumption.
  - apply IH. exact H3.
Qed.

Lemma scale_canon k l : Canon l -> Canon (scale k l).
Proof.
  pose proof (pow2_pos k) as Hp.
  destruct l as [|r t]; intros Hc; simpl; [exact I|].
  unfold Canon in *. simpl in *. destruct Hc as (H1 & H2 & H3). repeat split.
  - lia.
  - apply N.mul_lt_mono_pos_r; assumption.
  - apply scale_chain. exact H3.
Qed.

(** the three supported widths: widening keeps depth, domain and alignment *)
Definition widen_ok (q : qty) (w w' : N) : bool :=
  (n_cells_max q w' =? n_cells_max q w * 2 ^ (w' - w)) &&
  (max_depth q w' * dim q =? max_depth q w * dim q + (w' - w)).

Lemma widen_ok_all : forall q,
  widen_ok q 16 32 = true /\ widen_ok q 16 64 = true /\ widen_ok q 32 64 = true.
Proof. intros []; vm_compute; auto. Qed.

Theorem scale_valid q w w' d l : widen_ok q w w' = true -> w <= w' ->
  ValidMoc q w d l -> ValidMoc q w' d (scale (w' - w) l).
Proof.
  intros Hok Hw [Hd [Hc Hb] Ha]. unfold widen_ok in Hok. apply andb_true_iff in Hok.
  destruct Hok as [E1 E2]. apply N.eqb_eq in E1, E2.
  assert (Hdim : 0 < dim q) by (destruct q; reflexivity).
  constructor.
  - nia.
  - constructor; [apply scale_canon; exact Hc|].
    unfold Bounded, scale in *. rewrite Forall_forall in *. intros r Hr.
    apply in_map_iff in Hr. destruct Hr as [[a b] [<- Hin]]. simpl. rewrite E1.
    apply N.mul_le_mono_r. apply (Hb _ Hin).
  - assert (Es : shift q w' d = shift q w d + (w' - w)) by (unfold shift; nia).
    unfold Aligned, AllB, scale in *. rewrite Forall_forall in *. intros r Hr.
    apply in_map_iff in Hr. destruct Hr as [[a b] [<- Hin]]. simpl.
    destruct (Ha _ Hin) as [A1 A2]. simpl in A1, A2. unfold mult2k in *.
    rewrite Es, N.pow_add_r.
    assert (P1 : 2 ^ shift q w d <> 0) by (apply N.pow_nonzero; lia).
    assert (P2 : 2 ^ (w' - w) <> 0) by (apply N.pow_nonzero; lia).
    apply N.mod_divide in A1; [|exact P1]. apply N.mod_divide in A2; [|exact P1].
    destruct A1 as [c1 ->]. destruct A2 as [c2 ->].
    split; (apply N.mod_divide; [lia|]); [exists c1|exists c2]; lia.
Qed.
