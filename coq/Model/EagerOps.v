(** Model/EagerOps.v — (F) the eager union and intersection of src/ranges/mod.rs
    (BorrowedRanges::union / ::intersection) as written:
      union: empty operands; plain concatenation when one operand lies strictly before the other
             (last.end < first.start); otherwise a binary search
             (binary_search_by(end.cmp(other[0].start)), Ok(i) | Err(i) => i) copies the ranges of the
             operand starting first that END BEFORE the other operand starts, then the two-way loop
             (the same loop as the streaming OrRangeIter: [LazyOps.or_f]);
      intersection: quick rejection; a binary search on the STARTS of the operand that begins first
             (Ok(i) => i, Err(i) => i - 1) skips its ranges that start before the last one starting at
             or before the other operand's first start; then the two-way loop ([LazyOps.and_l]).
    binary_search_by is taken as specified on a sorted slice: the index returned by Ok / Err is
    the number of elements smaller than the key (plus, for Ok, the key sits there).
    Theorems: both equal the specification operators on valid operands. *)
From Coq Require Import List NArith Arith Lia Bool.
From MOC.Base Require Import RangeSet.
From MOC.Model Require Import Query LazyOps FracBS.
Import ListNotations.
Open Scope N_scope.

Definition rankE (l : list range) (a : N) : nat := length (filter (fun r : range => snd r <? a) l).
Definition first_start (l : list range) : N := match l with r :: _ => fst r | [] => 0 end.
Definition first_end (l : list range) : N := match l with r :: _ => snd r | [] => 0 end.
Definition last_end0 (l : list range) : N := match last_end l with Some e => e | None => 0 end.

Definition union_e (l r : list range) : list range :=
  match l, r with
  | [], _ => r
  | _, [] => l
  | _, _ =>
      if last_end0 l <? first_start r then l ++ r
      else if last_end0 r <? first_start l then r ++ l
      else
        let fuel := (length l + length r + 1)%nat in
        if first_end l <? first_start r then
          let il := rankE l (first_start r) in firstn il l ++ or_f fuel (skipn il l) r
        else if first_end r <? first_start l then
          let ir := rankE r (first_start l) in firstn ir r ++ or_f fuel l (skipn ir r)
        else or_f fuel l r
  end.

Definition inter_e (l r : list range) : list range :=
  match l, r with
  | [], _ | _, [] => []
  | _, _ =>
      if (last_end0 r <=? first_start l) || (last_end0 l <=? first_start r) then []
      else
        match first_start l ?= first_start r with
        | Lt => let i := rankS l (first_start r) in
                let il := if foundS l (first_start r) then i else pred i in
                and_l (skipn il l) r
        | Gt => let i := rankS r (first_start l) in
                let ir := if foundS r (first_start l) then i else pred i in
                and_l l (skipn ir r)
        | Eq => and_l l r
        end
  end.

(** ---------- union ---------- *)
Lemma cov_split (l : list range) k x : cov l x <-> cov (firstn k l) x \/ cov (skipn k l) x.
Proof. rewrite <- (firstn_skipn k l) at 1. apply cov_app. Qed.

Lemma filter_none_ends : forall t lo a, chain lo t -> a <= lo -> filter (fun r : range => snd r <? a) t = [].
Proof.
  induction t as [|r t IH]; intros lo a Hc Ha; cbn [filter]; [reflexivity|].
  cbn [chain] in Hc. destruct Hc as (H1 & H2 & H3).
  destruct (N.ltb_spec (snd r) a) as [L|L]; [lia|]. apply (IH (snd r)); [exact H3|lia].
Qed.

(** ranges ending before a form a prefix (the ends are increasing) *)
Lemma rankE_prefix_chain : forall l lo a, chain lo l ->
  (forall r, In r (firstn (rankE l a) l) -> snd r < a) /\
  (forall r, In r (skipn (rankE l a) l) -> a <= snd r).
Proof.
  induction l as [|r t IH]; intros lo a Hc; [split; intros r []|].
  cbn [chain] in Hc. destruct Hc as (H1 & H2 & H3). unfold rankE. cbn [filter].
  destruct (N.ltb_spec (snd r) a) as [L|L].
  - cbn [length firstn skipn]. fold (rankE t a). destruct (IH (snd r) a H3) as [I1 I2]. split.
    + intros r' [<-|Hr']; [exact L|exact (I1 r' Hr')].
    + exact I2.
  - rewrite (filter_none_ends t (snd r) a H3 L). cbn [length firstn skipn]. split; [intros r' []|].
    intros r' [<-|Hr']; [exact L|]. destruct (chain_in_gt t (snd r) r' H3 Hr'). lia.
Qed.
Lemma rankE_prefix l lo a : sorted_from lo l ->
  (forall r, In r (firstn (rankE l a) l) -> snd r < a) /\
  (forall r, In r (skipn (rankE l a) l) -> a <= snd r).
Proof.
  destruct l as [|r t]; [intros _; split; intros r []|]. cbn [sorted_from]. intros (H1 & H2 & H3).
  unfold rankE. cbn [filter]. destruct (N.ltb_spec (snd r) a) as [L|L].
  - cbn [length firstn skipn]. fold (rankE t a). destruct (rankE_prefix_chain t (snd r) a H3) as [I1 I2]. split.
    + intros r' [<-|Hr']; [exact L|exact (I1 r' Hr')].
    + exact I2.
  - rewrite (filter_none_ends t (snd r) a H3 L). cbn [length firstn skipn]. split; [intros r' []|].
    intros r' [<-|Hr']; [exact L|]. destruct (chain_in_gt t (snd r) r' H3 Hr'). lia.
Qed.

Lemma firstn_sorted (l : list range) k lo : sorted_from lo l -> sorted_from lo (firstn k l).
Proof.
  destruct l as [|r t]; [destruct k; intros H; exact H|]. destruct k; [intros _; exact I|].
  cbn [sorted_from firstn]. intros (H1 & H2 & H3). split; [exact H1|]. split; [exact H2|].
  clear -H3. revert k H3. generalize (snd r) as lo0. induction t as [|x t IH]; intros lo0 k Hc; [destruct k; exact I|].
  destruct k; [exact I|]. cbn [firstn chain] in *. destruct Hc as (K1 & K2 & K3). split; [exact K1|]. split; [exact K2|]. apply IH. exact K3.
Qed.

(** a sorted list all of whose ends are below [b] followed by a sorted list starting at or after [b]
    ... strictly after the last end: the concatenation is sorted *)
Lemma sorted_app : forall P lo Q b, sorted_from lo P -> (forall r, In r P -> snd r < b) -> sorted_from b Q -> P <> [] ->
  sorted_from lo (P ++ Q).
Proof.
  intros P lo Q b HP Hb HQ Hne. destruct P as [|p0 P']; [congruence|].
  cbn [sorted_from app] in *. destruct HP as (H1 & H2 & H3). split; [exact H1|]. split; [exact H2|].
  assert (G : forall P' lo', chain lo' P' -> lo' < b -> (forall r, In r P' -> snd r < b) -> chain lo' (P' ++ Q)).
  { clear -HQ. induction P' as [|x P' IH]; intros lo' Hc Hlo Hall; cbn [app].
    - destruct Q as [|q Q']; [exact I|]. cbn [sorted_from chain] in *. destruct HQ as (K1 & K2 & K3). split; [lia|]. split; assumption.
    - cbn [chain] in *. destruct Hc as (K1 & K2 & K3). split; [exact K1|]. split; [exact K2|].
      apply IH; [exact K3|apply Hall; left; reflexivity|intros r Hr; apply Hall; right; exact Hr]. }
  apply G; [exact H3|apply Hb; left; reflexivity|intros r Hr; apply Hb; right; exact Hr].
Qed.

Lemma last_end0_max l lo r : sorted_from lo l -> In r l -> snd r <= last_end0 l.
Proof.
  intros Hs Hin. unfold last_end0.
  assert (G : forall l lo, sorted_from lo l -> l <> [] -> exists e, last_end l = Some e /\ forall r, In r l -> snd r <= e).
  { clear. induction l as [|r0 t IH]; intros lo Hs Hne; [congruence|]. cbn [sorted_from] in Hs. destruct Hs as (H1 & H2 & H3).
    destruct t as [|r1 t1].
    - exists (snd r0). split; [reflexivity|]. intros r [<-|[]]. lia.
    - destruct (IH (snd r0) (chain_sorted _ _ H3) ltac:(discriminate)) as (e & E1 & E2). exists e. split; [exact E1|].
      intros r [<-|Hr]; [|exact (E2 r Hr)]. specialize (E2 r1 (or_introl eq_refl)). cbn [chain] in H3. lia. }
  destruct (G l lo Hs ltac:(intros E; subst; destruct Hin)) as (e & E1 & E2). rewrite E1. exact (E2 r Hin).
Qed.

Lemma first_start_min l lo r : sorted_from lo l -> In r l -> first_start l <= fst r.
Proof.
  destruct l as [|r0 t]; [intros _ []|]. cbn [sorted_from first_start]. intros (H1 & H2 & H3) [<-|Hin]; [lia|].
  destruct (chain_in_gt t (snd r0) r H3 Hin). lia.
Qed.

Lemma sorted_self (l : list range) lo : sorted_from lo l -> sorted_from (first_start l) l.
Proof. destruct l as [|r t]; [intros _; exact I|]. cbn [sorted_from first_start]. intros (H1 & H2 & H3). split; [lia|split; assumption]. Qed.

Lemma hd_skipn_in (l : list range) k : skipn k l <> [] -> (k < length l)%nat /\ first_start (skipn k l) = fst (nth k l (0, 0)).
Proof.
  revert l. induction k as [|k IH]; intros l Hne.
  - destruct l as [|r t]; [exfalso; apply Hne; reflexivity|]. cbn. split; [lia|reflexivity].
  - destruct l as [|r t]; [exfalso; apply Hne; reflexivity|]. cbn [skipn] in *. destruct (IH t Hne) as [A B]. cbn [length nth]. split; [lia|exact B].
Qed.

(** a prefix of l that ends before r starts, followed by the two-way merge of the rest *)
Lemma prefix_union_l l r k fuel : sorted_from 0 l -> sorted_from 0 r -> r <> [] -> (length l + length r < fuel)%nat ->
  (forall p, In p (firstn k l) -> snd p < first_start r) ->
  sorted_from 0 (firstn k l ++ or_f fuel (skipn k l) r) /\
  forall x, cov (firstn k l ++ or_f fuel (skipn k l) r) x <-> cov l x \/ cov r x.
Proof.
  intros Hl Hr Nr Hf Hp.
  set (a := match skipn k l with [] => first_start r | _ => first_start (skipn k l) end).
  assert (Sa : sorted_from a (skipn k l)).
  { unfold a. destruct (skipn k l) eqn:E; [exact I|]. rewrite <- E. apply (sorted_self _ 0). apply skipn_sorted. exact Hl. }
  destruct (or_f_spec fuel (skipn k l) r a (first_start r) ltac:(rewrite skipn_length; lia) Sa (sorted_self r 0 Hr)) as [S C].
  split.
  - destruct (firstn k l) as [|p0 P'] eqn:EP.
    + cbn [app]. apply (sorted_from_weaken _ (N.min a (first_start r))); [lia|exact S].
    + rewrite <- EP in *. apply (sorted_app (firstn k l) 0 _ (N.min a (first_start r))); [apply firstn_sorted; exact Hl| |exact S|rewrite EP; discriminate].
      intros p Hin. specialize (Hp p Hin). unfold a. destruct (skipn k l) eqn:E; [lia|].
      assert (Hne : skipn k l <> []) by (rewrite E; discriminate). rewrite <- E.
      destruct (hd_skipn_in l k Hne) as [Hk Hh]. rewrite Hh.
      pose proof (sorted_before l 0 k p Hl Hk Hin). lia.
  - intros x. rewrite cov_app, C, (cov_split l k x). tauto.
Qed.

Lemma prefix_union_r l r k fuel : sorted_from 0 l -> sorted_from 0 r -> l <> [] -> (length l + length r < fuel)%nat ->
  (forall p, In p (firstn k r) -> snd p < first_start l) ->
  sorted_from 0 (firstn k r ++ or_f fuel l (skipn k r)) /\
  forall x, cov (firstn k r ++ or_f fuel l (skipn k r)) x <-> cov l x \/ cov r x.
Proof.
  intros Hl Hr Nl Hf Hp.
  set (a := match skipn k r with [] => first_start l | _ => first_start (skipn k r) end).
  assert (Sa : sorted_from a (skipn k r)).
  { unfold a. destruct (skipn k r) eqn:E; [exact I|]. rewrite <- E. apply (sorted_self _ 0). apply skipn_sorted. exact Hr. }
  destruct (or_f_spec fuel l (skipn k r) (first_start l) a ltac:(rewrite skipn_length; lia) (sorted_self l 0 Hl) Sa) as [S C].
  split.
  - destruct (firstn k r) as [|p0 P'] eqn:EP.
    + cbn [app]. apply (sorted_from_weaken _ (N.min (first_start l) a)); [lia|exact S].
    + rewrite <- EP in *. apply (sorted_app (firstn k r) 0 _ (N.min (first_start l) a)); [apply firstn_sorted; exact Hr| |exact S|rewrite EP; discriminate].
      intros p Hin. specialize (Hp p Hin). unfold a. destruct (skipn k r) eqn:E; [lia|].
      assert (Hne : skipn k r <> []) by (rewrite E; discriminate). rewrite <- E.
      destruct (hd_skipn_in r k Hne) as [Hk Hh]. rewrite Hh.
      pose proof (sorted_before r 0 k p Hr Hk Hin). lia.
  - intros x. rewrite cov_app, C, (cov_split r k x). tauto.
Qed.

Theorem union_e_spec l r : Canon l -> Canon r ->
  Canon (union_e l r) /\ forall x, cov (union_e l r) x <-> cov l x \/ cov r x.
Proof.
  intros Hl Hr. unfold union_e.
  destruct l as [|l0 l']; [split; [exact Hr|intros x; split; [tauto|intros [H|H]; [destruct (cov_nil _ H)|exact H]]]|].
  destruct r as [|r0 r']; [split; [exact Hl|intros x; split; [tauto|intros [H|H]; [exact H|destruct (cov_nil _ H)]]]|].
  remember (l0 :: l') as l eqn:El. remember (r0 :: r') as r eqn:Er.
  assert (Nl : l <> []) by (subst; discriminate). assert (Nr : r <> []) by (subst; discriminate).
  destruct (N.ltb_spec (last_end0 l) (first_start r)) as [Q1|Q1].
  - (* l entirely before r *)
    split; [|intros x; apply cov_app].
    apply (sorted_app l 0 r (first_start r)); [exact Hl| |apply (sorted_self r 0 Hr)|exact Nl].
    intros p Hp. pose proof (last_end0_max l 0 p Hl Hp). lia.
  - destruct (N.ltb_spec (last_end0 r) (first_start l)) as [Q2|Q2].
    + split; [|intros x; rewrite cov_app; tauto].
      apply (sorted_app r 0 l (first_start l)); [exact Hr| |apply (sorted_self l 0 Hl)|exact Nr].
      intros p Hp. pose proof (last_end0_max r 0 p Hr Hp). lia.
    + destruct (N.ltb_spec (first_end l) (first_start r)) as [Q3|Q3].
      * destruct (rankE_prefix l 0 (first_start r) Hl) as [P1 _].
        apply (prefix_union_l l r (rankE l (first_start r)) (length l + length r + 1)%nat Hl Hr Nr ltac:(lia) P1).
      * destruct (N.ltb_spec (first_end r) (first_start l)) as [Q4|Q4].
        -- destruct (rankE_prefix r 0 (first_start l) Hr) as [P1 _].
           apply (prefix_union_r l r (rankE r (first_start l)) (length l + length r + 1)%nat Hl Hr Nl ltac:(lia) P1).
        -- apply (or_f_spec _ l r 0 0); [lia|exact Hl|exact Hr].
Qed.

Theorem union_e_eq_spec ub l r : Valid ub l -> Valid ub r -> union_e l r = union l r.
Proof.
  intros Vl Vr. destruct (union_e_spec l r (v_canon _ _ Vl) (v_canon _ _ Vr)) as [C1 C2].
  apply canon_unique; [exact C1|apply (valid_union ub l r Vl Vr)|].
  intros x. rewrite C2, (valid_union_cov ub l r x Vl Vr). reflexivity.
Qed.

(** ---------- intersection ---------- *)
(** skipping the ranges of l that end at or before [b] does not change the intersection with a
    set lying at or after [b] *)
Lemma inter_skip l r k : (forall p, In p (firstn k l) -> snd p <= first_start r) -> sorted_from 0 r ->
  forall x, cov l x /\ cov r x <-> cov (skipn k l) x /\ cov r x.
Proof.
  intros Hp Hr x. rewrite (cov_split l k x). split; [|tauto].
  intros [[H|H] Hx]; [|tauto]. exfalso. destruct H as [p [Hin [_ Hlt]]]. specialize (Hp p Hin).
  destruct Hx as [q [Hq [Hge _]]]. pose proof (first_start_min r 0 q Hr Hq). lia.
Qed.

Lemma nth_in_firstn_S (l : list range) j : (j < length l)%nat -> In (nth j l (0, 0)) (firstn (S j) l).
Proof.
  revert j. induction l as [|x t IH]; intros j Hj; [cbn in Hj; lia|].
  destruct j; cbn [firstn nth]; [left; reflexivity|]. right. apply IH. cbn [length] in Hj. lia.
Qed.

Lemma start_search_prefix l a : sorted_from 0 l ->
  forall p, In p (firstn (if foundS l a then rankS l a else pred (rankS l a)) l) -> snd p <= a.
Proof.
  intros Hl p Hin. destruct (rank_prefix l 0 a Hl) as [P1 P2].
  pose proof (rank_le_length l a) as Hk. remember (rankS l a) as i eqn:Ei.
  destruct (foundS l a) eqn:F.
  - (* position i holds the range starting at a; p is before it *)
    apply foundS_spec in F. destruct F as [rf [Hrf Erf]].
    assert (Hs : In rf (skipn i l)).
    { rewrite <- (firstn_skipn i l) in Hrf. apply in_app_or in Hrf. destruct Hrf as [Hp|Hq]; [specialize (P1 rf Hp); lia|exact Hq]. }
    assert (Hne : skipn i l <> []) by (intros E0; rewrite E0 in Hs; destruct Hs).
    destruct (hd_skipn_in l i Hne) as [Hlt Hh].
    pose proof (first_start_min (skipn i l) 0 rf (skipn_sorted l i 0 Hl) Hs) as M.
    pose proof (sorted_before l 0 i p Hl Hlt Hin) as B. rewrite <- Hh in B. lia.
  - destruct i as [|j]; cbn [pred] in Hin; [destruct Hin|].
    assert (Hj : (j < length l)%nat) by lia.
    pose proof (sorted_before l 0 j p Hl Hj Hin) as B.
    pose proof (P1 _ (nth_in_firstn_S l j Hj)). lia.
Qed.

Theorem inter_e_spec l r : Canon l -> Canon r ->
  Canon (inter_e l r) /\ forall x, cov (inter_e l r) x <-> cov l x /\ cov r x.
Proof.
  intros Hl Hr. unfold inter_e.
  destruct l as [|l0 l']; [split; [exact I|intros x; split; [intros H; destruct (cov_nil _ H)|intros [H _]; destruct (cov_nil _ H)]]|].
  destruct r as [|r0 r']; [split; [exact I|intros x; split; [intros H; destruct (cov_nil _ H)|intros [_ H]; destruct (cov_nil _ H)]]|].
  remember (l0 :: l') as l eqn:El. remember (r0 :: r') as r eqn:Er.
  destruct ((last_end0 r <=? first_start l) || (last_end0 l <=? first_start r)) eqn:Q.
  - (* quick rejection *)
    split; [exact I|]. intros x. split; [intros H; destruct (cov_nil _ H)|]. intros [[p [Hp [P1 P2]]] [q [Hq [Q1 Q2]]]].
    pose proof (last_end0_max l 0 p Hl Hp). pose proof (last_end0_max r 0 q Hr Hq).
    pose proof (first_start_min l 0 p Hl Hp). pose proof (first_start_min r 0 q Hr Hq).
    apply orb_true_iff in Q. destruct Q as [Q|Q]; apply N.leb_le in Q; lia.
  - destruct (N.compare_spec (first_start l) (first_start r)) as [C|C|C].
    + destruct (and_l_spec l r 0 0 Hl Hr) as [S Cv]. split; [exact S|exact Cv].
    + cbv zeta. remember (if foundS l (first_start r) then rankS l (first_start r) else pred (rankS l (first_start r))) as il eqn:Eil.
      destruct (and_l_spec (skipn il l) r 0 0 (skipn_sorted l il 0 Hl) Hr) as [S Cv]. split; [exact S|].
      intros x. rewrite Cv. symmetry. apply inter_skip; [|exact Hr]. rewrite Eil. apply (start_search_prefix l (first_start r) Hl).
    + cbv zeta. remember (if foundS r (first_start l) then rankS r (first_start l) else pred (rankS r (first_start l))) as ir eqn:Eir.
      destruct (and_l_spec l (skipn ir r) 0 0 Hl (skipn_sorted r ir 0 Hr)) as [S Cv]. split; [exact S|].
      intros x. rewrite Cv.
      assert (Hp : forall p, In p (firstn ir r) -> snd p <= first_start l) by (rewrite Eir; apply (start_search_prefix r (first_start l) Hr)).
      pose proof (inter_skip r l ir Hp Hl x). tauto.
Qed.

Theorem inter_e_eq_spec ub l r : Valid ub l -> Valid ub r -> inter_e l r = inter ub l r.
Proof.
  intros Vl Vr. destruct (inter_e_spec l r (v_canon _ _ Vl) (v_canon _ _ Vr)) as [C1 C2].
  apply canon_unique; [exact C1|apply (valid_inter ub l r Vl Vr)|].
  intros x. rewrite C2, (inter_cov ub l r x Vl Vr). reflexivity.
Qed.

Example eager_examples :
  union_e [(0, 2); (4, 6); (10, 12); (20, 30)] [(11, 21); (40, 41)] = [(0, 2); (4, 6); (10, 30); (40, 41)] /\
  union_e [(0, 2)] [(2, 4)] = [(0, 4)] /\ union_e [(0, 2)] [(3, 4)] = [(0, 2); (3, 4)] /\
  inter_e [(0, 2); (4, 6); (10, 12); (20, 30)] [(11, 21); (40, 41)] = [(11, 12); (20, 21)] /\
  inter_e [(0, 5)] [(5, 9)] = [].
Proof. repeat split; vm_compute; reflexivity. Qed.
