(** Model/TextValid.v — validation performed by the text decoders (ASCII, JSON), token
    level (S): a document is a list of (depth, first index, last index + 1) items (a cell
    is an item of length 1).  A document is accepted iff every depth is within the
    quantity's maximum, every item lies inside the domain of its depth, is not inverted,
    and no two items overlap.  What is accepted converts to a canonical MOC. *)
From Coq Require Import List NArith Lia Bool.
From MOC.Base Require Import RangeSet.
From MOC.Model Require Import Qty Query Build Repr.
Import ListNotations.
Open Scope N_scope.

Definition item := (N * (N * N))%type.   (* depth, [start, end) cell indices at that depth *)

Definition irange (q : qty) (w : N) (it : item) : range :=
  (fst (snd it) * 2 ^ shift q w (fst it), snd (snd it) * 2 ^ shift q w (fst it)).

Definition item_ok (q : qty) (w : N) (it : item) : bool :=
  (fst it <=? max_depth q w) && (fst (snd it) <? snd (snd it)) && (snd (snd it) <=? n_cells q (fst it)).

Definition overlapb (a b : range) : bool := (fst a <? snd b) && (fst b <? snd a).

Fixpoint no_overlap_with (r : range) (l : list range) : bool :=
  match l with [] => true | x :: t => negb (overlapb r x) && no_overlap_with r t end.
Fixpoint pairwise_disjointb (l : list range) : bool :=
  match l with [] => true | x :: t => no_overlap_with x t && pairwise_disjointb t end.

(** the validation predicate (order-insensitive: the implementation sorts first) *)
Definition text_accept (q : qty) (w : N) (doc : list item) : bool :=
  forallb (item_ok q w) doc && pairwise_disjointb (map (irange q w) doc).

(** depth reported: the maximum of the depths present and of the explicit depth marks *)
Definition text_depth (marks : list N) (doc : list item) : N :=
  fold_left N.max (marks ++ map fst doc) 0.

Definition text_decode (q : qty) (w : N) (doc : list item) : list range :=
  canon_of (map (irange q w) doc).

Lemma fold_max_ge l : forall acc x, In x l \/ x <= acc -> x <= fold_left N.max l acc.
Proof.
  induction l as [|y l IH]; intros acc x H; simpl.
  - destruct H as [[]|H]; exact H.
  - apply IH. destruct H as [[<-|H]|H]; [right; lia|left; exact H|right; lia].
Qed.

Lemma shift_pow_split q w d dmax : d <= dmax -> dmax <= max_depth q w ->
  2 ^ shift q w d = 2 ^ shift q w dmax * 2 ^ (dim q * (dmax - d)).
Proof.
  intros H1 H2. rewrite <- N.pow_add_r. f_equal. unfold shift. nia.
Qed.

Theorem accepted_is_valid q w marks doc :
  text_accept q w doc = true ->
  text_depth marks doc <= max_depth q w ->
  ValidMoc q w (text_depth marks doc) (text_decode q w doc).
Proof.
  intros Hacc Hd. unfold text_accept in Hacc. apply andb_true_iff in Hacc. destruct Hacc as [Hok _].
  rewrite forallb_forall in Hok.
  set (dm := text_depth marks doc) in *.
  assert (Hdep : forall it, In it doc -> fst it <= dm).
  { intros it Hin. unfold dm, text_depth. apply fold_max_ge. left. apply in_or_app. right.
    apply in_map. exact Hin. }
  constructor; [exact Hd| |].
  - constructor; [apply canon_of_canon|].
    apply allb_bounded. unfold text_decode. apply canon_of_allb.
    unfold AllB. rewrite Forall_forall. intros r Hr. apply in_map_iff in Hr.
    destruct Hr as [[d [a b]] [<- Hin]]. specialize (Hok _ Hin). unfold item_ok in Hok. simpl in Hok.
    rewrite !andb_true_iff, N.leb_le, N.ltb_lt, N.leb_le in Hok. destruct Hok as [[H1 H2] H3].
    unfold irange; simpl.
    assert (E : n_cells_max q w = n_cells q d * 2 ^ shift q w d).
    { unfold n_cells_max, n_cells, shift. rewrite <- N.mul_assoc, <- N.pow_add_r. f_equal. f_equal. nia. }
    rewrite E. pose proof (pow2_pos (shift q w d)). split; nia.
  - unfold text_decode. apply canon_of_allb. unfold AllB. rewrite Forall_forall.
    intros r Hr. apply in_map_iff in Hr. destruct Hr as [[d [a b]] [<- Hin]].
    specialize (Hdep _ Hin). simpl in Hdep. unfold irange; simpl. unfold mult2k.
    rewrite (shift_pow_split q w d dm Hdep Hd).
    split; rewrite N.mul_assoc, (N.mul_comm _ (2 ^ shift q w dm)), <- N.mul_assoc, N.mul_comm;
      apply N.mod_mul; apply N.pow_nonzero; lia.
Qed.

(** every accepted item lies inside its depth's domain and the items are pairwise disjoint *)
Lemma no_overlap_with_spec r l : no_overlap_with r l = true <->
  forall x, In x l -> ~ (fst r < snd x /\ fst x < snd r).
Proof.
  induction l as [|y l IH]; simpl; [split; [intros _ x []|reflexivity]|].
  rewrite andb_true_iff, IH, negb_true_iff. unfold overlapb. rewrite andb_false_iff, !N.ltb_ge.
  split.
  - intros [H1 H2] x [<-|Hx]; [lia|apply H2; exact Hx].
  - intros H. split; [specialize (H y (or_introl eq_refl)); lia|intros x Hx; apply H; right; exact Hx].
Qed.

Theorem accepted_items_in_domain q w doc it :
  text_accept q w doc = true -> In it doc ->
  fst it <= max_depth q w /\ fst (snd it) < snd (snd it) /\ snd (snd it) <= n_cells q (fst it).
Proof.
  intros Hacc Hin. unfold text_accept in Hacc. apply andb_true_iff in Hacc. destruct Hacc as [Hok _].
  rewrite forallb_forall in Hok. specialize (Hok _ Hin). unfold item_ok in Hok.
  rewrite !andb_true_iff, N.leb_le, N.ltb_lt, N.leb_le in Hok. tauto.
Qed.

(** the covered set of what is accepted is exactly the union of the listed cells *)
Theorem accepted_cover q w doc x :
  cov (text_decode q w doc) x <-> exists it, In it doc /\ inr (irange q w it) x.
Proof.
  unfold text_decode. rewrite canon_of_cov. unfold cov. split.
  - intros [r [Hin Hr]]. apply in_map_iff in Hin. destruct Hin as [it [<- Hit]]. exists it. tauto.
  - intros [it [Hit Hr]]. exists (irange q w it). split; [apply in_map; exact Hit|exact Hr].
Qed.
