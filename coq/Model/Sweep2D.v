(** Model/Sweep2D.v — (F) the range-2D construction path (src/ranges/ranges2d.rs
    Ranges2D::make_consistent + compress), the one used by the store and MOCPy:
      every input entry i = (time range [ts i, te i), space coverage S_i) gives two bounds
      (ts i, i, start) and (te i, i, end); the bounds are sorted by (x, end-before-start);
      a sweep keeps the SET of entries whose time range is open (insert on a start, remove on an end)
      and, at each bound x greater than the previous one, when that set is not empty, emits
      ([prev, x), union of the coverages of the open entries) — unless that union is empty;
      [compress] then fuses touching emitted entries with equal coverages.
    The sort is taken as specified ([sorted_b]: any arrangement of the bounds that is ordered by
    (x, end < start)); the union of the open coverages is any list with the union's covered set
    (the order in which the HashSet is reduced cannot matter: canonical forms are unique).
    Theorems: the emitted entries, and the compressed result, cover (t, s) exactly when some input
    entry has t in its time range and s in its coverage; the emitted time ranges are non-empty,
    increasing and pairwise disjoint; no emitted coverage is empty. *)
From Coq Require Import List NArith Arith Lia Bool Sorting.Sorted.
From MOC.Base Require Import RangeSet.
From MOC.Model Require Import Qty Query Build Repr.
Import ListNotations.
Open Scope N_scope.

Definition bound := (N * nat * bool)%type.          (* x, entry index, is_start *)
Definition bx (b : bound) : N := fst (fst b).
Definition bi (b : bound) : nat := snd (fst b).
Definition bs_ (b : bound) : bool := snd b.

(** order of the sort: by x, ends before starts *)
Definition ble (a b : bound) : Prop := bx a < bx b \/ (bx a = bx b /\ (bs_ a = false \/ bs_ b = true)).

Definition isnil {A} (l : list A) : bool := match l with [] => true | _ => false end.

Section Sweep.
Variable n : nat.                       (* number of entries *)
Variables ts te : nat -> N.             (* their time ranges *)
Variable ys : nat -> list range.        (* their space coverages *)
Hypothesis t_nonempty : forall i, (i < n)%nat -> ts i < te i.
Hypothesis y_canon : forall i, (i < n)%nat -> Canon (ys i).

(** union of the coverages of the open entries: any canonical list with that covered set *)
Variable ucov : list nat -> list range.
Hypothesis ucov_canon : forall a, (forall i, In i a -> (i < n)%nat) -> Canon (ucov a).
Hypothesis ucov_cov : forall a x, (forall i, In i a -> (i < n)%nat) ->
  (cov (ucov a) x <-> exists i, In i a /\ cov (ys i) x).

Definition entry := (range * list range)%type.
Record st2 := { act : list nat; prev : N; out : list entry }.

Definition step2 (s : st2) (b : bound) : st2 :=
  let out' :=
    if (prev s <? bx b) && negb (isnil (act s)) then
      let U := ucov (act s) in
      if isnil U then out s else out s ++ [((prev s, bx b), U)]
    else out s in
  {| act := if bs_ b then bi b :: act s else remove Nat.eq_dec (bi b) (act s);
     prev := bx b; out := out' |}.

Definition sweep2 (bs : list bound) : list entry :=
  match bs with
  | [] => []
  | b0 :: t => out (fold_left step2 t {| act := [bi b0]; prev := bx b0; out := [] |})
  end.

(** the sorted list of bounds *)
Variable bs : list bound.
Hypothesis bs_sorted : StronglySorted ble bs.
Hypothesis bs_start : forall x i, In (x, i, true) bs <-> ((i < n)%nat /\ x = ts i).
Hypothesis bs_end : forall x i, In (x, i, false) bs <-> ((i < n)%nat /\ x = te i).

(** covered points of a list of emitted entries, and of the input *)
Definition covE (l : list entry) (t s : N) : Prop := exists e, In e l /\ inr (fst e) t /\ cov (snd e) s.
Definition covIn (t s : N) : Prop := exists i, (i < n)%nat /\ ts i <= t < te i /\ cov (ys i) s.

Lemma covE_app l1 l2 t s : covE (l1 ++ l2) t s <-> covE l1 t s \/ covE l2 t s.
Proof.
  unfold covE. split.
  - intros [e [Hin H]]. apply in_app_or in Hin. destruct Hin; [left|right]; exists e; tauto.
  - intros [[e [Hin H]]|[e [Hin H]]]; exists e; (split; [apply in_or_app; tauto|exact H]).
Qed.

(** invariant after the bounds [P] (a non-empty prefix of [bs]) have been processed *)
Record Inv2 (P : list bound) (s : st2) : Prop :=
  { i_act : forall i, In i (act s) <-> ((i < n)%nat /\ In (ts i, i, true) P /\ ~ In (te i, i, false) P);
    i_prev_in : exists b, In b P /\ bx b = prev s;
    i_prev_max : forall b, In b P -> bx b <= prev s;
    i_out_before : forall e, In e (out s) -> fst (fst e) < snd (fst e) /\ snd (fst e) <= prev s /\ snd e <> [] /\ Canon (snd e);
    i_out_cov : forall t x, t < prev s -> (covE (out s) t x <-> covIn t x) }.

Lemma in_remove_iff (l : list nat) i j : In i (remove Nat.eq_dec j l) <-> In i l /\ i <> j.
Proof.
  split.
  - intros H. apply in_remove in H. exact H.
  - intros [H1 H2]. apply in_in_remove; assumption.
Qed.

Lemma act_lt P s : Inv2 P s -> forall i, In i (act s) -> (i < n)%nat.
Proof. intros I i Hi. apply (i_act P s I) in Hi. tauto. Qed.

(** one step preserves the invariant, provided the next bound is not smaller than the processed
    ones and every remaining bound is not smaller than it (sortedness) *)
Lemma step2_inv P s b R : Inv2 P s -> In b bs ->
  (forall p, In p P -> ble p b) ->
  (forall r, In r R -> ble b r) ->
  (forall c, In c bs -> In c P \/ c = b \/ In c R) ->
  (forall p, In p P -> In p bs) ->
  Inv2 (P ++ [b]) (step2 s b).
Proof.
  intros I Hb HP HR Hall HPin. destruct b as [[x i] stt].
  pose proof (i_prev_max P s I) as Hmax. destruct (i_prev_in P s I) as [bp [Hbp Ebp]].
  assert (Hpx : prev s <= x).
  { specialize (HP bp Hbp). unfold ble, bx in HP. cbn [fst snd] in HP. unfold bx in Ebp. lia. }
  (* which index does b belong to *)
  assert (Hi : (i < n)%nat /\ x = (if stt then ts i else te i)).
  { destruct stt; [apply bs_start in Hb|apply bs_end in Hb]; exact Hb. }
  destruct Hi as [Hi Ex].
  constructor.
  - (* active set *)
    intros j. unfold step2. cbn [act bs_ bi fst snd]. destruct stt.
    + cbn [In]. rewrite (i_act P s I j). rewrite !in_app_iff. cbn [In]. split.
      * intros [<-|(A & B & C)].
        -- split; [exact Hi|]. split; [right; left; rewrite Ex; reflexivity|]. intros [K|[K|[]]]; [|inversion K].
           (* the end of i cannot have been processed before its start *)
           specialize (HP _ K). unfold ble, bx, bs_ in HP. cbn [fst snd] in HP. pose proof (t_nonempty i Hi). subst x. lia.
        -- split; [exact A|]. split; [left; exact B|]. intros [K|[K|[]]]; [exact (C K)|inversion K].
      * intros (A & [B|[B|[]]] & C).
        -- right. split; [exact A|]. split; [exact B|]. intros K. apply C. left. exact K.
        -- inversion B; subst. left. reflexivity.
    + rewrite in_remove_iff, (i_act P s I j). rewrite !in_app_iff. cbn [In]. split.
      * intros ((A & B & C) & D). split; [exact A|]. split; [left; exact B|]. intros [K|[K|[]]]; [exact (C K)|]. inversion K; subst. congruence.
      * intros (A & [B|[B|[]]] & C); [|inversion B].
        split; [split; [exact A|split; [exact B|]]|].
        -- intros K. apply C. left. exact K.
        -- intros ->. apply C. right. left. rewrite Ex. reflexivity.
  - exists (x, i, stt). split; [apply in_or_app; right; left; reflexivity|reflexivity].
  - intros c Hc. apply in_app_or in Hc. unfold step2. cbn [prev bx fst snd]. destruct Hc as [Hc|[<-|[]]]; [|cbn; lia].
    specialize (Hmax c Hc). unfold bx in *. lia.
  - (* emitted entries *)
    intros e He. unfold step2 in He |- *. cbn [out prev bx fst snd] in He |- *.
    assert (Old : In e (out s) -> fst (fst e) < snd (fst e) /\ snd (fst e) <= x /\ snd e <> [] /\ Canon (snd e)).
    { intros K. destruct (i_out_before P s I e K) as (A & B & C & D). repeat split; try assumption. lia. }
    destruct ((prev s <? x) && negb (isnil (act s))) eqn:Q; [|exact (Old He)].
    destruct (isnil (ucov (act s))) eqn:U; [exact (Old He)|].
    apply in_app_or in He. destruct He as [He|[<-|[]]]; [exact (Old He)|]. cbn [fst snd].
    apply andb_true_iff in Q. destruct Q as [Q1 Q2]. apply N.ltb_lt in Q1.
    repeat split; [exact Q1|lia|intros E; rewrite E in U; discriminate|apply ucov_canon; exact (act_lt P s I)].
  - (* covered points below the new position *)
    intros t y Ht. unfold step2 in Ht |- *. cbn [out prev bx fst snd] in Ht |- *.
    destruct (N.lt_ge_cases t (prev s)) as [Lt|Ge].
    + (* below the old position: nothing changes there *)
      assert (E : covE (if (prev s <? x) && negb (isnil (act s)) then if isnil (ucov (act s)) then out s else out s ++ [((prev s, x), ucov (act s))] else out s) t y <-> covE (out s) t y).
      { destruct ((prev s <? x) && negb (isnil (act s))); [|reflexivity]. destruct (isnil (ucov (act s))); [reflexivity|].
        rewrite covE_app. split; [|tauto]. intros [K|[e [[<-|[]] [[K1 K2] _]]]]; [exact K|]. cbn [fst] in K1. lia. }
      rewrite E. exact (i_out_cov P s I t y Lt).
    + (* in [prev, x): the open entries are exactly those whose time range contains t *)
      assert (Hlt : prev s < x) by lia. destruct (N.ltb_spec (prev s) x) as [_|?]; [|lia].
      assert (Open : forall j, In j (act s) <-> ((j < n)%nat /\ ts j <= t < te j)).
      { intros j. rewrite (i_act P s I j). split.
        - intros (A & B & C). split; [exact A|]. specialize (Hmax _ B). unfold bx in Hmax. cbn [fst] in Hmax. split; [lia|].
          (* the end of j is not processed: it is b or a remaining bound, hence >= x *)
          assert (Hin : In (te j, j, false) bs) by (apply bs_end; split; [exact A|reflexivity]).
          destruct (Hall _ Hin) as [K|[K|K]]; [contradiction| |].
          + inversion K; subst. lia.
          + specialize (HR _ K). unfold ble, bx in HR. cbn [fst snd] in HR. lia.
        - intros (A & B1 & B2). split; [exact A|].
          assert (Hs : In (ts j, j, true) bs) by (apply bs_start; split; [exact A|reflexivity]).
          assert (He : In (te j, j, false) bs) by (apply bs_end; split; [exact A|reflexivity]).
          split.
          + destruct (Hall _ Hs) as [K|[K|K]]; [exact K| |].
            * inversion K; subst. lia.
            * specialize (HR _ K). unfold ble, bx in HR. cbn [fst snd] in HR. lia.
          + intros K. specialize (Hmax _ K). unfold bx in Hmax. cbn [fst] in Hmax. lia. }
      assert (Old0 : ~ covE (out s) t y).
      { intros [e [He [[K1 K2] _]]]. destruct (i_out_before P s I e He) as (_ & B & _). lia. }
      destruct (isnil (act s)) eqn:Na; cbn [negb andb].
      * (* nothing open: nothing covered *)
        split; [intros K; contradiction|]. intros [j (A & B & C)]. exfalso.
        assert (In j (act s)) by (apply Open; split; assumption). destruct (act s); [destruct H|discriminate].
      * destruct (isnil (ucov (act s))) eqn:U.
        -- split; [intros K; contradiction|]. intros [j (A & B & C)]. exfalso.
           assert (cov (ucov (act s)) y) by (apply ucov_cov; [exact (act_lt P s I)|]; exists j; split; [apply Open; split; assumption|exact C]).
           destruct (ucov (act s)); [destruct (cov_nil _ H)|discriminate].
        -- rewrite covE_app. split.
           ++ intros [K|[e [[<-|[]] [_ K]]]]; [contradiction|]. cbn [snd] in K.
              apply ucov_cov in K; [|exact (act_lt P s I)]. destruct K as [j [Hj Cj]]. apply Open in Hj.
              exists j. tauto.
           ++ intros [j (A & B & C)]. right. exists ((prev s, x), ucov (act s)). split; [left; reflexivity|]. split; [unfold inr; cbn [fst snd]; lia|].
              cbn [snd]. apply ucov_cov; [exact (act_lt P s I)|]. exists j. split; [apply Open; split; assumption|exact C].
Qed.

Lemma ss_split (l1 : list bound) x l2 : StronglySorted ble (l1 ++ x :: l2) ->
  (forall p, In p l1 -> ble p x) /\ (forall r, In r l2 -> ble x r).
Proof.
  induction l1 as [|a l1 IH]; cbn [app]; intros H.
  - inversion H as [|? ? _ Hall]; subst. split; [intros p []|]. rewrite Forall_forall in Hall. exact Hall.
  - inversion H as [|? ? Hs Hall]; subst. destruct (IH Hs) as [I1 I2]. split; [|exact I2].
    intros p [<-|Hp]; [|exact (I1 p Hp)]. rewrite Forall_forall in Hall. apply Hall. apply in_or_app. right. left. reflexivity.
Qed.

Lemma fold_inv : forall R P s, Inv2 P s -> bs = P ++ R -> Inv2 (P ++ R) (fold_left step2 R s).
Proof.
  induction R as [|b R IH]; intros P s I E; cbn [fold_left]; [rewrite app_nil_r; exact I|].
  replace (P ++ b :: R) with ((P ++ [b]) ++ R) by (rewrite <- app_assoc; reflexivity).
  apply IH; [|rewrite <- app_assoc; exact E].
  pose proof bs_sorted as SS. rewrite E in SS. destruct (ss_split P b R SS) as [S1 S2].
  apply (step2_inv P s b R I); [rewrite E; apply in_or_app; right; left; reflexivity|exact S1|exact S2| |].
  - intros c Hc. rewrite E in Hc. apply in_app_or in Hc. destruct Hc as [Hc|[Hc|Hc]]; [left; exact Hc|right; left; symmetry; exact Hc|right; right; exact Hc].
  - intros p Hp. rewrite E. apply in_or_app. left. exact Hp.
Qed.

(** the first bound is a start, and it is the smallest of all *)
Lemma first_is_start b0 t : bs = b0 :: t -> (bi b0 < n)%nat /\ bs_ b0 = true /\ bx b0 = ts (bi b0) /\ forall c, In c bs -> bx b0 <= bx c.
Proof.
  intros E. pose proof bs_sorted as SS. rewrite E in SS. apply StronglySorted_inv in SS. destruct SS as [_ Hall]. rewrite Forall_forall in Hall.
  assert (Hmin : forall c, In c bs -> bx b0 <= bx c).
  { intros c Hc. rewrite E in Hc. destruct Hc as [<-|Hc]; [lia|]. specialize (Hall c Hc). unfold ble in Hall. lia. }
  destruct b0 as [[x0 i0] st0]. cbn [bi bs_ bx fst snd] in *. destruct st0.
  - assert (H0 : In (x0, i0, true) bs) by (rewrite E; left; reflexivity). apply bs_start in H0. destruct H0 as [A B].
    split; [exact A|]. split; [reflexivity|]. split; [exact B|exact Hmin].
  - exfalso. assert (H0 : In (x0, i0, false) bs) by (rewrite E; left; reflexivity). apply bs_end in H0. destruct H0 as [A B].
    assert (Hs : In (ts i0, i0, true) bs) by (apply bs_start; split; [exact A|reflexivity]).
    specialize (Hmin _ Hs). unfold bx in Hmin. cbn [fst] in Hmin. pose proof (t_nonempty i0 A). lia.
Qed.

Lemma sweep2_cov_gen l : bs = l -> forall t x, covE (sweep2 l) t x <-> covIn t x.
Proof.
  intros E t x. unfold sweep2. destruct l as [|b0 R].
  - split; [intros [e [[] _]]|]. intros [i (A & B & C)]. exfalso.
    assert (In (ts i, i, true) bs) by (apply bs_start; split; [exact A|reflexivity]). rewrite E in H. destruct H.
  - destruct (first_is_start b0 R E) as (F1 & F2 & F3 & F4).
    assert (I0 : Inv2 [b0] {| act := [bi b0]; prev := bx b0; out := [] |}).
    { constructor; cbn [act prev out].
      - intros i. cbn [In]. split.
        + intros [<-|[]]. split; [exact F1|]. split; [left; destruct b0 as [[x0 i0] s0]; cbn [bi bs_ bx fst snd] in *; subst; reflexivity|].
          intros [K|[]]. destruct b0 as [[x0 i0] s0]. cbn [bs_ snd] in F2. inversion K; subst. discriminate.
        + intros (A & [K|[]] & _). left. rewrite K. reflexivity.
      - exists b0. split; [left; reflexivity|reflexivity].
      - intros b [<-|[]]. lia.
      - intros e [].
      - intros t0 x0 Ht. split; [intros [e [[] _]]|]. intros [i (A & B & C)]. exfalso.
        assert (Hs : In (ts i, i, true) bs) by (apply bs_start; split; [exact A|reflexivity]).
        specialize (F4 _ Hs). unfold bx in F4 at 2. cbn [fst] in F4. lia. }
    pose proof (fold_inv R [b0] _ I0 E) as IF. cbn [app] in IF.
    set (sf := fold_left step2 R {| act := [bi b0]; prev := bx b0; out := [] |}) in *.
    destruct (N.lt_ge_cases t (prev sf)) as [Lt|Ge]; [exact (i_out_cov _ _ IF t x Lt)|].
    split.
    + intros [e [He [[K1 K2] _]]]. destruct (i_out_before _ _ IF e He) as (_ & B & _). lia.
    + intros [i (A & B & C)]. exfalso.
      assert (He : In (te i, i, false) (b0 :: R)) by (rewrite <- E; apply bs_end; split; [exact A|reflexivity]).
      pose proof (i_prev_max _ _ IF _ He) as M. unfold bx in M. cbn [fst] in M. lia.
Qed.
Theorem sweep2_cov t x : covE (sweep2 bs) t x <-> covIn t x.
Proof. exact (sweep2_cov_gen bs eq_refl t x). Qed.

(** the emitted entries are non-empty in both dimensions, increasing and disjoint in time *)
Fixpoint tchain (lo : N) (l : list entry) : Prop :=
  match l with
  | [] => True
  | e :: t => lo <= fst (fst e) /\ fst (fst e) < snd (fst e) /\ snd e <> [] /\ Canon (snd e) /\ tchain (snd (fst e)) t
  end.

Lemma tchain_app l1 : forall lo e, tchain lo l1 -> (forall a, In a l1 -> snd (fst a) <= fst (fst e)) -> lo <= fst (fst e) ->
  fst (fst e) < snd (fst e) -> snd e <> [] -> Canon (snd e) -> tchain lo (l1 ++ [e]).
Proof.
  induction l1 as [|a l1 IH]; intros lo e H Hall Hlo H1 H2 H3; cbn [app tchain].
  - repeat split; try assumption.
  - cbn [tchain] in H. destruct H as (A & B & C & D & F). repeat split; try assumption.
    apply IH; try assumption; [intros a' Ha'; apply Hall; right; exact Ha'|apply Hall; left; reflexivity].
Qed.

Lemma step2_tchain P s b : Inv2 P s -> tchain 0 (out s) -> tchain 0 (out (step2 s b)).
Proof.
  intros I H. unfold step2. cbn [out]. destruct ((prev s <? bx b) && negb (isnil (act s))) eqn:Q; [|exact H].
  destruct (isnil (ucov (act s))) eqn:U; [exact H|].
  apply andb_true_iff in Q. destruct Q as [Q1 Q2]. apply N.ltb_lt in Q1.
  apply tchain_app; cbn [fst snd]; try assumption; try lia.
  - intros a Ha. destruct (i_out_before P s I a Ha) as (_ & B & _). exact B.
  - intros E. rewrite E in U. discriminate.
  - apply ucov_canon. exact (act_lt P s I).
Qed.

Lemma fold_tchain : forall R P s, Inv2 P s -> bs = P ++ R -> tchain 0 (out s) -> tchain 0 (out (fold_left step2 R s)).
Proof.
  induction R as [|b R IH]; intros P s I E H; cbn [fold_left]; [exact H|].
  apply (IH (P ++ [b])); [|rewrite <- app_assoc; exact E|exact (step2_tchain P s b I H)].
  pose proof bs_sorted as SS. rewrite E in SS. destruct (ss_split P b R SS) as [S1 S2].
  apply (step2_inv P s b R I); [rewrite E; apply in_or_app; right; left; reflexivity|exact S1|exact S2| |].
  - intros c Hc. rewrite E in Hc. apply in_app_or in Hc. destruct Hc as [Hc|[Hc|Hc]]; [left; exact Hc|right; left; symmetry; exact Hc|right; right; exact Hc].
  - intros p Hp. rewrite E. apply in_or_app. left. exact Hp.
Qed.

Lemma sweep2_tchain_gen l : bs = l -> tchain 0 (sweep2 l).
Proof.
  intros E. unfold sweep2. destruct l as [|b0 R]; [exact I|].
  destruct (first_is_start b0 R E) as (F1 & F2 & F3 & F4).
  assert (I0 : Inv2 [b0] {| act := [bi b0]; prev := bx b0; out := [] |}).
  { constructor; cbn [act prev out].
    - intros i. cbn [In]. split.
      + intros [<-|[]]. split; [exact F1|]. split; [left; destruct b0 as [[x0 i0] s0]; cbn [bi bs_ bx fst snd] in *; subst; reflexivity|].
        intros [K|[]]. destruct b0 as [[x0 i0] s0]. cbn [bs_ snd] in F2. inversion K; subst. discriminate.
      + intros (A & [K|[]] & _). left. rewrite K. reflexivity.
    - exists b0. split; [left; reflexivity|reflexivity].
    - intros b [<-|[]]. lia.
    - intros e [].
    - intros t0 x0 Ht. split; [intros [e [[] _]]|]. intros [i (A & B & C)]. exfalso.
      assert (Hs : In (ts i, i, true) bs) by (apply bs_start; split; [exact A|reflexivity]).
      specialize (F4 _ Hs). unfold bx in F4 at 2. cbn [fst] in F4. lia. }
  apply (fold_tchain R [b0] _ I0 E). exact I.
Qed.
Theorem sweep2_tchain : tchain 0 (sweep2 bs).
Proof. exact (sweep2_tchain_gen bs eq_refl). Qed.
End Sweep.

(** ---------- compress: fuse touching entries with equal coverages ---------- *)
Fixpoint compress_s (pt : range) (ps : list range) (l : list entry) : list entry :=
  match l with
  | [] => [(pt, ps)]
  | (ct, cs) :: t =>
      if (fst ct =? snd pt) && ranges_eqb cs ps then compress_s (fst pt, snd ct) ps t
      else (pt, ps) :: compress_s ct cs t
      (* cur.start < prev.end is unreachable!() in the code: excluded below by [tchain] *)
  end.
Definition compress (l : list entry) : list entry :=
  match l with [] => [] | (t0, s0) :: t => compress_s t0 s0 t end.

(** no two touching entries carry the same coverage *)
Fixpoint nofuse (l : list entry) : Prop :=
  match l with
  | a :: ((b :: _) as t) => ~ (fst (fst b) = snd (fst a) /\ snd b = snd a) /\ nofuse t
  | _ => True
  end.

Lemma compress_s_spec : forall l pt ps, fst pt < snd pt -> ps <> [] -> Canon ps -> tchain (snd pt) l ->
  let r := compress_s pt ps l in
  (forall t x, covE r t x <-> (inr pt t /\ cov ps x) \/ covE l t x) /\
  tchain (fst pt) r /\ nofuse r /\
  (exists e', hd_error r = Some ((fst pt, e'), ps)).
Proof.
  induction l as [|[ct cs] l IH]; intros pt ps Hp Hne Hc Hl; cbn [compress_s].
  - split; [|split; [|split]].
    + intros t x. unfold covE. split.
      * intros [e [[<-|[]] [A B]]]. left. split; assumption.
      * intros [[A B]|[e [[] _]]]. exists (pt, ps). split; [left; reflexivity|split; assumption].
    + cbn [tchain fst snd]. repeat split; try assumption; lia.
    + exact I.
    + exists (snd pt). destruct pt. reflexivity.
  - cbn [tchain fst snd] in Hl. destruct Hl as (L1 & L2 & L3 & L4 & L5).
    destruct ((fst ct =? snd pt) && ranges_eqb cs ps) eqn:Q.
    + (* fuse *)
      apply andb_true_iff in Q. destruct Q as [Q1 Q2]. apply N.eqb_eq in Q1. apply ranges_eqb_spec in Q2. subst cs.
      destruct (IH (fst pt, snd ct) ps ltac:(cbn [fst snd]; lia) Hne Hc L5) as (C & T & NF & Hd). cbn [fst snd] in *.
      split; [|split; [exact T|split; [exact NF|exact Hd]]].
      intros t x. rewrite C. unfold covE at 2. unfold inr. cbn [fst snd]. split.
      * intros [[A B]|K].
        -- destruct (N.lt_ge_cases t (snd pt)); [left; split; [lia|exact B]|].
           right. exists (ct, ps). split; [left; reflexivity|]. unfold inr. cbn [fst snd]. split; [lia|exact B].
        -- destruct K as [e [He K]]. right. exists e. split; [right; exact He|exact K].
      * intros [[A B]|[e [[<-|He] [[A1 A2] B]]]]; cbn [fst snd] in *.
        -- left. split; [lia|exact B].
        -- left. split; [lia|exact B].
        -- right. exists e. split; [exact He|split; [split; assumption|exact B]].
    + (* keep *)
      destruct (IH ct cs L2 L3 L4 L5) as (C & T & NF & [e' Hd]).
      split; [|split; [|split]].
      * intros t x. unfold covE at 1. split.
        -- intros [e [[<-|He] K]]; [left; exact K|].
           assert (K' : covE (compress_s ct cs l) t x) by (exists e; split; assumption). apply C in K'.
           right. destruct K' as [[A B]|[e2 [He2 K2]]]; [exists (ct, cs); split; [left; reflexivity|split; assumption]|exists e2; split; [right; exact He2|exact K2]].
        -- intros [[A B]|[e [[<-|He] K]]].
           ++ exists (pt, ps). split; [left; reflexivity|split; assumption].
           ++ assert (K' : covE (compress_s ct cs l) t x) by (apply C; left; exact K). destruct K' as [e2 [He2 K2]]. exists e2. split; [right; exact He2|exact K2].
           ++ assert (K' : covE (compress_s ct cs l) t x) by (apply C; right; exists e; split; assumption). destruct K' as [e2 [He2 K2]]. exists e2. split; [right; exact He2|exact K2].
      * cbn [tchain fst snd]. repeat split; try assumption; try lia.
        (* the tail starts at fst ct >= snd pt *)
        destruct (compress_s ct cs l) as [|h tl]; [exact I|]. cbn [tchain] in T |- *. destruct T as (T1 & T2 & T3 & T4 & T5).
        repeat split; try assumption. lia.
      * destruct (compress_s ct cs l) as [|h tl] eqn:E; [exact I|]. cbn [nofuse]. split; [|exact NF].
        cbn [hd_error] in Hd. inversion Hd; subst h. cbn [fst snd]. intros [A B]. subst cs.
        assert ((fst ct =? snd pt) && ranges_eqb ps ps = true); [|congruence].
        apply andb_true_iff. split; [apply N.eqb_eq; exact A|apply ranges_eqb_spec; reflexivity].
      * exists (snd pt). destruct pt. reflexivity.
Qed.

Theorem compress_spec l : tchain 0 l ->
  (forall t x, covE (compress l) t x <-> covE l t x) /\ tchain 0 (compress l) /\ nofuse (compress l).
Proof.
  destruct l as [|[t0 s0] l]; intros H; [split; [intros; reflexivity|split; exact I]|].
  cbn [tchain fst snd] in H. destruct H as (H1 & H2 & H3 & H4 & H5). cbn [compress].
  destruct (compress_s_spec l t0 s0 H2 H3 H4 H5) as (C & T & NF & _). split; [|split; [|exact NF]].
  - intros t x. rewrite C. unfold covE at 2. split.
    + intros [K|[e [He K]]]; [exists (t0, s0); split; [left; reflexivity|exact K]|exists e; split; [right; exact He|exact K]].
    + intros [e [[<-|He] K]]; [left; exact K|right; exists e; split; assumption].
  - destruct (compress_s t0 s0 l) as [|h tl]; [exact I|]. cbn [tchain] in T |- *. destruct T as (T1 & T2 & T3 & T4 & T5). repeat split; try assumption. lia.
Qed.

(** ---------- the whole construction ---------- *)
Definition make_consistent (ucov : list nat -> list range) (bs : list bound) : list entry := compress (sweep2 ucov bs).

Theorem make_consistent_spec n ts te ys ucov bs :
  (forall i, (i < n)%nat -> ts i < te i) ->
  (forall a, (forall i, In i a -> (i < n)%nat) -> Canon (ucov a)) ->
  (forall a x, (forall i, In i a -> (i < n)%nat) -> (cov (ucov a) x <-> exists i, In i a /\ cov (ys i) x)) ->
  StronglySorted ble bs ->
  (forall x i, In (x, i, true) bs <-> ((i < n)%nat /\ x = ts i)) ->
  (forall x i, In (x, i, false) bs <-> ((i < n)%nat /\ x = te i)) ->
  (forall t x, covE (make_consistent ucov bs) t x <-> covIn n ts te ys t x) /\
  tchain 0 (make_consistent ucov bs) /\ nofuse (make_consistent ucov bs).
Proof.
  intros H1 H2 H3 H4 H5 H6. unfold make_consistent.
  pose proof (sweep2_tchain n ts te ys H1 ucov H2 H3 bs H4 H5 H6) as T.
  destruct (compress_spec _ T) as (C & T' & NF). split; [|split; assumption].
  intros t x. rewrite C. apply (sweep2_cov n ts te ys H1 ucov H2 H3 bs H4 H5 H6).
Qed.

(** ---------- instantiated on a list of input entries ---------- *)
Definition dflt : entry := ((0, 0), []).
Definition bounds_of (es : list entry) : list bound :=
  flat_map (fun ie : nat * entry => [(fst (fst (snd ie)), fst ie, true); (snd (fst (snd ie)), fst ie, false)])
           (combine (seq 0 (length es)) es).

Lemma in_combine_seq (es : list entry) i e : In (i, e) (combine (seq 0 (length es)) es) <-> ((i < length es)%nat /\ e = nth i es dflt).
Proof.
  assert (G : forall (l : list entry) k i e, In (i, e) (combine (seq k (length l)) l) <-> ((k <= i < k + length l)%nat /\ e = nth (i - k) l dflt)).
  { induction l as [|a l IH]; intros k j e0; cbn [length seq combine].
    - split; [intros []|intros [H _]; lia].
    - cbn [In]. rewrite (IH (S k) j e0). split.
      + intros [K|(A & B)]; [inversion K; subst; split; [lia|rewrite Nat.sub_diag; reflexivity]|].
        split; [lia|]. replace (j - k)%nat with (S (j - S k)) by lia. exact B.
      + intros (A & B). destruct (Nat.eq_dec j k) as [->|Hd]; [left; rewrite Nat.sub_diag in B; cbn in B; rewrite B; reflexivity|].
        right. split; [lia|]. replace (j - k)%nat with (S (j - S k)) in B by lia. exact B. }
  rewrite (G es 0%nat i e). rewrite Nat.sub_0_r. split; intros [A B]; (split; [lia|exact B]).
Qed.

Lemma in_bounds_of es x i st : In (x, i, st) (bounds_of es) <->
  ((i < length es)%nat /\ x = if st then fst (fst (nth i es dflt)) else snd (fst (nth i es dflt))).
Proof.
  unfold bounds_of. rewrite in_flat_map. split.
  - intros [[j e] [Hin H]]. apply in_combine_seq in Hin. destruct Hin as [A ->]. cbn [fst snd In] in H.
    destruct H as [K|[K|[]]]; inversion K; subst; split; try assumption; reflexivity.
  - intros [A B]. exists (i, nth i es dflt). split; [apply in_combine_seq; split; [exact A|reflexivity]|].
    cbn [fst snd In]. destruct st; subst x; [left|right; left]; reflexivity.
Qed.

(** the union of the open coverages, reduced in list order *)
Definition ucov_ref (es : list entry) (a : list nat) : list range :=
  fold_right (fun i acc => union acc (snd (nth i es dflt))) [] a.

Section Entries.
Variable sortb : list bound -> list bound.
Hypothesis sortb_in : forall l b, In b (sortb l) <-> In b l.
Hypothesis sortb_sorted : forall l, StronglySorted ble (sortb l).

Theorem make_consistent_entries (es : list entry) :
  (forall e, In e es -> fst (fst e) < snd (fst e) /\ Canon (snd e)) ->
  let r := make_consistent (ucov_ref es) (sortb (bounds_of es)) in
  (forall t x, covE r t x <-> exists e, In e es /\ inr (fst e) t /\ cov (snd e) x) /\
  tchain 0 r /\ nofuse r.
Proof.
  intros Hes r.
  set (n := length es). set (ts := fun i => fst (fst (nth i es dflt))). set (te := fun i => snd (fst (nth i es dflt))).
  set (ys := fun i => snd (nth i es dflt)).
  assert (Hn : forall i, (i < n)%nat -> In (nth i es dflt) es) by (intros i Hi; apply nth_In; exact Hi).
  assert (H1 : forall i, (i < n)%nat -> ts i < te i) by (intros i Hi; exact (proj1 (Hes _ (Hn i Hi)))).
  assert (HC : forall i, (i < n)%nat -> Canon (ys i)) by (intros i Hi; exact (proj2 (Hes _ (Hn i Hi)))).
  assert (H23 : forall a, (forall i, In i a -> (i < n)%nat) ->
            Canon (ucov_ref es a) /\ forall x, cov (ucov_ref es a) x <-> exists i, In i a /\ cov (ys i) x).
  { induction a as [|j a IH]; intros Ha; cbn [ucov_ref fold_right].
    - split; [exact I|]. intros x. split; [intros H; destruct (cov_nil _ H)|intros [i [[] _]]].
    - destruct (IH (fun i Hi => Ha i (or_intror Hi))) as [C1 C2]. fold (ucov_ref es a).
      pose proof (HC j (Ha j (or_introl eq_refl))) as Cj. fold (ys j).
      split; [apply union_canon; [apply canon_nonempty; exact Cj|exact C1]|].
      intros x. rewrite (union_cov (ys j) (ucov_ref es a) x (canon_nonempty _ Cj)), C2. split.
      + intros [[i [Hi K]]|K]; [exists i; split; [right; exact Hi|exact K]|exists j; split; [left; reflexivity|exact K]].
      + intros [i [[<-|Hi] K]]; [right; exact K|left; exists i; split; assumption]. }
  destruct (make_consistent_spec n ts te ys (ucov_ref es) (sortb (bounds_of es)) H1
              (fun a Ha => proj1 (H23 a Ha)) (fun a x Ha => proj2 (H23 a Ha) x) (sortb_sorted _)) as (C & T & NF).
  - intros x i. rewrite sortb_in, in_bounds_of. reflexivity.
  - intros x i. rewrite sortb_in, in_bounds_of. reflexivity.
  - split; [|split; assumption]. intros t x. unfold r. rewrite C. unfold covIn. split.
    + intros [i (A & B & D)]. exists (nth i es dflt). split; [exact (Hn i A)|]. split; [exact B|exact D].
    + intros [e (A & B & D)]. apply In_nth with (d := dflt) in A. destruct A as [i [Hi <-]]. exists i. split; [exact Hi|split; [exact B|exact D]].
Qed.
End Entries.

(** the scenario of defect D30: an entry with an empty coverage leaves no entry behind, and touching
    entries with equal coverages are fused *)
Example make_consistent_example :
  let es : list entry := [((10, 20), [(5, 6)]); ((30, 40), []); ((50, 60), [(9, 10)]); ((20, 25), [(5, 6)])] in
  let bs : list bound := [(10, 0%nat, true); (20, 0%nat, false); (20, 3%nat, true); (25, 3%nat, false); (30, 1%nat, true); (40, 1%nat, false); (50, 2%nat, true); (60, 2%nat, false)] in
  make_consistent (ucov_ref es) bs = [((10, 25), [(5, 6)]); ((50, 60), [(9, 10)])] /\
  (forall b, In b bs <-> In b (bounds_of es)).
Proof.
  split; [vm_compute; reflexivity|]. intros b. cbn. intuition congruence.
Qed.

(** ---------- an executable instance of the sort (insertion sort on the key (x, end < start)) ---------- *)
Definition bleb (a b : bound) : bool := (bx a <? bx b) || ((bx a =? bx b) && (negb (bs_ a) || bs_ b)).
Lemma bleb_spec a b : bleb a b = true <-> ble a b.
Proof.
  unfold bleb, ble. rewrite orb_true_iff, andb_true_iff, orb_true_iff, N.ltb_lt, N.eqb_eq, negb_true_iff. reflexivity.
Qed.
Lemma ble_trans a b c : ble a b -> ble b c -> ble a c.
Proof. unfold ble. intros [H1|[H1 H1']] [H2|[H2 H2']]; try (left; lia). right. split; [lia|]. destruct H1', H2'; try tauto; destruct (bs_ b); try discriminate; tauto. Qed.
Lemma ble_total a b : bleb a b = false -> ble b a.
Proof.
  unfold bleb, ble. rewrite orb_false_iff, andb_false_iff, orb_false_iff, N.ltb_ge, N.eqb_neq, negb_false_iff.
  intros [H1 [H2|[H2 H3]]]; [left; lia|]. destruct (N.eq_dec (bx a) (bx b)) as [E|E]; [right; split; [lia|left; exact H3]|left; lia].
Qed.

Fixpoint insb (b : bound) (l : list bound) : list bound :=
  match l with [] => [b] | a :: t => if bleb b a then b :: a :: t else a :: insb b t end.
Definition isort (l : list bound) : list bound := fold_right insb [] l.

Lemma insb_in b l c : In c (insb b l) <-> c = b \/ In c l.
Proof.
  induction l as [|a t IH]; cbn [insb In]; [intuition|]. destruct (bleb b a); cbn [In]; [intuition|]. rewrite IH. intuition.
Qed.
Lemma isort_in l b : In b (isort l) <-> In b l.
Proof. induction l as [|a t IH]; cbn [isort fold_right In]; [reflexivity|]. fold (isort t). rewrite insb_in, IH. intuition. Qed.

Lemma insb_sorted b l : StronglySorted ble l -> StronglySorted ble (insb b l).
Proof.
  induction l as [|a t IH]; intros H; cbn [insb]; [constructor; [constructor|constructor]|].
  apply StronglySorted_inv in H. destruct H as [Hs Hall]. destruct (bleb b a) eqn:E.
  - apply bleb_spec in E. constructor; [constructor; assumption|]. constructor; [exact E|].
    rewrite Forall_forall in *. intros c Hc. apply (ble_trans b a c E). exact (Hall c Hc).
  - apply ble_total in E. constructor; [exact (IH Hs)|]. rewrite Forall_forall in *. intros c Hc. apply insb_in in Hc.
    destruct Hc as [->|Hc]; [exact E|exact (Hall c Hc)].
Qed.
Lemma isort_sorted l : StronglySorted ble (isort l).
Proof. induction l as [|a t IH]; cbn [isort fold_right]; [constructor|]. apply insb_sorted. exact IH. Qed.

(** the executable construction, and its correctness as a corollary *)
Definition r2d_build (es : list entry) : list entry := make_consistent (ucov_ref es) (isort (bounds_of es)).

Theorem r2d_build_spec es : (forall e, In e es -> fst (fst e) < snd (fst e) /\ Canon (snd e)) ->
  (forall t x, covE (r2d_build es) t x <-> exists e, In e es /\ inr (fst e) t /\ cov (snd e) x) /\
  tchain 0 (r2d_build es) /\ nofuse (r2d_build es).
Proof. intros H. exact (make_consistent_entries isort isort_in isort_sorted es H). Qed.

Example r2d_build_example :
  r2d_build [((10, 20), [(5, 6)]); ((30, 40), []); ((50, 60), [(9, 10)]); ((20, 25), [(5, 6)]); ((15, 55), [(0, 1)])]
  = [((10, 15), [(5, 6)]); ((15, 25), [(0, 1); (5, 6)]); ((25, 50), [(0, 1)]); ((50, 55), [(0, 1); (9, 10)]); ((55, 60), [(9, 10)])].
Proof. vm_compute. reflexivity. Qed.
