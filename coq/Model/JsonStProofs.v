(** Model/JsonStProofs.v — the 2-D JSON document (cellmoc2d_to_json_aladin / cellmoc2d_from_json_aladin):
    st_from_json (st_to_json p1 p2 d1 d2 fold l) = J2Ok d1 d2 (the elements, each side sorted by the reader)
    for every list of elements with non-empty, well-formed, pairwise disjoint cells on both sides. *)
From Coq Require Import List NArith Arith Lia Bool Permutation.
From MOC.Base Require Import RangeSet.
From MOC.Model Require Import Qty Query Build Repr AsciiCodec AsciiProofs JsonCodec JsonProofs.
Import ListNotations.
Open Scope N_scope.

(** ---------- nesting of the tokens of any tree ---------- *)
Definition list_max (l : list N) : N := fold_right N.max 0 l.

Fixpoint hgt (v : jv) : N :=
  match v with
  | VNum _ | VStr _ => 0
  | VArr l => 1 + list_max (map hgt l)
  | VObj l => 1 + list_max (map (fun kv => hgt (snd kv)) l)
  end.

Definition Pn (v : jv) : Prop := forall c m, c <= m ->
  fst (fold_left nest_step (toks v) (c, m)) = c /\
  m <= snd (fold_left nest_step (toks v) (c, m)) /\
  snd (fold_left nest_step (toks v) (c, m)) <= N.max m (c + hgt v).

Lemma nest_list {A} (f : A -> list jtok) (h : A -> N) : forall l : list A,
  Forall (fun x => forall c m, c <= m ->
            fst (fold_left nest_step (f x) (c, m)) = c /\ m <= snd (fold_left nest_step (f x) (c, m)) /\
            snd (fold_left nest_step (f x) (c, m)) <= N.max m (c + h x)) l ->
  forall c m, c <= m ->
  fst (fold_left nest_step (sep_toks (map f l)) (c, m)) = c /\
  m <= snd (fold_left nest_step (sep_toks (map f l)) (c, m)) /\
  snd (fold_left nest_step (sep_toks (map f l)) (c, m)) <= N.max m (c + list_max (map h l)).
Proof.
  induction l as [|x t IH]; intros HF c m Hcm.
  - cbn. lia.
  - inversion HF as [|? ? Hx Ht]; subst. cbn [map]. rewrite sep_toks_cons, fold_left_app.
    destruct (Hx c m Hcm) as [A1 [A2 A3]].
    destruct (fold_left nest_step (f x) (c, m)) as [c1 m1] eqn:E1. cbn [fst snd] in A1, A2, A3. subst c1.
    cbn [list_max fold_right]. fold (list_max (map h t)).
    destruct t as [|y t'].
    + cbn [map after_first fold_left fst snd list_max fold_right]. lia.
    + change (after_first (map f (y :: t'))) with (JCom :: sep_toks (map f (y :: t'))).
      cbn [fold_left nest_step].
      destruct (IH Ht c m1 ltac:(lia)) as [B1 [B2 B3]]. lia.
Qed.

Theorem nest_toks : forall v, Pn v.
Proof.
  apply jv_ind2; unfold Pn.
  - intros n c m H. cbn. lia.
  - intros s c m H. cbn. lia.
  - intros l HF c m H. cbn [toks hgt fold_left nest_step fst snd]. rewrite fold_left_app.
    destruct (nest_list toks hgt l HF (c + 1) (N.max m (c + 1)) ltac:(lia)) as [A1 [A2 A3]].
    destruct (fold_left nest_step (sep_toks (map toks l)) (c + 1, N.max m (c + 1))) as [c1 m1].
    cbn [fst snd fold_left nest_step] in *. lia.
  - intros l HF c m H. cbn [toks hgt fold_left nest_step fst snd]. rewrite fold_left_app.
    assert (HF' : Forall (fun kv => forall c m, c <= m ->
              fst (fold_left nest_step (JStr (fst kv) :: JCol :: toks (snd kv)) (c, m)) = c /\
              m <= snd (fold_left nest_step (JStr (fst kv) :: JCol :: toks (snd kv)) (c, m)) /\
              snd (fold_left nest_step (JStr (fst kv) :: JCol :: toks (snd kv)) (c, m)) <= N.max m (c + hgt (snd kv))) l).
    { eapply Forall_impl; [|exact HF]. intros kv Hkv c0 m0 H0. cbn [fold_left nest_step]. exact (Hkv c0 m0 H0). }
    pose proof (nest_list (fun kv : list N * jv => JStr (fst kv) :: JCol :: toks (snd kv)) (fun kv => hgt (snd kv)) l HF' (c + 1) (N.max m (c + 1)) ltac:(lia)) as [A1 [A2 A3]].
    destruct (fold_left nest_step _ (c + 1, N.max m (c + 1))) as [c1 m1].
    cbn [fst snd fold_left nest_step] in *. lia.
Qed.

Corollary max_nest_hgt v : max_nest (toks v) <= hgt v.
Proof. destruct (nest_toks v 0 0 (N.le_refl _)) as [_ [_ H]]. unfold max_nest. lia. Qed.

Lemma list_max_le l B : Forall (fun x => x <= B) l -> list_max l <= B.
Proof. induction 1 as [|x l Hx _ IH]; cbn [list_max fold_right]; [lia|]. fold (list_max l). lia. Qed.

Lemma hgt_entries ents : Forall arr_of_nums ents -> hgt (VObj ents) <= 2.
Proof.
  intros H. cbn [hgt].
  assert (list_max (map (fun kv : list N * jv => hgt (snd kv)) ents) <= 1); [|lia].
  apply list_max_le. rewrite Forall_map. eapply Forall_impl; [|exact H].
  intros kv [nums E]. cbn beta. rewrite E. cbn [hgt].
  assert (list_max (map hgt (map VNum nums)) <= 0); [|lia].
  apply list_max_le. rewrite !Forall_map. apply Forall_forall. intros x _. cbn. lia.
Qed.

Lemma after_first_ne (l : list (list jtok)) : l <> [] -> after_first l = JCom :: sep_toks l.
Proof. destruct l; [congruence|reflexivity]. Qed.

Lemma sep_snoc : forall (A : list jv) x, sep_toks (map toks (A ++ [x])) = flat_map (fun a => toks a ++ [JCom]) A ++ toks x.
Proof.
  induction A as [|a A IH]; intros x.
  - cbn [app map sep_toks flat_map]. reflexivity.
  - cbn [app map flat_map]. rewrite sep_toks_cons.
    rewrite after_first_ne; [rewrite IH, <- !app_assoc; reflexivity|].
    rewrite map_app. intros Z. apply app_eq_nil in Z. destruct Z as [_ Z]. discriminate.
Qed.

Lemma JWF_app_rb a b : JWF (a ++ [JTk JRB]) -> JWF b -> JWF ((a ++ [JTk JRB]) ++ b).
Proof. intros Ha Hb. apply JWF_app; [exact Ha|exact Hb|]. intros _. rewrite last_last. exact I. Qed.

Lemma jentries_nil d : jentries d [] (anseq 0 (S (N.to_nat d))) = [(adec d, VArr [])].
Proof.
  replace (S (N.to_nat d)) with (N.to_nat d + 1)%nat by lia.
  rewrite anseq_app. unfold jentries. rewrite flat_map_app.
  rewrite (flat_map_nil _ (anseq 0 (N.to_nat d))).
  - cbn [anseq flat_map app]. unfold jentry, present, selc. cbn [filter negb orb].
    replace (0 + N.of_nat (N.to_nat d)) with d by lia. rewrite N.eqb_refl. reflexivity.
  - intros x Hx. apply nseq_in in Hx. unfold jentry, present, selc. cbn [filter negb orb].
    destruct (N.eqb_spec x d); [lia|reflexivity].
Qed.

Lemma regroup_nil d : regroup d [] = [].
Proof. unfold regroup. apply flat_map_nil. intros x _. reflexivity. Qed.

Section JSt.
  Variable sortf : qty -> list aelem -> list aelem.
  Hypothesis sortf_perm : forall q l, Permutation (sortf q l) l.
  Variables (q1 : qty) (w1 : N) (q2 : qty) (w2 : N) (p1 p2 d1 d2 : N) (fold : option N).
  Hypothesis Hw1 : okw w1.
  Hypothesis Hw2 : okw w2.
  Hypothesis Hd1 : d1 <= max_depth q1 w1.
  Hypothesis Hd2 : d2 <= max_depth q2 w2.
  Hypothesis Hp12 : p1 <> p2.
  Hypothesis Hp1 : str_ok [p1].
  Hypothesis Hp2 : str_ok [p2].

  Definition ents_of (dc : N * list cell) := jentries (fst dc) (snd dc) (anseq 0 (S (N.to_nat (fst dc)))).
  Definition etree (e : st_cells_l) : jv := VObj [([p1], VObj (ents_of (fst e))); ([p2], VObj (ents_of (snd e)))].
  Definition lasttree : jv := VObj [([p1], VObj [(adec d1, VArr [])]); ([p2], VObj [(adec d2, VArr [])])].
  Definition doctree (l : list st_cells_l) : jv := VArr (map etree l ++ [lasttree]).

  Definition elem_ok2 (e : st_cells_l) : Prop :=
    fst (fst e) <= d1 /\ fst (snd e) <= d2 /\ snd (fst e) <> [] /\ snd (snd e) <> [] /\
    Forall (elem_wf q1 (fst (fst e))) (map of_cell (snd (fst e))) /\ Disj q1 w1 (map of_cell (snd (fst e))) /\
    Forall (elem_wf q2 (fst (snd e))) (map of_cell (snd (snd e))) /\ Disj q2 w2 (map of_cell (snd (snd e))).

  Lemma ws2 : allws [32; 32].
  Proof. repeat constructor. Qed.

  Lemma elem_shape e : elem_ok2 e ->
    exists L, st_json_elem_l p1 p2 fold e = jrender L /\ JWF L /\ jtoks_of L = toks (etree e) /\
              exists L', L = L' ++ [JTk JRB].
  Proof.
    intros (Le1 & Le2 & _ & _ & W1 & _ & W2 & _).
    destruct (cells_small q1 w1 (fst (fst e)) (snd (fst e)) Hw1 ltac:(lia) W1) as [S1 D1].
    destruct (cells_small q2 w2 (fst (snd e)) (snd (snd e)) Hw2 ltac:(lia) W2) as [S2 D2].
    destruct (to_json_shape fold [32; 32] ws2 (fst (fst e)) (snd (fst e)) S1 D1) as [L1 [A1 [A2 [A3 [L1' A4]]]]].
    destruct (to_json_shape fold [32; 32] ws2 (fst (snd e)) (snd (snd e)) S2 D2) as [L2 [B1 [B2 [B3 [L2' B4]]]]].
    exists ([JTk JLB; JWs [10; 32; 32]; JTk (JStr [p1]); JTk JCol; JWs [32]] ++ L1 ++
            [JTk JCom; JWs [10; 32; 32]; JTk (JStr [p2]); JTk JCol; JWs [32]] ++ L2 ++ [JWs [10]; JTk JRB]).
    split; [|split; [|split]].
    - unfold st_json_elem_l. rewrite A1, B1, !jrender_app. cbn [jrender flat_map jcstr tstr app]. rewrite <- ?app_assoc. reflexivity.
    - cbn [app]. constructor; [reflexivity|]. constructor; [repeat constructor|]. apply JWF_str; [exact Hp1|].
      constructor; [reflexivity|]. constructor; [repeat constructor|].
      subst L1. apply JWF_app_rb; [exact A2|].
      cbn [app]. constructor; [reflexivity|]. constructor; [repeat constructor|]. apply JWF_str; [exact Hp2|].
      constructor; [reflexivity|]. constructor; [repeat constructor|].
      subst L2. apply JWF_app_rb; [exact B2|].
      constructor; [repeat constructor|]. constructor; [reflexivity|constructor].
    - rewrite !jtoks_of_app, A3, B3. cbn [jtoks_of etree toks map sep_toks app fst snd]. rewrite <- ?app_assoc. cbn [app].
      rewrite <- ?app_assoc. reflexivity.
    - exists ([JTk JLB; JWs [10; 32; 32]; JTk (JStr [p1]); JTk JCol; JWs [32]] ++ L1 ++
              [JTk JCom; JWs [10; 32; 32]; JTk (JStr [p2]); JTk JCol; JWs [32]] ++ L2 ++ [JWs [10]]).
      rewrite <- !app_assoc. reflexivity.
  Qed.

  Definition last_chunks : list jchunk :=
    [JTk JLB; JWs [32]; JTk (JStr [p1]); JTk JCol; JWs [32]; JTk JLB; JWs [32]; JTk (JStr (adec d1)); JTk JCol; JWs [32];
     JTk JLK; JTk JRK; JWs [32]; JTk JRB; JTk JCom; JWs [32]; JTk (JStr [p2]); JTk JCol; JWs [32]; JTk JLB; JWs [32];
     JTk (JStr (adec d2)); JTk JCol; JWs [32]; JTk JLK; JTk JRK; JWs [32]; JTk JRB; JWs [32]; JTk JRB].

  Lemma d1_64 : d1 < 2 ^ 64.
  Proof. pose proof (max_depth_255 q1 w1 Hw1). eapply N.le_lt_trans; [exact Hd1|]. eapply N.le_lt_trans; [eassumption|]. vm_compute. reflexivity. Qed.
  Lemma d2_64 : d2 < 2 ^ 64.
  Proof. pose proof (max_depth_255 q2 w2 Hw2). eapply N.le_lt_trans; [exact Hd2|]. eapply N.le_lt_trans; [eassumption|]. vm_compute. reflexivity. Qed.

  Lemma last_shape tail : JWF tail ->
    st_json_last p1 p2 d1 d2 = jrender last_chunks /\ JWF (last_chunks ++ tail) /\ jtoks_of last_chunks = toks lasttree.
  Proof.
    intros Ht. split; [|split].
    - unfold st_json_last, last_chunks. cbn [jrender flat_map jcstr tstr app]. rewrite <- ?app_assoc. cbn [app]. rewrite <- ?app_assoc. reflexivity.
    - pose proof (digits_str_ok _ (proj1 (proj2 (dec_spec d1 d1_64)))) as S1.
      pose proof (digits_str_ok _ (proj1 (proj2 (dec_spec d2 d2_64)))) as S2.
      unfold last_chunks. cbn [app].
      repeat (first [ apply JWF_str; [first [exact Hp1|exact Hp2|exact S1|exact S2]|]
                    | apply JWF_ws; [repeat constructor|]
                    | apply JWF_punct; [reflexivity|] ]).
      exact Ht.
    - reflexivity.
  Qed.

  Lemma go_false l : st_json_go_l p1 p2 fold false l = [44; 10] ++ flat_map (fun e => st_json_elem_l p1 p2 fold e ++ [44; 10]) l.
  Proof.
    induction l as [|e t IH]; [reflexivity|].
    cbn [st_json_go_l flat_map]. rewrite IH, <- !app_assoc. reflexivity.
  Qed.
  Lemma go_true l : st_json_go_l p1 p2 fold true l = flat_map (fun e => st_json_elem_l p1 p2 fold e ++ [44; 10]) l.
  Proof. destruct l as [|e t]; [reflexivity|]. cbn [st_json_go_l flat_map app]. rewrite go_false, <- !app_assoc. reflexivity. Qed.

  Lemma elems_shape l : Forall elem_ok2 l ->
    exists D, flat_map (fun e => st_json_elem_l p1 p2 fold e ++ [44; 10]) l = jrender D /\
              (forall tail, JWF tail -> JWF (D ++ tail)) /\
              jtoks_of D = flat_map (fun a => toks a ++ [JCom]) (map etree l).
  Proof.
    induction 1 as [|e t He _ IH].
    - exists []. repeat split. intros tail Ht. exact Ht.
    - destruct IH as [D [E1 [E2 E3]]]. destruct (elem_shape e He) as [L [A1 [A2 [A3 [L' A4]]]]].
      exists (L ++ [JTk JCom; JWs [10]] ++ D). split; [|split].
      + cbn [flat_map]. rewrite A1, E1, !jrender_app. cbn [jrender flat_map jcstr tstr app]. rewrite <- ?app_assoc. reflexivity.
      + intros tail Ht. rewrite <- !app_assoc. subst L. apply JWF_app_rb; [exact A2|].
        cbn [app]. constructor; [reflexivity|]. constructor; [repeat constructor|]. apply E2. exact Ht.
      + rewrite !jtoks_of_app, A3, E3. cbn [map flat_map jtoks_of app]. rewrite <- ?app_assoc. reflexivity.
  Qed.

  Theorem st_json_parse l : Forall elem_ok2 l ->
    jparse (st_to_json_l p1 p2 d1 d2 fold l) = JVal (doctree l).
  Proof.
    intros Hl. destruct (elems_shape l Hl) as [D [E1 [E2 E3]]].
    assert (Htail : JWF [JWs [10]; JTk JRK; JWs [10]]).
    { constructor; [repeat constructor|]. constructor; [reflexivity|]. constructor; [repeat constructor|constructor]. }
    destruct (last_shape _ Htail) as [F1 [F2 F3]].
    set (doc := [JTk JLK; JWs [10]] ++ D ++ last_chunks ++ [JWs [10]; JTk JRK; JWs [10]]).
    assert (R : st_to_json_l p1 p2 d1 d2 fold l = jrender doc).
    { unfold st_to_json_l, doc. rewrite go_true, E1, F1, !jrender_app. cbn [jrender flat_map jcstr tstr app].
      rewrite <- ?app_assoc. reflexivity. }
    assert (W : JWF doc).
    { unfold doc. cbn [app]. constructor; [reflexivity|]. constructor; [repeat constructor|]. apply E2. exact F2. }
    assert (T : jtoks_of doc = toks (doctree l)).
    { unfold doc. rewrite !jtoks_of_app, E3, F3. cbn [jtoks_of app]. unfold doctree. cbn [toks].
      rewrite sep_snoc, <- !app_assoc. reflexivity. }
    unfold jparse. rewrite R, (jlex_render doc W []). cbn [app]. rewrite T.
    assert (Hh : hgt (doctree l) <= 4).
    { unfold doctree. cbn [hgt].
      assert (list_max (map hgt (map etree l ++ [lasttree])) <= 3); [|lia].
      apply list_max_le. rewrite Forall_map. apply Forall_app. split.
      - rewrite Forall_map. apply Forall_forall. intros e _. unfold etree. cbn [hgt map snd list_max fold_right].
        pose proof (hgt_entries (ents_of (fst e)) (jentries_arr _ _ _)). pose proof (hgt_entries (ents_of (snd e)) (jentries_arr _ _ _)).
        cbn [hgt] in *. lia.
      - constructor; [|constructor]. vm_compute. discriminate. }
    pose proof (max_nest_hgt (doctree l)) as Hn.
    destruct (N.ltb_spec 100 (max_nest (toks (doctree l)))); [lia|].
    rewrite prun_tree. reflexivity.
  Qed.

  Definition decoded (e : st_cells_l) : st_elem :=
    (sortf q1 (regroup (fst (fst e)) (map of_cell (snd (fst e)))), sortf q2 (regroup (fst (snd e)) (map of_cell (snd (snd e))))).

  Lemma lookup_p1 a b : jlookup [p1] [([p1], a); ([p2], b)] = Some a.
  Proof.
    cbn [jlookup list_eqb]. destruct (N.eqb_spec p1 p2); [congruence|]. cbn [andb]. rewrite N.eqb_refl. reflexivity.
  Qed.
  Lemma lookup_p2 a b : jlookup [p2] [([p1], a); ([p2], b)] = Some b.
  Proof. cbn [jlookup list_eqb]. rewrite N.eqb_refl. reflexivity. Qed.

  Lemma sorted_nonempty q d (c : list cell) : c <> [] -> Forall (fun x => adepth x <= d) (map of_cell c) ->
    exists x r, sortf q (regroup d (map of_cell c)) = x :: r.
  Proof.
    intros Hc Hd.
    assert (P : Permutation (sortf q (regroup d (map of_cell c))) (map of_cell c)).
    { eapply Permutation_trans; [apply sortf_perm|apply regroup_perm; exact Hd]. }
    destruct (sortf q (regroup d (map of_cell c))) as [|x r]; [|eauto].
    apply Permutation_nil in P. destruct c; [congruence|discriminate].
  Qed.

  Lemma last_value q w d : okw w -> d <= max_depth q w ->
    json_value_1d sortf q w (VObj [(adec d, VArr [])]) = AOk (d, []).
  Proof.
    intros Hw Hd. rewrite <- jentries_nil.
    rewrite (json_value_of_entries sortf sortf_perm q w d [] Hw Hd (Forall_nil _)); [|constructor].
    cbn [map]. rewrite regroup_nil.
    assert (E : sortf q [] = []) by (apply Permutation_nil, Permutation_sym, sortf_perm).
    rewrite E. reflexivity.
  Qed.

  Lemma j2loop_elems : forall l a b l_acc, Forall elem_ok2 l -> a <= d1 -> b <= d2 ->
    j2loop sortf q1 w1 q2 w2 p1 p2 (map etree l ++ [lasttree]) a b l_acc = J2Ok d1 d2 (l_acc ++ map decoded l).
  Proof.
    induction l as [|e t IH]; intros a b l_acc HF Ha Hb.
    - cbn [map app j2loop]. unfold lasttree. rewrite lookup_p1, lookup_p2.
      rewrite (last_value q1 w1 d1 Hw1 Hd1), (last_value q2 w2 d2 Hw2 Hd2).
      rewrite app_nil_r. f_equal; lia.
    - inversion HF as [|? ? He Ht]; subst.
      destruct He as (Le1 & Le2 & N1 & N2 & W1 & D1 & W2 & D2).
      cbn [map app j2loop]. unfold etree at 1. rewrite lookup_p1, lookup_p2.
      unfold ents_of.
      rewrite (json_value_of_entries sortf sortf_perm q1 w1 (fst (fst e)) (snd (fst e)) Hw1 ltac:(lia) W1 D1).
      rewrite (json_value_of_entries sortf sortf_perm q2 w2 (fst (snd e)) (snd (snd e)) Hw2 ltac:(lia) W2 D2).
      destruct (sorted_nonempty q1 (fst (fst e)) (snd (fst e)) N1) as [x1 [r1 E1]].
      { eapply Forall_impl; [|exact W1]. intros x [Hx _]. exact Hx. }
      destruct (sorted_nonempty q2 (fst (snd e)) (snd (snd e)) N2) as [x2 [r2 E2]].
      { eapply Forall_impl; [|exact W2]. intros x [Hx _]. exact Hx. }
      rewrite E1, E2. rewrite IH; [|exact Ht|lia|lia].
      rewrite <- app_assoc. cbn [app map]. unfold decoded at 2. rewrite E1, E2. reflexivity.
  Qed.

  Theorem st_json_roundtrip_l l : Forall elem_ok2 l ->
    st_from_json sortf q1 w1 q2 w2 p1 p2 (st_to_json_l p1 p2 d1 d2 fold l) = J2Ok d1 d2 (map decoded l).
  Proof.
    intros Hl. unfold st_from_json. rewrite (st_json_parse l Hl). unfold doctree.
    rewrite (j2loop_elems l 0 0 [] Hl (N.le_0_l _) (N.le_0_l _)). reflexivity.
  Qed.

  (** the usual case: every element labelled with the depths of the MOC2 *)
  Definition elem_ok2_plain (e : list cell * list cell) : Prop :=
    fst e <> [] /\ snd e <> [] /\
    Forall (elem_wf q1 d1) (map of_cell (fst e)) /\ Disj q1 w1 (map of_cell (fst e)) /\
    Forall (elem_wf q2 d2) (map of_cell (snd e)) /\ Disj q2 w2 (map of_cell (snd e)).
  Definition decoded_plain (e : list cell * list cell) : st_elem :=
    (sortf q1 (regroup d1 (map of_cell (fst e))), sortf q2 (regroup d2 (map of_cell (snd e)))).

  Lemma plain_ok l : Forall elem_ok2_plain l -> Forall elem_ok2 (map (st_label d1 d2) l).
  Proof.
    intros H. rewrite Forall_map. eapply Forall_impl; [|exact H]. intros e (A & B & C & D & E & F).
    unfold elem_ok2, st_label. cbn [fst snd]. repeat split; try assumption; lia.
  Qed.

  Theorem st_json_parse_plain l : Forall elem_ok2_plain l ->
    jparse (st_to_json p1 p2 d1 d2 fold l) = JVal (doctree (map (st_label d1 d2) l)).
  Proof. intros H. unfold st_to_json. apply st_json_parse. apply plain_ok. exact H. Qed.

  Theorem st_json_roundtrip l : Forall elem_ok2_plain l ->
    st_from_json sortf q1 w1 q2 w2 p1 p2 (st_to_json p1 p2 d1 d2 fold l) = J2Ok d1 d2 (map decoded_plain l).
  Proof.
    intros H. unfold st_to_json. rewrite (st_json_roundtrip_l _ (plain_ok l H)). rewrite map_map. reflexivity.
  Qed.
End JSt.
