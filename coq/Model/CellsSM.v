(** Model/CellsSM.v — (F) the ranges -> hierarchical cells decomposition as written
    (src/elem/range.rs MocRange::next_cell_with_knowledge, driven by
    src/moc/adapters.rs CellMOCIteratorFromRanges):
      from a range [s, e) whose bounds are aligned on cells of the MOC depth d,
        len = e - s
        if len == range_len_min || s & mask != 0      -> the depth-d cell at s
        else dd = min( log2(len) / dim , trailing_zeros(s) / dim , MAX_DEPTH )
                                                       -> the cell of depth MAX_DEPTH - dd at s
      and s advances by the size of the cell; the next range is taken when s reaches e.
    [s & mask] with mask = LEVEL_MASK << shift_dd is written arithmetically: (s / 2^shift_dd) mod 2^dim.
    trailing_zeros(0) is the number of bits of the index type.
    Theorems: each step yields a cell of depth <= d, aligned at s, inside [s, e), and at least as
    large as ANY cell that is aligned at s and fits in [s, e) (greedy dominance); the cells tile
    [s, e) exactly; no cell's parent lies inside the range (maximality, by the dyadic nesting
    argument); consequently the cells of a canonical depth-aligned MOC are its normal form
    (Repr.NormalCells). *)
From Coq Require Import List NArith Arith Lia Bool.
From MOC.Base Require Import RangeSet.
From MOC.Model Require Import Qty Build Query Repr.
Import ListNotations.
Open Scope N_scope.

(** ---------- trailing zeros ---------- *)
Lemma ctz_pos_decomp p : exists m, N.pos p = (2 * m + 1) * 2 ^ ctz_pos p.
Proof.
  induction p as [p _|p [m IH]|].
  - exists (N.pos p). cbn [ctz_pos]. rewrite N.pow_0_r. lia.
  - exists m. cbn [ctz_pos]. rewrite N.pow_succ_r'. change (N.pos p~0) with (2 * N.pos p). rewrite IH. lia.
  - exists 0. reflexivity.
Qed.

Lemma ctz_divides s : s <> 0 -> mult2k (ctz s) s.
Proof.
  intros Hs. destruct s as [|p]; [congruence|]. cbn [ctz]. destruct (ctz_pos_decomp p) as [m E].
  unfold mult2k. rewrite E. apply N.mod_mul. apply N.pow_nonzero. lia.
Qed.

Lemma ctz_maximal s k : s <> 0 -> mult2k k s -> k <= ctz s.
Proof.
  intros Hs Hk. destruct s as [|p]; [congruence|]. cbn [ctz]. destruct (ctz_pos_decomp p) as [m E].
  destruct (N.le_gt_cases k (ctz_pos p)) as [L|L]; [exact L|exfalso].
  (* 2^(c+1) divides (2m+1) 2^c : impossible *)
  assert (H1 : mult2k (ctz_pos p + 1) (N.pos p)) by (apply (mult2k_le k); [lia|exact Hk]).
  unfold mult2k in H1. rewrite E in H1. rewrite N.pow_add_r in H1. change (2 ^ 1) with 2 in H1.
  pose proof (pow2_pos (ctz_pos p)) as Hp.
  rewrite (N.mul_comm (2 ^ ctz_pos p) 2) in H1.
  rewrite N.mul_mod_distr_r in H1 by lia.
  assert ((2 * m + 1) mod 2 = 1).
  { rewrite N.add_comm, N.mul_comm, N.mod_add by lia. reflexivity. }
  nia.
Qed.

Lemma mult2k_add k a b : mult2k k a -> mult2k k b -> mult2k k (a + b).
Proof.
  unfold mult2k. intros Ha Hb. pose proof (pow2_pos k).
  rewrite (N.add_mod a b (2 ^ k)) by lia. rewrite Ha, Hb. rewrite N.add_0_r. apply N.mod_0_l. lia.
Qed.
Lemma mult2k_pow k j : k <= j -> mult2k k (2 ^ j).
Proof.
  intros H. unfold mult2k. replace j with ((j - k) + k) by lia. rewrite N.pow_add_r. apply N.mod_mul. apply N.pow_nonzero. lia.
Qed.
Lemma mult2k_div k x : mult2k k x -> x = x / 2 ^ k * 2 ^ k.
Proof. unfold mult2k. intros H. pose proof (pow2_pos k). pose proof (N.div_mod x (2 ^ k)). lia. Qed.

(** dyadic nesting: a multiple of 2^b strictly inside an aligned block of size 2^a starts a
    block of size 2^b that lies inside it *)
Lemma dyadic_nest a b s p : mult2k a s -> mult2k b p -> s < p -> p < s + 2 ^ a ->
  b < a /\ p + 2 ^ b <= s + 2 ^ a.
Proof.
  intros Hs Hp L1 L2.
  assert (Hba : b < a).
  { destruct (N.lt_ge_cases b a) as [K|K]; [exact K|exfalso].
    pose proof (mult_gap a s p Hs (mult2k_le b a p K Hp) L1). lia. }
  split; [exact Hba|].
  assert (H1 : mult2k b (s + 2 ^ a)).
  { apply mult2k_add; [apply (mult2k_le a); [lia|exact Hs]|apply mult2k_pow; lia]. }
  exact (mult_gap b p (s + 2 ^ a) Hp H1 L2).
Qed.

Section Cells.
Variables (dm maxd nbits d : N).
Hypothesis Hdm : 0 < dm.
Hypothesis Hd : d <= maxd.
Hypothesis Hbits : dm * maxd <= nbits.

Definition sdd : N := dm * (maxd - d).
Definition rlm : N := 2 ^ sdd.
Definition tz (s : N) : N := match s with 0 => nbits | _ => ctz s end.

(** one call of next_cell_with_knowledge: Some ((depth, idx), new start) *)
Definition step (s e : N) : option (N * N * N) :=
  if e <=? s then None
  else
    let len := e - s in
    if (len =? rlm) || negb ((s / rlm) mod 2 ^ dm =? 0) then Some (d, s / rlm, s + rlm)
    else
      let dd := N.min (N.min (N.log2 len / dm) (tz s / dm)) maxd in
      Some (maxd - dd, s / 2 ^ (dm * dd), s + 2 ^ (dm * dd)).

Fixpoint cells_r (fuel : nat) (s e : N) : list (N * N) :=
  match fuel with
  | O => []
  | S f => match step s e with
           | None => []
           | Some (k, i, s') => (k, i) :: cells_r f s' e
           end
  end.

Definition csh (k : N) : N := dm * (maxd - k).          (* shift of depth k *)

(** what a step guarantees *)
Record StepOK (s e k i s' : N) : Prop :=
  { so_depth : k <= d;
    so_aligned : mult2k (csh k) s;
    so_idx : i = s / 2 ^ csh k;
    so_next : s' = s + 2 ^ csh k;
    so_fits : s' <= e;
    so_dominant : forall k2, k2 <= maxd -> mult2k (csh k2) s -> s + 2 ^ csh k2 <= e -> csh k2 <= csh k }.

Lemma div_le_iff a b c : 0 < c -> (c * a <= b <-> a <= b / c).
Proof.
  intros Hc. split; intros H.
  - apply N.div_le_lower_bound; lia.
  - pose proof (N.mul_div_le b c). nia.
Qed.

Lemma step_ok s e : mult2k sdd s -> mult2k sdd e -> s < e ->
  exists k i s', step s e = Some (k, i, s') /\ StepOK s e k i s'.
Proof.
  intros As Ae Hlt. unfold step. destruct (N.leb_spec e s) as [C|_]; [lia|]. cbv zeta.
  pose proof (pow2_pos sdd) as Hr. fold rlm in Hr.
  assert (Alen : mult2k sdd (e - s)).
  { unfold mult2k in *. fold rlm in *. rewrite (mult2k_div sdd e Ae), (mult2k_div sdd s As). fold rlm.
    rewrite <- N.mul_sub_distr_r. apply N.mod_mul. lia. }
  assert (Hlen : rlm <= e - s).
  { pose proof (mult_gap sdd s e As Ae Hlt). fold rlm in H. lia. }
  assert (Ecsh : csh d = sdd) by reflexivity.
  destruct ((e - s =? rlm) || negb ((s / rlm) mod 2 ^ dm =? 0)) eqn:B.
  - (* a cell of depth d *)
    exists d, (s / rlm), (s + rlm). split; [reflexivity|].
    constructor; rewrite ?Ecsh; fold rlm; try reflexivity; [exact As|lia|].
    intros k2 Hk2 A2 F2. unfold csh. destruct (N.le_gt_cases (maxd - k2) (maxd - d)) as [L|L]; [apply N.mul_le_mono_l; exact L|exfalso].
    apply orb_true_iff in B. destruct B as [B|B].
    + apply N.eqb_eq in B. assert (2 ^ csh k2 <= rlm) by lia.
      assert (csh k2 <= sdd) by (apply (N.pow_le_mono_r_iff 2); [lia|exact H]).
      unfold csh, sdd in H0. apply N.mul_le_mono_pos_l in H0; lia.
    + apply negb_true_iff, N.eqb_neq in B. apply B.
      (* s is a multiple of 2^(sdd + dm) *)
      assert (A3 : mult2k (sdd + dm) s).
      { apply (mult2k_le (csh k2)); [unfold csh, sdd; nia|exact A2]. }
      unfold mult2k in A3. rewrite N.pow_add_r in A3. fold rlm in A3.
      rewrite N.mod_mul_r in A3 by (try apply N.pow_nonzero; lia).
      pose proof (pow2_pos dm). assert (s mod rlm = 0) by exact As. nia.
  - (* a shallower cell *)
    apply orb_false_iff in B. destruct B as [B1 B2]. apply N.eqb_neq in B1. apply negb_false_iff, N.eqb_eq in B2.
    remember (N.min (N.min (N.log2 (e - s) / dm) (tz s / dm)) maxd) as dd eqn:Edd.
    assert (Hlen2 : 2 * rlm <= e - s).
    { pose proof (mult2k_div sdd (e - s) Alen) as E. fold rlm in E.
      destruct (N.le_gt_cases 2 ((e - s) / rlm)) as [G|G]; [nia|].
      assert ((e - s) / rlm = 1 \/ (e - s) / rlm = 0) as [X|X] by lia; rewrite X in E; lia. }
    assert (Hlog : sdd + 1 <= N.log2 (e - s)).
    { apply N.log2_le_pow2; [lia|]. rewrite N.pow_add_r. fold rlm. change (2 ^ 1) with 2. lia. }
    assert (Hl1 : maxd - d <= N.log2 (e - s) / dm).
    { apply div_le_iff; [exact Hdm|]. unfold sdd in Hlog. lia. }
    assert (As2 : mult2k (sdd + dm) s).
    { unfold mult2k. rewrite N.pow_add_r. fold rlm. rewrite N.mod_mul_r by (try apply N.pow_nonzero; lia).
      assert (s mod rlm = 0) by exact As. rewrite H, B2. lia. }
    assert (Hl2 : maxd - d <= tz s / dm).
    { apply div_le_iff; [exact Hdm|]. unfold tz. destruct s as [|ps] eqn:Es.
      - nia.
      - rewrite <- Es in *. assert (sdd + dm <= ctz s) by (apply ctz_maximal; [lia|exact As2]). unfold sdd in H. nia. }
    assert (Hdd1 : maxd - d <= dd) by lia.
    assert (Hdd2 : dd <= maxd) by lia.
    assert (Ek : csh (maxd - dd) = dm * dd) by (unfold csh; f_equal; lia).
    exists (maxd - dd), (s / 2 ^ (dm * dd)), (s + 2 ^ (dm * dd)). split; [reflexivity|].
    assert (Hdl : dm * dd <= N.log2 (e - s)).
    { apply (div_le_iff dd (N.log2 (e - s)) dm Hdm). lia. }
    assert (Hfit : 2 ^ (dm * dd) <= e - s).
    { pose proof (N.log2_spec (e - s) ltac:(lia)) as [L _].
      eapply N.le_trans; [apply N.pow_le_mono_r; [lia|exact Hdl]|exact L]. }
    assert (Hal : mult2k (dm * dd) s).
    { destruct (N.eq_dec s 0) as [->|Hs0]; [apply mult2k_0|].
      apply (mult2k_le (ctz s)); [|apply ctz_divides; exact Hs0].
      assert (dd <= tz s / dm) by lia. apply (div_le_iff dd (tz s) dm Hdm) in H.
      unfold tz in H. destruct s; [congruence|exact H]. }
    constructor; rewrite ?Ek; try reflexivity; [lia|exact Hal|lia|].
    intros k2 Hk2 A2 F2. unfold csh. apply N.mul_le_mono_l.
    assert (J1 : maxd - k2 <= N.log2 (e - s) / dm).
    { apply div_le_iff; [exact Hdm|]. apply N.log2_le_pow2; [lia|]. unfold csh in F2. lia. }
    assert (J2 : maxd - k2 <= tz s / dm).
    { apply div_le_iff; [exact Hdm|]. unfold tz. destruct (N.eq_dec s 0) as [->|Hs0]; [nia|].
      assert (csh k2 <= ctz s) by (apply ctz_maximal; assumption). unfold csh in H. destruct s; [congruence|exact H]. }
    lia.
Qed.

(** ---------- tiling ---------- *)
(** cells as (depth, idx); their ranges through [csh] *)
Definition cr (c : N * N) : range := (snd c * 2 ^ csh (fst c), (snd c + 1) * 2 ^ csh (fst c)).

Inductive Tiles : N -> N -> list (N * N) -> Prop :=
| T_nil e : Tiles e e []
| T_cons s e k i s' t : StepOK s e k i s' -> Tiles s' e t -> Tiles s e ((k, i) :: t).

Lemma stepok_range s e k i s' : StepOK s e k i s' -> cr (k, i) = (s, s') /\ s < s' /\ mult2k sdd s'.
Proof.
  intros [D A I Nx F _]. unfold cr. cbn [fst snd]. pose proof (pow2_pos (csh k)).
  rewrite I, Nx. rewrite <- (mult2k_div (csh k) s A).
  split; [f_equal; rewrite N.mul_add_distr_r; rewrite <- (mult2k_div (csh k) s A); lia|]. split; [lia|].
  rewrite <- Nx. rewrite Nx. apply mult2k_add.
  - apply (mult2k_le (csh k)); [unfold csh, sdd; apply N.mul_le_mono_l; lia|exact A].
  - apply mult2k_pow. unfold csh, sdd. apply N.mul_le_mono_l. lia.
Qed.

Theorem cells_tile : forall fuel s e, mult2k sdd s -> mult2k sdd e -> s <= e ->
  (e - s) / rlm <= N.of_nat fuel -> Tiles s e (cells_r fuel s e).
Proof.
  induction fuel as [|fuel IH]; intros s e As Ae Hle Hf.
  - (* no fuel: the range must be empty *)
    assert (s = e).
    { destruct (N.eq_dec s e) as [E|E]; [exact E|exfalso]. pose proof (mult_gap sdd s e As Ae ltac:(lia)) as G. fold rlm in G.
      pose proof (pow2_pos sdd) as Hr. fold rlm in Hr.
      assert (1 <= (e - s) / rlm) by (apply N.div_le_lower_bound; lia). cbn in Hf. lia. }
    subst. cbn. constructor.
  - cbn [cells_r]. destruct (N.eq_dec s e) as [E|E].
    + subst. unfold step. rewrite N.leb_refl. constructor.
    + destruct (step_ok s e As Ae ltac:(lia)) as (k & i & s' & Hs & OK). rewrite Hs.
      destruct (stepok_range _ _ _ _ _ OK) as (R1 & R2 & R3).
      apply (T_cons s e k i s'); [exact OK|].
      apply IH; [exact R3|exact Ae|exact (so_fits _ _ _ _ _ OK)|].
      (* fuel: at least one unit cell consumed *)
      pose proof (pow2_pos sdd) as Hr. fold rlm in Hr.
      assert (G : s + rlm <= s').
      { pose proof (mult_gap sdd s s' As R3 R2) as G. exact G. }
      pose proof (so_fits _ _ _ _ _ OK) as Fit.
      assert ((e - s') / rlm + 1 <= (e - s) / rlm).
      { replace (e - s) with ((e - s - rlm) + 1 * rlm) by lia. rewrite N.div_add by lia.
        apply N.add_le_mono_r. apply N.div_le_mono; lia. }
      lia.
Qed.

(** the tiles cover exactly [s, e), in ascending contiguous order *)
Lemma tiles_cov s e l : Tiles s e l -> s <= e /\ forall x, cov (map cr l) x <-> s <= x < e.
Proof.
  induction 1 as [e|s e k i s' t OK HT [IH1 IH2]].
  - split; [lia|]. intros x. cbn [map]. split; [intros H; destruct (cov_nil _ H)|lia].
  - destruct (stepok_range _ _ _ _ _ OK) as (R1 & R2 & _). split; [lia|].
    intros x. cbn [map]. rewrite cov_cons, R1, IH2. unfold inr. cbn [fst snd]. lia.
Qed.

Lemma tiles_asc s e l : Tiles s e l -> asc s (map cr l).
Proof.
  induction 1 as [e|s e k i s' t OK HT IH]; cbn [map asc]; [exact I|].
  destruct (stepok_range _ _ _ _ _ OK) as (R1 & R2 & _). rewrite R1. cbn [fst snd]. split; [lia|]. split; [exact R2|exact IH].
Qed.

(** ---------- maximality ---------- *)
(** a block [p, p + 2^(csh k2)) aligned and inside [s, e): every produced cell that starts inside
    the block is at least as large as the block (hence there is exactly one, at p) *)
Lemma tiles_block s e l : Tiles s e l -> forall k2 p, k2 <= maxd -> mult2k (csh k2) p ->
  s <= p -> p + 2 ^ csh k2 <= e ->
  forall c, In c l -> p <= fst (cr c) < p + 2 ^ csh k2 -> csh k2 <= csh (fst c).
Proof.
  induction 1 as [e|s e k i s' t OK HT IH]; intros k2 p Hk2 Ap Hsp Hpe c Hin Hc; [destruct Hin|].
  destruct (stepok_range _ _ _ _ _ OK) as (R1 & R2 & _).
  assert (Later : forall c', In c' t -> s' <= fst (cr c')).
  { intros c' Hin'. pose proof (tiles_asc _ _ _ HT) as HA. clear -HA Hin'.
    revert HA. generalize s'. induction t as [|c0 t IHt]; intros lo HA; [destruct Hin'|].
    cbn [map asc] in HA. destruct HA as (H1 & H2 & H3). destruct Hin' as [->|Hin']; [exact H1|].
    specialize (IHt Hin' _ H3). lia. }
  destruct (N.eq_dec s p) as [Esp|Nsp].
  - (* the block starts here: dominance *)
    subst p. pose proof (so_dominant _ _ _ _ _ OK k2 Hk2 Ap Hpe) as Dm.
    destruct Hin as [<-|Hin]; [exact Dm|exfalso].
    specialize (Later c Hin). rewrite (so_next _ _ _ _ _ OK) in Later.
    assert (2 ^ csh k2 <= 2 ^ csh k) by (apply N.pow_le_mono_r; lia). lia.
  - destruct (N.le_gt_cases s' p) as [L|L].
    + (* the block is further on *)
      destruct Hin as [<-|Hin]; [rewrite R1 in Hc; cbn [fst] in Hc; lia|].
      exact (IH k2 p Hk2 Ap L Hpe c Hin Hc).
    + (* p strictly inside the first cell: the whole block is inside it *)
      exfalso. rewrite (so_next _ _ _ _ _ OK) in L.
      destruct (dyadic_nest (csh k) (csh k2) s p (so_aligned _ _ _ _ _ OK) Ap ltac:(lia) L) as [_ Hin2].
      rewrite <- (so_next _ _ _ _ _ OK) in Hin2.
      destruct Hin as [<-|Hin]; [rewrite R1 in Hc; cbn [fst] in Hc; lia|].
      specialize (Later c Hin). lia.
Qed.

(** no produced cell has its parent inside [s, e) *)
Theorem tiles_maximal s e l : Tiles s e l -> forall c, In c l -> fst c = 0 \/
  ~ (s <= (snd c / 2 ^ dm) * 2 ^ csh (fst c - 1) /\ (snd c / 2 ^ dm + 1) * 2 ^ csh (fst c - 1) <= e).
Proof.
  intros HT c Hin. destruct (N.eq_dec (fst c) 0) as [E0|N0]; [left; exact E0|right].
  intros [P1 P2].
  (* depth of c is <= maxd *)
  assert (Hk : fst c <= maxd).
  { clear -HT Hin Hd. induction HT as [e|s e k i s' t OK _ IH]; [destruct Hin|].
    destruct Hin as [<-|Hin]; [cbn; pose proof (so_depth _ _ _ _ _ OK); lia|exact (IH Hin)]. }
  destruct c as [k i]. cbn [fst snd] in *.
  assert (Ecsh : csh (k - 1) = csh k + dm) by (unfold csh; nia).
  remember (i / 2 ^ dm * 2 ^ csh (k - 1)) as p eqn:Ep.
  assert (Ap : mult2k (csh (k - 1)) p) by (subst p; unfold mult2k; apply N.mod_mul; apply N.pow_nonzero; lia).
  (* the cell starts inside its parent *)
  assert (Hc : p <= fst (cr (k, i)) < p + 2 ^ csh (k - 1)).
  { unfold cr. cbn [fst snd]. subst p. rewrite Ecsh, N.pow_add_r.
    pose proof (pow2_pos (csh k)) as HA. pose proof (pow2_pos dm) as HB.
    pose proof (N.div_mod i (2 ^ dm) ltac:(lia)) as E1. pose proof (N.mod_lt i (2 ^ dm) ltac:(lia)) as E2.
    remember (2 ^ csh k) as A. remember (2 ^ dm) as B. remember (i / B) as qq. remember (i mod B) as rr.
    clear -HA HB E1 E2. nia. }
  assert (P2' : p + 2 ^ csh (k - 1) <= e).
  { subst p. pose proof (pow2_pos (csh (k - 1))). remember (2 ^ csh (k - 1)) as A. remember (i / 2 ^ dm) as qq. clear -P2. nia. }
  pose proof (tiles_block s e l HT (k - 1) p ltac:(lia) Ap P1 P2' (k, i) Hin Hc) as Dm.
  cbn [fst] in Dm. lia.
Qed.
End Cells.

(** ---------- the cells of a whole MOC are its normal form ---------- *)
Definition range_cells (q : qty) (w d : N) (r : range) : list (N * N) :=
  let dm := dim q in let maxd := max_depth q w in
  cells_r dm maxd w d (N.to_nat ((snd r - fst r) / rlm dm maxd d)) (fst r) (snd r).
Definition moc_cells (q : qty) (w d : N) (l : list range) : list cell :=
  flat_map (range_cells q w d) l.

Lemma dim_pos q : 0 < dim q.
Proof. destruct q; cbn; lia. Qed.
Lemma bits_ok q w : dim q * max_depth q w <= w.
Proof.
  unfold max_depth. pose proof (dim_pos q). pose proof (N.mul_div_le (w - (nres q + nd0bits q)) (dim q)). lia.
Qed.
Lemma cr_crange q w c : cr (dim q) (max_depth q w) c = crange q w c.
Proof. reflexivity. Qed.

Section Whole.
Variables (q : qty) (w d : N) (l : list range).
Hypothesis HV : ValidMoc q w d l.
Let dm := dim q.
Let maxd := max_depth q w.
(** any per-range decomposition that tiles each range with step-conform cells *)
Variable cells_of : range -> list (N * N).
Hypothesis range_tiles : forall r, In r l -> Tiles dm maxd d (fst r) (snd r) (cells_of r).
Let HDM : 0 < dm := dim_pos q.
Let HD : d <= maxd := vm_depth _ _ _ _ HV.
Let HB : dm * maxd <= w := bits_ok q w.

Lemma in_moc_cells c : In c (flat_map cells_of l) <-> exists r, In r l /\ In c (cells_of r).
Proof. rewrite in_flat_map. reflexivity. Qed.

Lemma moc_cells_cov x : cov (map (crange q w) (flat_map cells_of l)) x <-> cov l x.
Proof.
  unfold cov at 1. split.
  - intros [rc [Hin Hx]]. apply in_map_iff in Hin. destruct Hin as [c [<- Hc]].
    apply in_moc_cells in Hc. destruct Hc as [r [Hr Hc]].
    destruct (tiles_cov dm maxd w d HDM HD HB _ _ _ (range_tiles r Hr)) as [_ Cv].
    exists r. split; [exact Hr|]. apply Cv. exists (crange q w c). split; [|exact Hx].
    rewrite <- cr_crange. apply in_map. exact Hc.
  - intros [r [Hr Hx]].
    destruct (tiles_cov dm maxd w d HDM HD HB _ _ _ (range_tiles r Hr)) as [_ Cv].
    destruct (proj2 (Cv x) Hx) as [rc [Hin Hx']]. apply in_map_iff in Hin. destruct Hin as [c [<- Hc]].
    exists (crange q w c). split; [|exact Hx']. apply in_map. apply in_moc_cells. exists r. split; assumption.
Qed.

Lemma asc_app lo l1 hi l2 : asc lo l1 -> (forall r, In r l1 -> snd r <= hi) -> lo <= hi -> asc hi l2 -> asc lo (l1 ++ l2).
Proof.
  revert lo. induction l1 as [|r t IH]; intros lo H1 Hb Hlo H2; cbn [app].
  - destruct l2 as [|r2 t2]; [exact I|]. cbn [asc] in *. destruct H2 as (A & B & C). split; [lia|]. split; assumption.
  - cbn [asc] in *. destruct H1 as (A & B & C). split; [exact A|]. split; [exact B|].
    apply IH; [exact C|intros r' Hr'; apply Hb; right; exact Hr'| |exact H2].
    apply Hb. left. reflexivity.
Qed.

Lemma tiles_upper s e t : Tiles dm maxd d s e t -> forall c, In c t -> snd (cr dm maxd c) <= e.
Proof.
  induction 1 as [e|s e k i s' t OK HT IH]; intros c Hin; [destruct Hin|].
  destruct Hin as [<-|Hin]; [|exact (IH c Hin)].
  destruct (stepok_range dm maxd w d HDM HD HB _ _ _ _ _ OK) as (R1 & _ & _). rewrite R1. cbn [snd]. exact (so_fits _ _ _ _ _ _ _ _ OK).
Qed.

Theorem tiling_cells_normal : NormalCells q w d l (flat_map cells_of l).
Proof.
  pose proof HV as [Hd [Hc Hb] Ha].
  constructor.
  - (* depths and indices *)
    apply Forall_forall. intros c Hin. apply in_moc_cells in Hin. destruct Hin as [r [Hr Hin]].
    pose proof (range_tiles r Hr) as HT.
    assert (Hub : snd r <= n_cells_max q w) by (unfold Bounded in Hb; rewrite Forall_forall in Hb; exact (Hb r Hr)).
    assert (G : forall s e t, Tiles dm maxd d s e t -> e <= n_cells_max q w ->
                forall c, In c t -> fst c <= d /\ snd c < n_cells q (fst c)).
    { intros s0 e0 t0 HT0. induction HT0 as [e|s e k i s' t OK _ IH]; intros Hub0 c0 Hin0; [destruct Hin0|].
      assert (Hle : s' <= e) by exact (so_fits _ _ _ _ _ _ _ _ OK).
      destruct Hin0 as [<-|Hin0]; [|apply IH; [lia|exact Hin0]].
      cbn [fst snd]. split; [exact (so_depth _ _ _ _ _ _ _ _ OK)|].
      rewrite (so_idx _ _ _ _ _ _ _ _ OK).
      destruct (stepok_range dm maxd w d HDM HD HB _ _ _ _ _ OK) as (_ & R2 & _).
      assert (Hk : k <= max_depth q w) by (pose proof (so_depth _ _ _ _ _ _ _ _ OK); pose proof HD; unfold maxd in *; lia).
      apply N.div_lt_upper_bound; [apply N.pow_nonzero; lia|].
      assert (E : n_cells_max q w = 2 ^ csh dm maxd k * n_cells q k).
      { unfold n_cells_max, n_cells, csh, dm, maxd. replace (dim q * max_depth q w) with (dim q * (max_depth q w - k) + dim q * k) by nia.
        rewrite N.pow_add_r. lia. }
      rewrite <- E. lia. }
    exact (G _ _ _ HT Hub c Hin).
  - (* ascending, disjoint *)
    unfold Canon in Hc.
    assert (G : forall lo l', sorted_from lo l' -> (forall r, In r l' -> In r l) ->
                asc lo (map (crange q w) (flat_map cells_of l'))).
    { intros lo l'. revert lo. induction l' as [|r t IH]; intros lo Hs Hsub; [exact I|].
      cbn [flat_map]. rewrite map_app. cbn [sorted_from] in Hs. destruct Hs as (S1 & S2 & S3).
      pose proof (range_tiles r (Hsub r (or_introl eq_refl))) as HT.
      apply (asc_app lo _ (snd r)).
      - pose proof (tiles_asc dm maxd w d HDM HD HB _ _ _ HT) as A.
        change (map (crange q w) (cells_of r)) with (map (cr dm maxd) (cells_of r)).
        destruct (map (cr dm maxd) (cells_of r)) as [|r1 t1]; [exact I|].
        cbn [asc] in *. destruct A as (A1 & A2 & A3). split; [lia|]. split; assumption.
      - intros rc Hin. apply in_map_iff in Hin. destruct Hin as [c [<- Hc']].
        exact (tiles_upper _ _ _ HT c Hc').
      - lia.
      - apply IH; [apply chain_sorted; exact S3|intros r' Hr'; apply Hsub; right; exact Hr']. }
    apply (G 0 l Hc). auto.
  - exact moc_cells_cov.
  - (* maximality *)
    apply Forall_forall. intros c Hin. apply in_moc_cells in Hin. destruct Hin as [r [Hr Hin]].
    pose proof (range_tiles r Hr) as HT.
    destruct (N.eq_dec (fst c) 0) as [Z|Hk]; [left; exact Z|right].
    destruct (tiles_maximal dm maxd w d HDM HD HB _ _ _ HT c Hin) as [Z|NZ]; [congruence|].
    intros Hall. apply NZ.
    pose proof (cell_range_nonempty q w (fst (parent q c)) (snd (parent q c))) as Hne.
    fold (crange q w (parent q c)) in Hne.
    pose proof (proj2 (contains_range_spec l _ _ Hc Hne)) as F.
    assert (CR : contains_range l (fst (crange q w (parent q c))) (snd (crange q w (parent q c))) = true).
    { apply F. intros x Hx. apply Hall. exact Hx. }
    unfold contains_range in CR. apply existsb_exists in CR. destruct CR as [r' [Hr' Hb']].
    apply andb_true_iff in Hb'. rewrite !N.leb_le in Hb'. destruct Hb' as [B1 B2].
    (* the cell starts inside r and inside r' : same range *)
    destruct (tiles_cov dm maxd w d HDM HD HB _ _ _ HT) as [_ Cv].
    assert (Hin_r : fst r <= fst (crange q w c) < snd r).
    { apply Cv. exists (crange q w c). split; [rewrite <- cr_crange; apply in_map; exact Hin|].
      pose proof (cell_range_nonempty q w (fst c) (snd c)). unfold inr, crange. lia. }
    assert (Hin_p : fst (crange q w (parent q c)) <= fst (crange q w c) < snd (crange q w (parent q c))).
    { (* the cell starts inside its parent *)
      destruct c as [k i]. unfold crange, parent, cell_range. cbn [fst snd] in *.
      assert (Hkm : k <= max_depth q w).
      { assert (Fk : Forall (fun c => fst c <= d) (cells_of r)).
        { clear -HT. induction HT as [e|s e k0 i0 s' t OK _ IH]; constructor; [exact (so_depth _ _ _ _ _ _ _ _ OK)|exact IH]. }
        rewrite Forall_forall in Fk. specialize (Fk _ Hin). cbn [fst] in Fk. lia. }
      assert (Es : shift q w (k - 1) = shift q w k + dim q) by (unfold shift; pose proof (dim_pos q); nia).
      rewrite Es, N.pow_add_r.
      pose proof (pow2_pos (shift q w k)) as PA. pose proof (pow2_pos (dim q)) as PB.
      pose proof (N.div_mod i (2 ^ dim q) ltac:(lia)) as E1. pose proof (N.mod_lt i (2 ^ dim q) ltac:(lia)) as E2.
      remember (2 ^ shift q w k) as A. remember (2 ^ dim q) as B. remember (i / B) as qq. remember (i mod B) as rr.
      clear -PA PB E1 E2. nia. }
    destruct (canon_separated l 0 Hc r r' Hr Hr') as [->|[S|S]]; [|lia|lia].
    split; [exact B1|exact B2].
Qed.
End Whole.

(** instance 1: the decomposition run with as much fuel as the range has depth-d cells *)
Theorem moc_cells_normal q w d l : ValidMoc q w d l -> NormalCells q w d l (moc_cells q w d l).
Proof.
  intros HV. apply (tiling_cells_normal q w d l HV (range_cells q w d)).
  intros r Hin. pose proof HV as [Hd [Hc Hb] Ha].
  unfold Aligned, AllB in Ha. rewrite Forall_forall in Ha. destruct (Ha r Hin) as [A1 A2].
  pose proof (canon_in_nonempty l 0 r Hc Hin) as Hne.
  apply (cells_tile (dim q) (max_depth q w) w d (dim_pos q) Hd (bits_ok q w)); [exact A1|exact A2|lia|].
  rewrite N2Nat.id. apply N.le_refl.
Qed.

(** instance 2 (the one that is extracted and run): a SMALL fuel and an error value when it is
    exhausted; whenever it returns a list, that list is the normal form.  (A range decomposes
    into at most 2 (2^dim - 1) (MAX_DEPTH + 1) cells; the fuel 4 w + 4 is above that for the
    supported widths - not proved, the out-of-fuel case is excluded by the statement and
    reported as an oracle error at run time.) *)
Fixpoint cells_o (dm maxd nbits d : N) (fuel : nat) (s e : N) : option (list (N * N)) :=
  match fuel with
  | O => if e <=? s then Some [] else None
  | S f => match step dm maxd nbits d s e with
           | None => Some []
           | Some (k, i, s') => option_map (cons (k, i)) (cells_o dm maxd nbits d f s' e)
           end
  end.
Fixpoint moc_cells_o (q : qty) (w d : N) (l : list range) : option (list cell) :=
  match l with
  | [] => Some []
  | r :: t => match cells_o (dim q) (max_depth q w) w d (N.to_nat (4 * w + 4)) (fst r) (snd r), moc_cells_o q w d t with
              | Some a, Some b => Some (a ++ b)
              | _, _ => None
              end
  end.

Lemma cells_o_tiles dm maxd nbits d : 0 < dm -> d <= maxd -> dm * maxd <= nbits ->
  forall fuel s e c, mult2k (sdd dm maxd d) s -> mult2k (sdd dm maxd d) e -> s <= e ->
  cells_o dm maxd nbits d fuel s e = Some c -> Tiles dm maxd d s e c.
Proof.
  intros Hdm Hd Hb. induction fuel as [|fuel IH]; intros s e c As Ae Hle H; cbn [cells_o] in H.
  - destruct (N.leb_spec e s) as [L|L]; [|discriminate]. inversion H; subst. assert (s = e) by lia. subst. constructor.
  - destruct (N.eq_dec s e) as [E|E].
    + subst. unfold step in H. rewrite N.leb_refl in H. inversion H; subst. constructor.
    + destruct (step_ok dm maxd nbits d Hdm Hd Hb s e As Ae ltac:(lia)) as (k & i & s' & Hs & OK). rewrite Hs in H.
      destruct (cells_o dm maxd nbits d fuel s' e) as [c'|] eqn:E'; [|discriminate]. cbn in H. inversion H; subst.
      destruct (stepok_range dm maxd nbits d Hdm Hd Hb _ _ _ _ _ OK) as (_ & _ & R3).
      apply (T_cons dm maxd d s e k i s'); [exact OK|].
      apply IH; [exact R3|exact Ae|exact (so_fits _ _ _ _ _ _ _ _ OK)|exact E'].
Qed.

Theorem moc_cells_o_normal q w d l cells : ValidMoc q w d l ->
  moc_cells_o q w d l = Some cells -> NormalCells q w d l cells.
Proof.
  intros HV H.
  set (cells_of := fun r : range => match cells_o (dim q) (max_depth q w) w d (N.to_nat (4 * w + 4)) (fst r) (snd r) with Some a => a | None => [] end).
  assert (E : forall l' c', moc_cells_o q w d l' = Some c' ->
              c' = flat_map cells_of l' /\ forall r, In r l' -> cells_o (dim q) (max_depth q w) w d (N.to_nat (4 * w + 4)) (fst r) (snd r) = Some (cells_of r)).
  { induction l' as [|r t IH]; intros c' Hc'; cbn [moc_cells_o] in Hc'.
    - inversion Hc'. split; [reflexivity|intros r []].
    - destruct (cells_o (dim q) (max_depth q w) w d (N.to_nat (4 * w + 4)) (fst r) (snd r)) as [a|] eqn:Ea; [|discriminate].
      destruct (moc_cells_o q w d t) as [b|]; [|discriminate]. inversion Hc'; subst.
      destruct (IH b eq_refl) as [I1 I2]. split.
      + cbn [flat_map]. unfold cells_of at 1. rewrite Ea. f_equal. exact I1.
      + intros r' [<-|Hr']; [unfold cells_of; rewrite Ea; reflexivity|exact (I2 r' Hr')]. }
  destruct (E l cells H) as [-> Hall].
  apply (tiling_cells_normal q w d l HV cells_of).
  intros r Hin. pose proof HV as [Hd [Hc Hb] Ha].
  unfold Aligned, AllB in Ha. rewrite Forall_forall in Ha. destruct (Ha r Hin) as [A1 A2].
  pose proof (canon_in_nonempty l 0 r Hc Hin) as Hne.
  apply (cells_o_tiles (dim q) (max_depth q w) w d (dim_pos q) Hd (bits_ok q w) _ _ _ _ A1 A2 ltac:(lia) (Hall r Hin)).
Qed.

Example moc_cells_o_runs :
  moc_cells_o Hpx 64 29 [(1, 12 * 4 ^ 29 - 1)] <> None /\ moc_cells_o Time 64 61 [(1, 2 ^ 62 - 1)] <> None /\
  moc_cells_o Hpx 64 2 [(3 * 2 ^ 54, 21 * 2 ^ 54)] = Some [(2, 3); (1, 1); (1, 2); (1, 3); (1, 4); (2, 20)].
Proof. split; [vm_compute; discriminate|split; [vm_compute; discriminate|vm_compute; reflexivity]]. Qed.
