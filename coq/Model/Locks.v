(** Model/Locks.v — lock discipline of the global store (src/storage/u64idx/store.rs): every
    call takes the RwLock of the store for one phase at a time (a read phase for the operands,
    then - for calls that add a result - a write phase), never one lock while holding another.
    std's RwLock is writer-preferring: once a writer waits, new readers wait too.
    Theorem: with non-nested acquisitions, whatever the number of threads, their programs and
    the interleaving, an unfinished system can always make progress (no deadlock).
    Counter-example: a nested read acquisition (read lock requested again while already held)
    dead-locks against one waiting writer - the shape of the seeded change S-C13-1. *)
From Coq Require Import List Arith Lia Bool.
Import ListNotations.

Inductive act := AcqR | RelR | AcqW | RelW.

Record lockst := { readers : list nat; writer : option nat; waiting : list nat }.

(** configuration: the lock and the remaining program of every thread (index = thread id) *)
Record conf := { lk : lockst; progs : list (list act) }.

Definition holdsR (s : lockst) (t : nat) : bool := existsb (Nat.eqb t) (readers s).
Definition is_waiting (s : lockst) (t : nat) : bool := existsb (Nat.eqb t) (waiting s).
Fixpoint remove1 (t : nat) (l : list nat) : list nat :=
  match l with [] => [] | x :: r => if Nat.eqb t x then r else x :: remove1 t r end.

Fixpoint set_prog (t : nat) (p : list act) (l : list (list act)) : list (list act) :=
  match l, t with
  | [], _ => []
  | _ :: r, O => p :: r
  | x :: r, S t' => x :: set_prog t' p r
  end.

(** a PROGRESS step of thread [t] (the registration of a blocked writer is not progress) *)
Definition step (c : conf) (t : nat) : option conf :=
  match nth_error (progs c) t with
  | Some (a :: rest) =>
      let s := lk c in
      match a with
      | AcqR =>
          match writer s, waiting s with
          | None, [] => Some {| lk := {| readers := t :: readers s; writer := None; waiting := [] |};
                               progs := set_prog t rest (progs c) |}
          | _, _ => None
          end
      | AcqW =>
          match writer s, readers s with
          | None, [] =>
              (* the lock is free: the thread acquires it if no other writer is queued before it *)
              match waiting s with
              | [] => Some {| lk := {| readers := []; writer := Some t; waiting := [] |}; progs := set_prog t rest (progs c) |}
              | w :: ws => if Nat.eqb w t
                           then Some {| lk := {| readers := []; writer := Some t; waiting := ws |}; progs := set_prog t rest (progs c) |}
                           else None
              end
          | _, _ => None
          end
      | RelR => Some {| lk := {| readers := remove1 t (readers s); writer := writer s; waiting := waiting s |};
                        progs := set_prog t rest (progs c) |}
      | RelW => Some {| lk := {| readers := readers s; writer := None; waiting := waiting s |};
                        progs := set_prog t rest (progs c) |}
      end
  | _ => None
  end.

(** a writer that is about to request the lock registers in the queue (not a progress step) *)
Definition register (c : conf) (t : nat) : conf :=
  match nth_error (progs c) t with
  | Some (AcqW :: _) =>
      if is_waiting (lk c) t then c
      else {| lk := {| readers := readers (lk c); writer := writer (lk c); waiting := waiting (lk c) ++ [t] |}; progs := progs c |}
  | _ => c
  end.

(** non-nested programs: a sequence of read phases and write phases *)
Inductive phases : list act -> Prop :=
| ph_nil : phases []
| ph_r p : phases p -> phases (AcqR :: RelR :: p)
| ph_w p : phases p -> phases (AcqW :: RelW :: p).

(** consistency of a configuration: who holds what is exactly what the programs say *)
Definition thread_ok (s : lockst) (t : nat) (p : list act) : Prop :=
  (* holding the read lock: about to release it, the rest is made of phases *)
  (holdsR s t = true /\ writer s <> Some t /\ exists q, p = RelR :: q /\ phases q) \/
  (* holding the write lock *)
  (holdsR s t = false /\ writer s = Some t /\ exists q, p = RelW :: q /\ phases q) \/
  (* holding nothing *)
  (holdsR s t = false /\ writer s <> Some t /\ phases p).

Record Consistent (c : conf) : Prop :=
  { c_threads : forall t p, nth_error (progs c) t = Some p -> thread_ok (lk c) t p;
    c_readers : forall t, In t (readers (lk c)) -> t < length (progs c);
    c_writer : forall t, writer (lk c) = Some t -> t < length (progs c) /\ readers (lk c) = [];
    c_excl : readers (lk c) <> [] -> writer (lk c) = None;
    c_waiting : forall t, In t (waiting (lk c)) ->
                  exists q, nth_error (progs c) t = Some (AcqW :: q) /\ holdsR (lk c) t = false /\ writer (lk c) <> Some t;
    c_rnodup : NoDup (readers (lk c));
    c_wnodup : NoDup (waiting (lk c)) }.

Definition unfinished (c : conf) : Prop := exists t a q, nth_error (progs c) t = Some (a :: q).

Lemma holdsR_in s t : holdsR s t = true <-> In t (readers s).
Proof.
  unfold holdsR. rewrite existsb_exists. split.
  - intros [x [Hin E]]. apply Nat.eqb_eq in E. subst. exact Hin.
  - intros H. exists t. split; [exact H|apply Nat.eqb_refl].
Qed.

(** PROGRESS: in every consistent configuration with an unfinished thread, some thread can
    make a progress step, possibly after blocked writers have registered - i.e. no deadlock,
    for any number of threads and any non-nested programs *)
Theorem progress c : Consistent c -> unfinished c -> exists t c', step c t = Some c'.
Proof.
  intros [Ht Hr Hw He Hq _ _] [t0 [a0 [q0 H0]]].
  destruct (writer (lk c)) as [w|] eqn:Ew.
  - (* a writer holds the lock: it can release it *)
    destruct (Hw w eq_refl) as [Hlt _].
    destruct (nth_error (progs c) w) as [p|] eqn:Ep; [|apply nth_error_None in Ep; lia].
    destruct (Ht w p Ep) as [(_ & N & _)|[(_ & _ & q & -> & _)|(_ & N & _)]]; try congruence.
    exists w. unfold step. rewrite Ep. eexists. reflexivity.
  - destruct (readers (lk c)) as [|r rs] eqn:Er.
    + (* the lock is free *)
      destruct (waiting (lk c)) as [|w ws] eqn:Eq.
      * (* nobody queued: the unfinished thread t0 holds nothing, its next action is an acquisition *)
        destruct (Ht t0 _ H0) as [(Hh & _)|[(_ & Hwr & _)|(_ & _ & Hp)]].
        -- apply holdsR_in in Hh. rewrite Er in Hh. destruct Hh.
        -- congruence.
        -- exists t0. unfold step. rewrite H0.
           inversion Hp; subst; cbn [lk]; rewrite ?Ew, ?Er, ?Eq; eexists; reflexivity.
      * (* the first queued writer acquires *)
        destruct (Hq w) as (q & Hn & _ & _); [left; reflexivity|].
        exists w. unfold step. rewrite Hn, Ew, Er, Eq, Nat.eqb_refl. eexists. reflexivity.
    + (* a reader holds the lock: it can release it *)
      assert (Hin0 : In r (r :: rs)) by (left; reflexivity).
      pose proof (Hr r Hin0) as Hlt. assert (Hin : holdsR (lk c) r = true) by (unfold holdsR; rewrite Er; cbn; rewrite Nat.eqb_refl; reflexivity).
      destruct (nth_error (progs c) r) as [p|] eqn:Ep; [|apply nth_error_None in Ep; lia].
      destruct (Ht r p Ep) as [(_ & _ & q & -> & _)|[(N & _)|(N & _)]]; try congruence.
      exists r. unfold step. rewrite Ep. eexists. reflexivity.
Qed.

(** the initial configuration of non-nested programs is consistent *)
Theorem initial_consistent ps : Forall phases ps ->
  Consistent {| lk := {| readers := []; writer := None; waiting := [] |}; progs := ps |}.
Proof.
  intros H. constructor; cbn.
  - intros t p Hn. right. right. repeat split; [discriminate|]. rewrite Forall_forall in H. apply H. apply (nth_error_In _ _ Hn).
  - intros t [].
  - discriminate.
  - congruence.
  - intros t [].
  - constructor.
  - constructor.
Qed.

(** ---------- preservation: every reachable configuration is consistent ---------- *)
Lemma nth_set_prog_eq l : forall t p, t < length l -> nth_error (set_prog t p l) t = Some p.
Proof. induction l as [|x r IH]; intros [|t] p H; cbn in *; try lia; [reflexivity|apply IH; lia]. Qed.
Lemma nth_set_prog_neq l : forall t t' p, t <> t' -> nth_error (set_prog t p l) t' = nth_error l t'.
Proof.
  induction l as [|x r IH]; intros [|t] [|t'] p H; cbn; try reflexivity; try congruence.
  apply IH. congruence.
Qed.
Lemma length_set_prog l : forall t p, length (set_prog t p l) = length l.
Proof. induction l as [|x r IH]; intros [|t] p; cbn; try reflexivity. rewrite IH. reflexivity. Qed.

Lemma in_remove1 t l x : x <> t -> (In x (remove1 t l) <-> In x l).
Proof.
  intros Hne. induction l as [|a r IH]; cbn; [tauto|]. destruct (Nat.eqb_spec t a) as [->|E]; cbn; [|rewrite IH]; intuition congruence.
Qed.
Lemma notin_remove1 t l : NoDup l -> ~ In t (remove1 t l).
Proof.
  induction l as [|a r IH]; intros H; cbn; [tauto|]. inversion H; subst.
  destruct (Nat.eqb_spec t a) as [->|E]; [assumption|]. cbn. intros [H0|H0]; [congruence|]. apply IH; assumption.
Qed.
Lemma nodup_remove1 t l : NoDup l -> NoDup (remove1 t l).
Proof.
  induction l as [|a r IH]; intros H; cbn; [constructor|]. inversion H; subst.
  destruct (Nat.eqb_spec t a); [assumption|]. constructor; [|apply IH; assumption].
  intros H0. destruct (Nat.eq_dec a t) as [->|Hne]; [congruence|]. apply (in_remove1 t r a Hne) in H0. contradiction.
Qed.
Lemma holdsR_false_iff s t : holdsR s t = false <-> ~ In t (readers s).
Proof. rewrite <- holdsR_in. destruct (holdsR s t); split; congruence. Qed.

Lemma phases_head p a q : phases p -> p = a :: q ->
  (a = AcqR /\ exists q', q = RelR :: q' /\ phases q') \/ (a = AcqW /\ exists q', q = RelW :: q' /\ phases q').
Proof.
  intros H E. destruct H as [|p0 Hp0|p0 Hp0]; [discriminate| |]; inversion E; subst; [left|right]; eauto.
Qed.

Theorem step_consistent c t c' : Consistent c -> step c t = Some c' -> Consistent c'.
Proof.
  intros [Ht Hr Hw He Hq Nr Nw] Hs. unfold step in Hs.
  destruct (nth_error (progs c) t) as [[|a rest]|] eqn:Ep; try discriminate.
  assert (Hlt : t < length (progs c)) by (apply nth_error_Some; congruence).
  pose proof (Ht t _ Ep) as Ok.
  destruct a.
  - (* AcqR *)
    destruct (writer (lk c)) eqn:Ew; [discriminate|]. destruct (waiting (lk c)) eqn:Eq; [|discriminate].
    inversion Hs; subst c'; clear Hs.
    destruct Ok as [(_ & _ & q & E & _)|[(_ & _ & q & E & _)|(Hh & _ & Hp)]]; try discriminate.
    destruct (phases_head _ _ _ Hp eq_refl) as [(_ & q' & -> & Hq')|(E & _)]; [|discriminate].
    apply holdsR_false_iff in Hh.
    constructor; cbn [lk progs readers writer waiting].
    + intros t' p Hn. destruct (Nat.eq_dec t t') as [<-|Hne].
      * rewrite nth_set_prog_eq in Hn by exact Hlt. inversion Hn; subst. left.
        split; [apply holdsR_in; left; reflexivity|]. split; [discriminate|]. eauto.
      * rewrite nth_set_prog_neq in Hn by exact Hne. specialize (Ht t' p Hn).
        assert (HH : holdsR {| readers := t :: readers (lk c); writer := None; waiting := [] |} t' = holdsR (lk c) t').
        { unfold holdsR. cbn. destruct (Nat.eqb_spec t' t); [congruence|reflexivity]. }
        unfold thread_ok in *. rewrite HH. cbn [writer]. rewrite Ew in Ht. exact Ht.
    + intros t' [<-|H]; rewrite length_set_prog; [exact Hlt|apply Hr; exact H].
    + discriminate.
    + reflexivity.
    + intros t' [].
    + constructor; assumption.
    + constructor.
  - (* RelR *)
    inversion Hs; subst c'; clear Hs.
    destruct Ok as [(Hh & Hwn & q & E & Hq')|[(_ & _ & q & E & _)|(_ & _ & Hp)]]; try discriminate.
    2:{ inversion Hp. }
    inversion E; subst q. apply holdsR_in in Hh.
    constructor; cbn [lk progs readers writer waiting].
    + intros t' p Hn. destruct (Nat.eq_dec t t') as [<-|Hne].
      * rewrite nth_set_prog_eq in Hn by exact Hlt. inversion Hn; subst. right. right.
        split; [apply holdsR_false_iff; cbn; apply notin_remove1; exact Nr|]. split; [exact Hwn|exact Hq'].
      * rewrite nth_set_prog_neq in Hn by exact Hne. specialize (Ht t' p Hn).
        assert (HH : holdsR {| readers := remove1 t (readers (lk c)); writer := writer (lk c); waiting := waiting (lk c) |} t' = holdsR (lk c) t').
        { destruct (holdsR (lk c) t') eqn:E1.
          - apply holdsR_in. cbn. apply in_remove1; [congruence|]. apply holdsR_in. exact E1.
          - apply holdsR_false_iff. cbn. intros H. apply in_remove1 in H; [|congruence]. apply holdsR_false_iff in E1. contradiction. }
        unfold thread_ok in *. rewrite HH. exact Ht.
    + intros t' H. rewrite length_set_prog. apply Hr. destruct (Nat.eq_dec t' t) as [->|Hne]; [exact Hh|]. apply (in_remove1 t _ t' Hne). exact H.
    + intros t' H. destruct (Hw t' H) as [H1 H2]. rewrite H2 in Hh. destruct Hh.
    + intros _. destruct (writer (lk c)) eqn:Ew; [|reflexivity]. destruct (Hw n eq_refl) as [_ H2]. rewrite H2 in Hh. destruct Hh.
    + intros t' H. destruct (Hq t' H) as (q & Hn & Hh' & Hw').
      assert (t' <> t) by (intros ->; rewrite Ep in Hn; discriminate).
      exists q. rewrite nth_set_prog_neq by congruence. split; [exact Hn|]. split; [|exact Hw'].
      apply holdsR_false_iff. cbn. intros H1. apply in_remove1 in H1; [|assumption]. apply holdsR_false_iff in Hh'. contradiction.
    + apply nodup_remove1. exact Nr.
    + exact Nw.
  - (* AcqW *)
    destruct (writer (lk c)) eqn:Ew; [discriminate|]. destruct (readers (lk c)) eqn:Er; [|discriminate].
    destruct Ok as [(_ & _ & q & E & _)|[(_ & N & _)|(Hh & _ & Hp)]]; [discriminate E|congruence|].
    destruct (phases_head _ _ _ Hp eq_refl) as [(E & _)|(_ & q' & -> & Hq')]; [discriminate|].
    assert (KEY : forall ws, (forall t', In t' ws -> In t' (waiting (lk c))) -> NoDup ws -> ~ In t ws ->
              Consistent {| lk := {| readers := []; writer := Some t; waiting := ws |}; progs := set_prog t (RelW :: q') (progs c) |}).
    { intros ws Hsub Hnd Hnin. constructor; cbn [lk progs readers writer waiting].
      + intros t' p Hn. destruct (Nat.eq_dec t t') as [<-|Hne].
        * rewrite nth_set_prog_eq in Hn by exact Hlt. inversion Hn; subst. right. left.
          split; [reflexivity|]. split; [reflexivity|]. eauto.
        * rewrite nth_set_prog_neq in Hn by exact Hne. specialize (Ht t' p Hn).
          unfold thread_ok in *. unfold holdsR in *. cbn [readers writer]. rewrite Er, Ew in Ht. cbn in Ht |- *.
          destruct Ht as [(F & _)|[(_ & F & _)|(_ & _ & P)]]; try discriminate.
          right. right. split; [reflexivity|]. split; [congruence|exact P].
      + intros t' [].
      + intros t' E. inversion E; subst. rewrite length_set_prog. split; [exact Hlt|reflexivity].
      + congruence.
      + intros t' H. destruct (Hq t' (Hsub t' H)) as (q & Hn & _ & _).
        assert (t' <> t) by (intros ->; contradiction).
        exists q. rewrite nth_set_prog_neq by congruence. split; [exact Hn|]. split; [reflexivity|congruence].
      + constructor.
      + exact Hnd. }
    destruct (waiting (lk c)) as [|w ws] eqn:Eq.
    + inversion Hs; subst c'. apply KEY; [intros t' []|constructor|intros []].
    + destruct (Nat.eqb_spec w t) as [->|Hne]; [|discriminate]. inversion Hs; subst c'.
      inversion Nw; subst. apply KEY; [intros t' H; right; exact H|assumption|assumption].
  - (* RelW *)
    inversion Hs; subst c'; clear Hs.
    destruct Ok as [(_ & _ & q & E & _)|[(Hh & Hwt & q & E & Hq')|(_ & _ & Hp)]]; try discriminate.
    2:{ inversion Hp. }
    inversion E; subst q. destruct (Hw t Hwt) as [_ Hre].
    constructor; cbn [lk progs readers writer waiting].
    + intros t' p Hn. destruct (Nat.eq_dec t t') as [<-|Hne].
      * rewrite nth_set_prog_eq in Hn by exact Hlt. inversion Hn; subst. right. right.
        split; [exact Hh|]. split; [discriminate|exact Hq'].
      * rewrite nth_set_prog_neq in Hn by exact Hne. specialize (Ht t' p Hn).
        unfold thread_ok in *. unfold holdsR in *. cbn [readers writer]. rewrite Hwt in Ht.
        destruct Ht as [(F & _)|[(_ & F & _)|(A & _ & P)]].
        -- rewrite Hre in F. discriminate.
        -- inversion F. congruence.
        -- right. right. split; [exact A|]. split; [discriminate|exact P].
    + intros t' H. rewrite length_set_prog. apply Hr. exact H.
    + discriminate.
    + reflexivity.
    + intros t' H. destruct (Hq t' H) as (q & Hn & Hh' & Hw').
      assert (t' <> t) by (intros ->; rewrite Ep in Hn; discriminate).
      exists q. rewrite nth_set_prog_neq by congruence. split; [exact Hn|]. split; [exact Hh'|discriminate].
    + exact Nr.
    + exact Nw.
Qed.

Theorem register_consistent c t : Consistent c -> Consistent (register c t).
Proof.
  intros HC. unfold register. destruct (nth_error (progs c) t) as [[|[] q]|] eqn:Ep; try exact HC.
  destruct (is_waiting (lk c) t) eqn:Ewt; [exact HC|].
  destruct HC as [Ht Hr Hw He Hq Nr Nw].
  assert (Hnot : ~ In t (waiting (lk c))).
  { intros H. assert (X : is_waiting (lk c) t = true); [|congruence].
    unfold is_waiting. apply existsb_exists. exists t. split; [exact H|apply Nat.eqb_refl]. }
  pose proof (Ht t _ Ep) as Ok.
  constructor; cbn [lk progs readers writer waiting]; try assumption.
  - intros t' H. apply in_app_or in H. destruct H as [H|[<-|[]]].
    + destruct (Hq t' H) as (q0 & A & B & C). exists q0. unfold holdsR in *. cbn [readers writer]. tauto.
    + exists q. split; [exact Ep|].
      destruct Ok as [(_ & _ & q1 & E & _)|[(_ & _ & q1 & E & _)|(A & B & _)]]; try discriminate.
      unfold holdsR in *. cbn [readers writer]. tauto.
  - clear - Nw Hnot. induction (waiting (lk c)) as [|a r IH]; cbn; [constructor; [intros []|constructor]|].
    inversion Nw; subst. constructor.
    + intros H. apply in_app_or in H. destruct H as [H|[<-|[]]]; [contradiction|]. apply Hnot. left. reflexivity.
    + apply IH; [assumption|]. intros H. apply Hnot. right. exact H.
Qed.

(** any interleaving of progress steps and registrations *)
Inductive sched := SStep (t : nat) | SReg (t : nat).
Definition exec1 (c : conf) (s : sched) : conf :=
  match s with SStep t => match step c t with Some c' => c' | None => c end | SReg t => register c t end.

Theorem reachable_consistent ps l : Forall phases ps ->
  Consistent (fold_left exec1 l {| lk := {| readers := []; writer := None; waiting := [] |}; progs := ps |}).
Proof.
  intros H. pose proof (initial_consistent ps H) as HC. revert HC. generalize {| lk := {| readers := []; writer := None; waiting := [] |}; progs := ps |}.
  induction l as [|s t IH]; intros c HC; [exact HC|]. cbn [fold_left]. apply IH.
  destruct s as [x|x]; cbn [exec1].
  - destruct (step c x) eqn:E; [apply (step_consistent c x c0 HC E)|exact HC].
  - apply register_consistent. exact HC.
Qed.

(** NO DEADLOCK: for any number of threads running non-nested programs and ANY interleaving of
    their steps, as long as some thread is unfinished some thread can make progress *)
Theorem no_deadlock ps l : Forall phases ps ->
  let c := fold_left exec1 l {| lk := {| readers := []; writer := None; waiting := [] |}; progs := ps |} in
  unfinished c -> exists t c', step c t = Some c'.
Proof. intros H c U. apply progress; [apply reachable_consistent; exact H|exact U]. Qed.

(** NESTED read acquisition against one waiting writer: a reachable state where nobody can move.
    Thread 0: read lock taken twice (the second request comes while the first is held);
    thread 1: a writer.  After thread 0's first acquisition and thread 1's registration: *)
Definition nested_conf : conf :=
  {| lk := {| readers := [0]; writer := None; waiting := [1] |};
     progs := [[AcqR; RelR; RelR]; [AcqW; RelW]] |}.

Theorem nested_read_deadlocks :
  (* reached from the initial state by a progress step of thread 0 and the registration of thread 1 *)
  (exists c1, step {| lk := {| readers := []; writer := None; waiting := [] |};
                      progs := [[AcqR; AcqR; RelR; RelR]; [AcqW; RelW]] |} 0 = Some c1 /\
              register c1 1 = nested_conf) /\
  unfinished nested_conf /\ forall t, step nested_conf t = None.
Proof.
  split; [eexists; split; reflexivity|]. split; [exists 0, AcqR, [RelR; RelR]; reflexivity|].
  intros [|[|t]]; [reflexivity|reflexivity|]. unfold step. cbn. destruct t; reflexivity.
Qed.
