(** Model/Merge2D.v — (F) the binary operations of the range-2D path (src/ranges/ranges2d.rs
    Ranges2D::merge with op_union / op_intersection / op_difference), used by the store for the
    ST-MOC intersection, union and difference:
      a sweep over the bounds of the two operands' time ranges (index parity = start / end, as in the
      1-D merge); at each bound c the operator is evaluated on (in_t1, in_t2, coverage of the current
      entry of each operand) and gives the coverage valid from c to the next bound, or None;
      an entry is opened when a non-empty coverage appears, closed (its time range pushed) when the
      coverage becomes None / empty / a different list, the time ranges and the coverages being
      accumulated in two separate vectors; finally the two vectors are zipped, the empty time ranges
      (bounds shared by the operands are visited one at a time) dropped and touching entries with
      equal coverages fused.
    Theorem: for every operator whose result at (in1, in2, s1, s2) covers x exactly when
    F (in1 && s1 covers x) (in2 && s2 covers x), F false false = false, the result covers (t, x)
    exactly when F (A covers (t, x)) (B covers (t, x)); its entries are non-empty in both
    dimensions and increasing / disjoint in time, with no two fusable neighbours. *)
From Coq Require Import List NArith Arith Lia Bool.
From MOC.Base Require Import RangeSet.
From MOC.Model Require Import Qty Query Build Repr Sweep2D.
Import ListNotations.
Open Scope N_scope.

(** ---------- operand state: (next bound is a start?, remaining entries) ---------- *)
Definition nextb (r : bool) (l : list entry) : option N :=
  match l with [] => None | e :: _ => Some (if r then fst (fst e) else snd (fst e)) end.
Definition adv (r : bool) (l : list entry) : bool * list entry := if r then (false, l) else (true, tl l).
Definition curs (l : list entry) : list range := match l with e :: _ => snd e | [] => [] end.

(** coverage of the operand state at time t *)
Fixpoint vat (r : bool) (l : list entry) (t : N) : list range :=
  match l with
  | [] => []
  | e :: tl => if r then (if t <? fst (fst e) then [] else if t <? snd (fst e) then snd e else vat true tl t)
               else (if t <? snd (fst e) then snd e else vat true tl t)
  end.

Section Merge2.
(** the operator, as the three op_* functions: None or a coverage *)
Variable op : bool -> bool -> list range -> list range -> option (list range).
Variable F : bool -> bool -> bool.
Definition optr (o : option (list range)) : list range := match o with Some s => s | None => [] end.
Hypothesis F_ff : F false false = false.
Hypothesis op_sem : forall in1 in2 s1 s2 x, Canon s1 -> Canon s2 ->
  covb (optr (op in1 in2 s1 s2)) x = F (in1 && covb s1 x) (in2 && covb s2 x).
Hypothesis op_canon : forall in1 in2 s1 s2, Canon s1 -> Canon s2 -> Canon (optr (op in1 in2 s1 s2)).

(** ---------- the accumulators of the code ---------- *)
Record acc := { a_ts : list range; a_ss : list (list range); a_last : option N; a_prev : option (list range) }.

Definition emit (a : acc) (c : N) (s : option (list range)) : acc :=
  match a_prev a with
  | Some p =>
      let lt := match a_last a with Some v => v | None => 0 end in
      match s with
      | Some cur =>
          if isnil cur then {| a_ts := a_ts a ++ [(lt, c)]; a_ss := a_ss a; a_last := None; a_prev := None |}
          else if negb (ranges_eqb p cur) then {| a_ts := a_ts a ++ [(lt, c)]; a_ss := a_ss a ++ [cur]; a_last := Some c; a_prev := Some cur |}
          else a
      | None => {| a_ts := a_ts a ++ [(lt, c)]; a_ss := a_ss a; a_last := None; a_prev := None |}
      end
  | None =>
      match s with
      | Some cur => if negb (isnil cur) then {| a_ts := a_ts a; a_ss := a_ss a ++ [cur]; a_last := Some c; a_prev := Some cur |} else a
      | None => a
      end
  end.

(** one iteration of the while loop: the bound processed, the operator's value from that bound on,
    and the two operand states afterwards; None when both operands are exhausted *)
Definition step1 (r1 : bool) (l1 : list entry) (r2 : bool) (l2 : list entry)
  : option (N * option (list range) * (bool * list entry) * (bool * list entry)) :=
  match nextb r1 l1, nextb r2 l2 with
  | None, None => None
  | None, Some v2 => Some (v2, op false r2 (curs l1) (curs l2), (r1, l1), adv r2 l2)
  | Some v1, None => Some (v1, op r1 false (curs l1) (curs l2), adv r1 l1, (r2, l2))
  | Some v1, Some v2 =>
      let c := N.min v1 v2 in
      let in1 := (r1 && (c =? v1)) || (negb r1 && (c <? v1)) in
      let in2 := (r2 && (c =? v2)) || (negb r2 && (c <? v2)) in
      Some (c, op in1 in2 (curs l1) (curs l2),
            (if c =? v1 then adv r1 l1 else (r1, l1)), (if c =? v2 then adv r2 l2 else (r2, l2)))
  end.

Fixpoint loop (fuel : nat) (r1 : bool) (l1 : list entry) (r2 : bool) (l2 : list entry) (a : acc) : acc :=
  match fuel with
  | O => a
  | S f =>
      match step1 r1 l1 r2 l2 with
      | None => a
      | Some (c, s, (r1', l1'), (r2', l2')) => loop f r1' l1' r2' l2' (emit a c s)
      end
  end.

(** zip, drop the empty time ranges, fuse touching entries with equal coverages: the last element of
    the output vectors (x.last_mut(), y.last()) is the pending entry [pend] *)
Fixpoint post (pend : option entry) (l : list entry) : list entry :=
  match l with
  | [] => match pend with Some e => [e] | None => [] end
  | (t, s) :: tl =>
      if fst t <? snd t then
        match pend with
        | Some (pt, ps) => if (snd pt =? fst t) && ranges_eqb ps s then post (Some ((fst pt, snd t), ps)) tl
                           else (pt, ps) :: post (Some (t, s)) tl
        | None => post (Some (t, s)) tl
        end
      else post pend tl
  end.

Definition merge2 (A B : list entry) : list entry :=
  let a := loop (2 * length A + 2 * length B + 1) true A true B {| a_ts := []; a_ss := []; a_last := None; a_prev := None |} in
  post None (combine (a_ts a) (a_ss a)).

(** ---------- a simpler accumulator: closed entries + the open one ---------- *)
Record sacc := { closed : list entry; opened : option (N * list range) }.
Definition semit (a : sacc) (c : N) (s : option (list range)) : sacc :=
  match opened a with
  | Some (lt, p) =>
      match s with
      | Some cur =>
          if isnil cur then {| closed := closed a ++ [((lt, c), p)]; opened := None |}
          else if negb (ranges_eqb p cur) then {| closed := closed a ++ [((lt, c), p)]; opened := Some (c, cur) |}
          else a
      | None => {| closed := closed a ++ [((lt, c), p)]; opened := None |}
      end
  | None =>
      match s with
      | Some cur => if negb (isnil cur) then {| closed := closed a; opened := Some (c, cur) |} else a
      | None => a
      end
  end.

Definition Rel (a : acc) (b : sacc) : Prop :=
  a_ts a = map fst (closed b) /\
  a_ss a = map snd (closed b) ++ (match opened b with Some (_, p) => [p] | None => [] end) /\
  a_last a = option_map fst (opened b) /\ a_prev a = option_map snd (opened b).

Lemma emit_rel a b c s : Rel a b -> Rel (emit a c s) (semit b c s).
Proof.
  intros (R1 & R2 & R3 & R4). unfold emit, semit. rewrite R4.
  destruct (opened b) as [[lt p]|] eqn:O; cbn [option_map snd fst] in *.
  - rewrite R3. cbn [option_map fst].
    assert (Close : Rel {| a_ts := a_ts a ++ [(lt, c)]; a_ss := a_ss a; a_last := None; a_prev := None |}
                        {| closed := closed b ++ [((lt, c), p)]; opened := None |}).
    { unfold Rel. cbn [a_ts a_ss a_last a_prev closed opened option_map]. rewrite R1, R2, !map_app. cbn [map fst snd].
      rewrite app_nil_r. repeat split; reflexivity. }
    destruct s as [cur|]; [|exact Close]. destruct (isnil cur); [exact Close|].
    destruct (negb (ranges_eqb p cur)).
    + unfold Rel. cbn [a_ts a_ss a_last a_prev closed opened option_map fst snd]. rewrite R1, R2, !map_app. cbn [map fst snd].
      repeat split; reflexivity.
    + unfold Rel. rewrite O. cbn [option_map fst snd]. repeat split; assumption.
  - assert (Same : Rel a b) by (unfold Rel; rewrite O; cbn [option_map]; repeat split; assumption).
    destruct s as [cur|]; [|exact Same]. destruct (negb (isnil cur)); [|exact Same].
    unfold Rel. cbn [a_ts a_ss a_last a_prev closed opened option_map fst snd]. rewrite R1, R2. rewrite app_nil_r. repeat split; reflexivity.
Qed.

(** ---------- operand states ---------- *)
(** at position [pos] (the last bound processed): outside (r = true) every remaining entry starts at
    or after pos; inside (r = false) the head entry contains pos *)
Definition OpOK (pos : N) (r : bool) (l : list entry) : Prop :=
  if r then tchain pos l
  else match l with
       | [] => False
       | e :: tl => fst (fst e) <= pos < snd (fst e) /\ snd e <> [] /\ Canon (snd e) /\ tchain (snd (fst e)) tl
       end.

Lemma tchain_weaken l : forall lo lo', lo' <= lo -> tchain lo l -> tchain lo' l.
Proof. destruct l as [|e t]; intros lo lo' H Ht; [exact I|]. cbn [tchain] in *. destruct Ht as (A & B). split; [lia|exact B]. Qed.

Lemma curs_canon pos r l : OpOK pos r l -> Canon (curs l).
Proof.
  unfold OpOK, curs. destruct l as [|e t]; [intros _; exact I|]. destruct r.
  - cbn [tchain]. intros (_ & _ & _ & C & _). exact C.
  - intros (_ & _ & C & _). exact C.
Qed.

(** the bound about to be processed is not below pos *)
Lemma nextb_ge pos r l v : OpOK pos r l -> nextb r l = Some v -> pos <= v.
Proof.
  unfold OpOK, nextb. destruct l as [|e t]; [discriminate|]. destruct r; intros H E; inversion E; subst.
  - cbn [tchain] in H. lia.
  - destruct H as ((A & B) & _). lia.
Qed.

(** advancing at one's own bound c, or staying when c is below it *)
Lemma adv_ok pos r l c : OpOK pos r l -> nextb r l = Some c -> OpOK c (fst (adv r l)) (snd (adv r l)).
Proof.
  unfold OpOK, nextb, adv. destruct l as [|e t]; [discriminate|]. destruct r; intros H E; inversion E; subst; cbn [fst snd tl].
  - cbn [tchain] in H. destruct H as (A & B & C & D & T). repeat split; try assumption; lia.
  - destruct H as (_ & _ & _ & T). exact T.
Qed.
Lemma stay_ok pos r l c v : OpOK pos r l -> nextb r l = Some v -> pos <= c -> c < v -> OpOK c r l.
Proof.
  unfold OpOK, nextb. destruct l as [|e t]; [discriminate|]. destruct r; intros H E Hc Hv; inversion E; subst.
  - cbn [tchain] in *. destruct H as (A & B). split; [lia|exact B].
  - destruct H as ((A & B) & R). split; [lia|exact R].
Qed.
Lemma done_ok pos r l c : OpOK pos r l -> nextb r l = None -> OpOK c r l.
Proof. unfold OpOK, nextb. destruct l as [|e t]; [|discriminate]. destruct r; intros H _; [exact I|destruct H]. Qed.

(** coverage at t >= c is not changed by advancing at c *)
Lemma vat_adv r l c t : nextb r l = Some c -> c <= t -> vat (fst (adv r l)) (snd (adv r l)) t = vat r l t.
Proof.
  unfold nextb, adv. destruct l as [|e t0]; [discriminate|]. destruct r; intros E H; inversion E; subst; cbn [fst snd tl vat].
  - destruct (N.ltb_spec t (fst (fst e))); [lia|reflexivity].
  - destruct (N.ltb_spec t (snd (fst e))); [lia|reflexivity].
Qed.

(** between the position and the next bound the coverage is the current one when inside, nothing outside *)
Lemma vat_now pos r l t : OpOK pos r l -> pos <= t -> (forall v, nextb r l = Some v -> t < v) ->
  vat r l t = if r then [] else curs l.
Proof.
  unfold OpOK, nextb, curs. destruct l as [|e t0]; [destruct r; intros; reflexivity|]. destruct r; intros H Hp Hn; cbn [vat].
  - specialize (Hn _ eq_refl). destruct (N.ltb_spec t (fst (fst e))); [reflexivity|lia].
  - specialize (Hn _ eq_refl). destruct (N.ltb_spec t (snd (fst e))); [reflexivity|lia].
Qed.

(** beyond every remaining entry nothing is covered *)
Lemma vat_nil r t : vat r [] t = [].
Proof. reflexivity. Qed.

Fixpoint sloop (fuel : nat) (r1 : bool) (l1 : list entry) (r2 : bool) (l2 : list entry) (a : sacc) : sacc :=
  match fuel with
  | O => a
  | S f =>
      match step1 r1 l1 r2 l2 with
      | None => a
      | Some (c, s, (r1', l1'), (r2', l2')) => sloop f r1' l1' r2' l2' (semit a c s)
      end
  end.

Lemma loop_rel : forall fuel r1 l1 r2 l2 a b, Rel a b -> Rel (loop fuel r1 l1 r2 l2 a) (sloop fuel r1 l1 r2 l2 b).
Proof.
  induction fuel as [|f IH]; intros r1 l1 r2 l2 a b R; cbn [loop sloop]; [exact R|].
  destruct (step1 r1 l1 r2 l2) as [[[[c s] [r1' l1']] [r2' l2']]|]; [|exact R]. apply IH. apply emit_rel. exact R.
Qed.

(** remaining work: two bounds per remaining entry, one less when inside the head *)
Definition meas (r : bool) (l : list entry) : nat := (2 * length l - (if r then 0 else 1))%nat.

Lemma step1_sound pos r1 l1 r2 l2 c s r1' l1' r2' l2' :
  OpOK pos r1 l1 -> OpOK pos r2 l2 -> step1 r1 l1 r2 l2 = Some (c, s, (r1', l1'), (r2', l2')) ->
  pos <= c /\ OpOK c r1' l1' /\ OpOK c r2' l2' /\
  (forall t, c <= t -> vat r1' l1' t = vat r1 l1 t) /\ (forall t, c <= t -> vat r2' l2' t = vat r2 l2 t) /\
  (forall t, pos <= t -> t < c -> vat r1 l1 t = (if r1 then [] else curs l1) /\ vat r2 l2 t = (if r2 then [] else curs l2)) /\
  s = op (negb r1') (negb r2') (curs l1) (curs l2) /\
  (r1' = false -> curs l1' = curs l1) /\ (r2' = false -> curs l2' = curs l2) /\
  (meas r1' l1' + meas r2' l2' < meas r1 l1 + meas r2 l2)%nat.
Proof.
  intros O1 O2 E. unfold step1 in E.
  assert (M : forall pos r l v, OpOK pos r l -> nextb r l = Some v -> (meas (fst (adv r l)) (snd (adv r l)) < meas r l)%nat).
  { clear. intros pos r l v H Hn. unfold nextb in Hn. destruct l as [|e t]; [discriminate|]. unfold adv, meas. destruct r; cbn [fst snd tl length]; lia. }
  assert (EX : forall r l, OpOK pos r l -> nextb r l = None -> r = true /\ l = []).
  { intros r l H Hn. unfold nextb in Hn. destruct l; [|discriminate]. destruct r; [split; reflexivity|destruct H]. }
  assert (INS : forall r l v, OpOK pos r l -> nextb r l = Some v -> fst (adv r l) = false -> curs (snd (adv r l)) = curs l).
  { intros r l v H Hn Hf. unfold adv in *. destruct r; cbn [fst snd] in *; [reflexivity|discriminate]. }
  destruct (nextb r1 l1) as [v1|] eqn:N1; destruct (nextb r2 l2) as [v2|] eqn:N2.
  - (* both have a next bound *)
    cbv zeta in E. pose proof (nextb_ge pos r1 l1 v1 O1 N1) as G1. pose proof (nextb_ge pos r2 l2 v2 O2 N2) as G2.
    remember (N.min v1 v2) as c0 eqn:Ec.
    assert (Now : forall t, pos <= t -> t < c0 -> vat r1 l1 t = (if r1 then [] else curs l1) /\ vat r2 l2 t = (if r2 then [] else curs l2)).
    { intros t A B. split; [apply (vat_now pos r1 l1 t O1 A); intros v Hv; rewrite N1 in Hv; inversion Hv; subst; lia|
                             apply (vat_now pos r2 l2 t O2 A); intros v Hv; rewrite N2 in Hv; inversion Hv; subst; lia]. }
    destruct (N.eqb_spec c0 v1) as [E1|E1]; destruct (N.eqb_spec c0 v2) as [E2|E2]; try (exfalso; lia).
    + (* both advance *)
      destruct (adv r1 l1) as [a1 b1] eqn:A1. destruct (adv r2 l2) as [a2 b2] eqn:A2. inversion E; subst c s r1' l1' r2' l2'. clear E.
      assert (v1 = v2) by lia. subst v2. subst v1.
      pose proof (adv_ok pos r1 l1 c0 O1 N1) as K1. rewrite A1 in K1. pose proof (adv_ok pos r2 l2 c0 O2 N2) as K2. rewrite A2 in K2. cbn [fst snd] in K1, K2.
      split; [lia|]. split; [exact K1|]. split; [exact K2|].
      split; [intros t Ht; pose proof (vat_adv r1 l1 c0 t N1 Ht) as V; rewrite A1 in V; exact V|].
      split; [intros t Ht; pose proof (vat_adv r2 l2 c0 t N2 Ht) as V; rewrite A2 in V; exact V|].
      split; [exact Now|].
      split; [|split; [|split]].
      * rewrite N.ltb_irrefl. f_equal; unfold adv in A1, A2; destruct r1, r2; inversion A1; inversion A2; reflexivity.
      * intros Hf. pose proof (INS r1 l1 c0 O1 N1) as Q. rewrite A1 in Q. exact (Q Hf).
      * intros Hf. pose proof (INS r2 l2 c0 O2 N2) as Q. rewrite A2 in Q. exact (Q Hf).
      * pose proof (M pos r1 l1 c0 O1 N1) as M1. pose proof (M pos r2 l2 c0 O2 N2) as M2. rewrite A1 in M1. rewrite A2 in M2. cbn [fst snd] in M1, M2. lia.
    + (* only operand 1 advances *)
      destruct (adv r1 l1) as [a1 b1] eqn:A1. inversion E; subst c s r1' l1' r2' l2'. clear E.
      assert (Hlt : v1 < v2) by lia. subst v1.
      pose proof (adv_ok pos r1 l1 c0 O1 N1) as K1. rewrite A1 in K1. cbn [fst snd] in K1.
      split; [lia|]. split; [exact K1|]. split; [exact (stay_ok pos r2 l2 c0 v2 O2 N2 ltac:(lia) Hlt)|].
      split; [intros t Ht; pose proof (vat_adv r1 l1 c0 t N1 Ht) as V; rewrite A1 in V; exact V|].
      split; [intros; reflexivity|]. split; [exact Now|].
      split; [|split; [|split]].
      * rewrite N.ltb_irrefl. destruct (N.ltb_spec c0 v2) as [_|?]; [|lia]. destruct (N.eqb_spec c0 v2); [lia|].
        f_equal; [unfold adv in A1; destruct r1; inversion A1; reflexivity|destruct r2; reflexivity].
      * intros Hf. pose proof (INS r1 l1 c0 O1 N1) as Q. rewrite A1 in Q. exact (Q Hf).
      * intros _. reflexivity.
      * pose proof (M pos r1 l1 c0 O1 N1) as M1. rewrite A1 in M1. cbn [fst snd] in M1. lia.
    + (* only operand 2 advances *)
      destruct (adv r2 l2) as [a2 b2] eqn:A2. inversion E; subst c s r1' l1' r2' l2'. clear E.
      assert (Hlt : v2 < v1) by lia. subst v2.
      pose proof (adv_ok pos r2 l2 c0 O2 N2) as K2. rewrite A2 in K2. cbn [fst snd] in K2.
      split; [lia|]. split; [exact (stay_ok pos r1 l1 c0 v1 O1 N1 ltac:(lia) Hlt)|]. split; [exact K2|].
      split; [intros; reflexivity|].
      split; [intros t Ht; pose proof (vat_adv r2 l2 c0 t N2 Ht) as V; rewrite A2 in V; exact V|]. split; [exact Now|].
      split; [|split; [|split]].
      * rewrite N.ltb_irrefl. destruct (N.ltb_spec c0 v1) as [_|?]; [|lia]. destruct (N.eqb_spec c0 v1); [lia|].
        f_equal; [destruct r1; reflexivity|unfold adv in A2; destruct r2; inversion A2; reflexivity].
      * intros _. reflexivity.
      * intros Hf. pose proof (INS r2 l2 c0 O2 N2) as Q. rewrite A2 in Q. exact (Q Hf).
      * pose proof (M pos r2 l2 c0 O2 N2) as M2. rewrite A2 in M2. cbn [fst snd] in M2. lia.
  - (* operand 2 exhausted *)
    destruct (EX r2 l2 O2 N2) as [-> ->]. destruct (adv r1 l1) as [a1 b1] eqn:A1. inversion E; subst c s r1' l1' r2' l2'. clear E.
    pose proof (nextb_ge pos r1 l1 v1 O1 N1) as G1. pose proof (adv_ok pos r1 l1 v1 O1 N1) as K1. rewrite A1 in K1. cbn [fst snd] in K1.
    split; [exact G1|]. split; [exact K1|]. split; [exact I|].
    split; [intros t Ht; pose proof (vat_adv r1 l1 v1 t N1 Ht) as V; rewrite A1 in V; exact V|]. split; [intros; reflexivity|].
    split; [intros t A B; split; [apply (vat_now pos r1 l1 t O1 A); intros v Hv; rewrite N1 in Hv; inversion Hv; subst; exact B|reflexivity]|].
    split; [|split; [|split]].
    + f_equal. unfold adv in A1. destruct r1; inversion A1; reflexivity.
    + intros Hf. pose proof (INS r1 l1 v1 O1 N1) as Q. rewrite A1 in Q. exact (Q Hf).
    + intros H; discriminate.
    + pose proof (M pos r1 l1 v1 O1 N1) as M1. rewrite A1 in M1. cbn [fst snd] in M1. lia.
  - (* operand 1 exhausted *)
    destruct (EX r1 l1 O1 N1) as [-> ->]. destruct (adv r2 l2) as [a2 b2] eqn:A2. inversion E; subst c s r1' l1' r2' l2'. clear E.
    pose proof (nextb_ge pos r2 l2 v2 O2 N2) as G2. pose proof (adv_ok pos r2 l2 v2 O2 N2) as K2. rewrite A2 in K2. cbn [fst snd] in K2.
    split; [exact G2|]. split; [exact I|]. split; [exact K2|].
    split; [intros; reflexivity|]. split; [intros t Ht; pose proof (vat_adv r2 l2 v2 t N2 Ht) as V; rewrite A2 in V; exact V|].
    split; [intros t A B; split; [reflexivity|apply (vat_now pos r2 l2 t O2 A); intros v Hv; rewrite N2 in Hv; inversion Hv; subst; exact B]|].
    split; [|split; [|split]].
    + f_equal. unfold adv in A2. destruct r2; inversion A2; reflexivity.
    + intros H; discriminate.
    + intros Hf. pose proof (INS r2 l2 v2 O2 N2) as Q. rewrite A2 in Q. exact (Q Hf).
    + pose proof (M pos r2 l2 v2 O2 N2) as M2. rewrite A2 in M2. cbn [fst snd] in M2. lia.
  - discriminate.
Qed.

(** ---------- the invariant of the sweep ---------- *)
Definition covS (b : sacc) (t x : N) : Prop :=
  covE (closed b) t x \/ exists lt p, opened b = Some (lt, p) /\ lt <= t /\ cov p x.
Definition valb (r1 : bool) (l1 : list entry) (r2 : bool) (l2 : list entry) (x : N) : bool :=
  F (negb r1 && covb (curs l1) x) (negb r2 && covb (curs l2) x).
Definition openb (b : sacc) (x : N) : bool := match opened b with Some (_, p) => covb p x | None => false end.

Section Inv.
Variables A B : list entry.
Definition V (t x : N) : Prop := F (covb (vat true A t) x) (covb (vat true B t) x) = true.

Record J (pos : N) (r1 : bool) (l1 : list entry) (r2 : bool) (l2 : list entry) (b : sacc) : Prop :=
  { j_o1 : OpOK pos r1 l1; j_o2 : OpOK pos r2 l2;
    j_v1 : forall t, pos <= t -> vat r1 l1 t = vat true A t;
    j_v2 : forall t, pos <= t -> vat r2 l2 t = vat true B t;
    j_closed : forall e, In e (closed b) -> snd (fst e) <= pos /\ snd e <> [] /\ Canon (snd e);
    j_open : forall lt p, opened b = Some (lt, p) -> lt <= pos /\ p <> [] /\ Canon p /\ forall e, In e (closed b) -> snd (fst e) <= lt;
    j_cur : forall x, openb b x = valb r1 l1 r2 l2 x;
    j_cov : forall t x, t < pos -> (covS b t x <-> V t x) }.

Lemma covb_nil x : covb [] x = false.
Proof. reflexivity. Qed.

Lemma if_covb (r : bool) (l : list range) x : covb (if r then [] else l) x = negb r && covb l x.
Proof. destruct r; reflexivity. Qed.

Lemma J_step pos r1 l1 r2 l2 b c s r1' l1' r2' l2' :
  J pos r1 l1 r2 l2 b -> step1 r1 l1 r2 l2 = Some (c, s, (r1', l1'), (r2', l2')) ->
  J c r1' l1' r2' l2' (semit b c s).
Proof.
  intros [O1 O2 V1 V2 JC JO CUR COV] E.
  destruct (step1_sound pos r1 l1 r2 l2 c s r1' l1' r2' l2' O1 O2 E) as (Hpc & K1 & K2 & A1 & A2 & Now & Es & C1 & C2 & _).
  assert (Cn1 : Canon (curs l1)) by exact (curs_canon pos r1 l1 O1).
  assert (Cn2 : Canon (curs l2)) by exact (curs_canon pos r2 l2 O2).
  (* the value from c on *)
  assert (NV : forall x, covb (optr s) x = valb r1' l1' r2' l2' x).
  { intros x. rewrite Es, (op_sem _ _ _ _ x Cn1 Cn2). unfold valb.
    destruct r1'; destruct r2'; cbn [negb andb]; try reflexivity; rewrite ?(C1 eq_refl), ?(C2 eq_refl); reflexivity. }
  assert (SC : Canon (optr s)) by (rewrite Es; apply op_canon; assumption).
  (* the value on [pos, c) is the old current value *)
  assert (OV : forall t x, pos <= t -> t < c -> (V t x <-> openb b x = true)).
  { intros t x Hp Hc. unfold V. rewrite <- (V1 t Hp), <- (V2 t Hp). destruct (Now t Hp Hc) as [-> ->].
    rewrite !if_covb. rewrite CUR. unfold valb. reflexivity. }
  assert (ClosedLe : forall e, In e (closed b) -> snd (fst e) <= c) by (intros e He; destruct (JC e He); lia).
  constructor; try assumption.
  - intros t Ht. rewrite (A1 t Ht). apply V1. lia.
  - intros t Ht. rewrite (A2 t Ht). apply V2. lia.
  - (* closed entries *)
    intros e He. unfold semit in He. destruct (opened b) as [[lt p]|] eqn:O.
    + destruct (JO lt p eq_refl) as (L1 & L2 & L3 & L4).
      assert (New : forall e0, In e0 (closed b ++ [((lt, c), p)]) -> snd (fst e0) <= c /\ snd e0 <> [] /\ Canon (snd e0)).
      { intros e0 H0. apply in_app_or in H0. destruct H0 as [H0|[<-|[]]]; [destruct (JC e0 H0) as (X & Y & Z); repeat split; try assumption; lia|].
        cbn [fst snd]. repeat split; try assumption; lia. }
      destruct s as [cur|]; [|exact (New e He)]. destruct (isnil cur); [exact (New e He)|].
      destruct (negb (ranges_eqb p cur)); [exact (New e He)|]. destruct (JC e He) as (X & Y & Z). repeat split; try assumption; lia.
    + assert (Hin : In e (closed b)) by (destruct s as [cur|]; [destruct (negb (isnil cur))|]; exact He).
      destruct (JC e Hin) as (X & Y & Z). repeat split; try assumption; lia.
  - (* the open entry *)
    intros lt0 p0 Ho. unfold semit in Ho |- *. destruct (opened b) as [[lt p]|] eqn:O.
    + destruct (JO lt p eq_refl) as (L1 & L2 & L3 & L4).
      destruct s as [cur|]; [|cbn in Ho; discriminate]. destruct (isnil cur) eqn:Ni; [cbn in Ho; discriminate|].
      destruct (negb (ranges_eqb p cur)) eqn:Q.
      * cbn [opened closed] in Ho |- *. inversion Ho; subst lt0 p0. split; [lia|]. split; [intros K; rewrite K in Ni; discriminate|]. split; [exact SC|].
        intros e He. apply in_app_or in He. destruct He as [He|[<-|[]]]; [exact (ClosedLe e He)|cbn; lia].
      * rewrite O in Ho. inversion Ho; subst lt0 p0. repeat split; try assumption; lia.
    + destruct s as [cur|]; [|rewrite O in Ho; discriminate]. destruct (negb (isnil cur)) eqn:Ni; [|rewrite O in Ho; discriminate].
      cbn [opened closed] in Ho |- *. inversion Ho; subst lt0 p0. split; [lia|]. split; [intros K; rewrite K in Ni; discriminate|]. split; [exact SC|exact ClosedLe].
  - (* the current value *)
    intros x. rewrite <- NV. unfold openb, semit. destruct (opened b) as [[lt p]|] eqn:O.
    + destruct s as [cur|]; [|reflexivity]. destruct (isnil cur) eqn:Ni; [destruct cur; [reflexivity|discriminate]|].
      destruct (negb (ranges_eqb p cur)) eqn:Q; [reflexivity|]. rewrite O. apply negb_false_iff, ranges_eqb_spec in Q. subst cur. reflexivity.
    + destruct s as [cur|]; [|rewrite O; reflexivity]. destruct (negb (isnil cur)) eqn:Ni; [reflexivity|].
      rewrite O. destruct cur; [reflexivity|discriminate].
  - (* covered points below c *)
    intros t x Ht.
    assert (Same : covS (semit b c s) t x <-> covS b t x).
    { unfold covS, semit. destruct (opened b) as [[lt p]|] eqn:O.
      - destruct (JO lt p eq_refl) as (L1 & L2 & L3 & L4).
        assert (Cl : (covE (closed b ++ [((lt, c), p)]) t x \/ (exists lt0 p0, None = Some (lt0, p0) /\ lt0 <= t /\ cov p0 x)) <->
                     (covE (closed b) t x \/ exists lt0 p0, Some (lt, p) = Some (lt0, p0) /\ lt0 <= t /\ cov p0 x)).
        { rewrite covE_app. split.
          - intros [[K|[e [[<-|[]] [[Q1 Q2] Q3]]]]|[? [? [K _]]]]; [left; exact K| |discriminate]. right. exists lt, p. cbn [fst snd] in *. auto.
          - intros [K|[lt0 [p0 [K [Q1 Q2]]]]]; [left; left; exact K|]. inversion K; subst. left. right. exists ((lt0, c), p0). split; [left; reflexivity|].
            split; [unfold inr; cbn [fst snd]; lia|exact Q2]. }
        destruct s as [cur|]; [|exact Cl]. destruct (isnil cur); [exact Cl|]. destruct (negb (ranges_eqb p cur)); [|rewrite O; reflexivity].
        cbn [closed opened]. rewrite covE_app. split.
        + intros [[K|[e [[<-|[]] [[Q1 Q2] Q3]]]]|[lt0 [p0 [K [Q1 Q2]]]]]; [left; exact K| |inversion K; subst; lia]. right. exists lt, p. cbn [fst snd] in *. auto.
        + intros [K|[lt0 [p0 [K [Q1 Q2]]]]]; [left; left; exact K|]. inversion K; subst. left. right. exists ((lt0, c), p0). split; [left; reflexivity|].
          split; [unfold inr; cbn [fst snd]; lia|exact Q2].
      - destruct s as [cur|]; [|rewrite O; reflexivity]. destruct (negb (isnil cur)); [|rewrite O; reflexivity].
        cbn [closed opened]. split; [intros [K|[lt0 [p0 [K [Q1 _]]]]]; [left; exact K|inversion K; subst; lia]|intros [K|[? [? [K _]]]]; [left; exact K|discriminate]]. }
    rewrite Same. destruct (N.lt_ge_cases t pos) as [Lt|Ge]; [exact (COV t x Lt)|].
    rewrite (OV t x Ge Ht). unfold covS, openb. destruct (opened b) as [[lt p]|] eqn:O.
    + destruct (JO lt p eq_refl) as (L1 & L2 & L3 & L4). rewrite covb_spec. split.
      * intros [[e [He [[Q1 Q2] _]]]|[lt0 [p0 [K [_ Q2]]]]]; [destruct (JC e He); lia|inversion K; subst; exact Q2].
      * intros K. right. exists lt, p. split; [reflexivity|split; [lia|exact K]].
    + split; [|discriminate]. intros [[e [He [[Q1 Q2] _]]]|[? [? [K _]]]]; [destruct (JC e He); lia|discriminate].
Qed.

(** weakly increasing closed entries (an entry may be empty in time: bounds shared by the operands) *)
Fixpoint wchain (lo : N) (l : list entry) : Prop :=
  match l with [] => True | e :: t => lo <= fst (fst e) /\ fst (fst e) <= snd (fst e) /\ wchain (snd (fst e)) t end.
Lemma wchain_app l1 : forall lo e, wchain lo l1 -> (forall a, In a l1 -> snd (fst a) <= fst (fst e)) -> lo <= fst (fst e) ->
  fst (fst e) <= snd (fst e) -> wchain lo (l1 ++ [e]).
Proof.
  induction l1 as [|a l1 IH]; intros lo e H Hall Hlo He; cbn [app wchain]; [repeat split; assumption|].
  cbn [wchain] in H. destruct H as (X & Y & Z). repeat split; try assumption.
  apply IH; [exact Z|intros a' Ha'; apply Hall; right; exact Ha'|apply Hall; left; reflexivity|exact He].
Qed.

Lemma J_step_w pos r1 l1 r2 l2 b c s : J pos r1 l1 r2 l2 b -> pos <= c -> wchain 0 (closed b) -> wchain 0 (closed (semit b c s)).
Proof.
  intros Jb Hc W. unfold semit. destruct (opened b) as [[lt p]|] eqn:O.
  - destruct (j_open _ _ _ _ _ _ Jb lt p O) as (L1 & _ & _ & L4).
    assert (Wc : wchain 0 (closed b ++ [((lt, c), p)])) by (apply wchain_app; cbn [fst snd]; try assumption; try lia).
    destruct s as [cur|]; [|exact Wc]. destruct (isnil cur); [exact Wc|]. destruct (negb (ranges_eqb p cur)); [exact Wc|exact W].
  - destruct s as [cur|]; [destruct (negb (isnil cur))|]; exact W.
Qed.

Lemma canon_covers (p : list range) : p <> [] -> Canon p -> exists x, covb p x = true.
Proof.
  destruct p as [|r t]; [congruence|]. intros _ Hc. cbn [Canon sorted_from] in Hc. destruct Hc as (_ & H2 & _).
  exists (fst r). apply covb_spec. exists r. split; [left; reflexivity|unfold inr; lia].
Qed.

Lemma sloop_J : forall fuel pos r1 l1 r2 l2 b, J pos r1 l1 r2 l2 b -> wchain 0 (closed b) ->
  (meas r1 l1 + meas r2 l2 < fuel)%nat ->
  exists pos', J pos' true [] true [] (sloop fuel r1 l1 r2 l2 b) /\ wchain 0 (closed (sloop fuel r1 l1 r2 l2 b)).
Proof.
  induction fuel as [|f IH]; intros pos r1 l1 r2 l2 b Jb W Hf; [lia|]. cbn [sloop].
  destruct (step1 r1 l1 r2 l2) as [[[[c s] [r1' l1']] [r2' l2']]|] eqn:E.
  - destruct (step1_sound pos r1 l1 r2 l2 c s r1' l1' r2' l2' (j_o1 _ _ _ _ _ _ Jb) (j_o2 _ _ _ _ _ _ Jb) E) as (Hpc & _ & _ & _ & _ & _ & _ & _ & _ & M).
    apply (IH c); [exact (J_step pos r1 l1 r2 l2 b c s r1' l1' r2' l2' Jb E)|exact (J_step_w pos r1 l1 r2 l2 b c s Jb Hpc W)|lia].
  - (* both operands exhausted *)
    exists pos. unfold step1 in E. destruct (nextb r1 l1) eqn:N1; destruct (nextb r2 l2) eqn:N2; try discriminate.
    assert (X1 : r1 = true /\ l1 = []).
    { pose proof (j_o1 _ _ _ _ _ _ Jb) as O1. unfold nextb in N1. destruct l1; [|discriminate]. destruct r1; [split; reflexivity|destruct O1]. }
    assert (X2 : r2 = true /\ l2 = []).
    { pose proof (j_o2 _ _ _ _ _ _ Jb) as O2. unfold nextb in N2. destruct l2; [|discriminate]. destruct r2; [split; reflexivity|destruct O2]. }
    destruct X1 as [-> ->]. destruct X2 as [-> ->]. split; [exact Jb|exact W].
Qed.

(** at the end nothing is open and the closed entries cover exactly the operator of the operands *)
Lemma J_final pos b : J pos true [] true [] b -> opened b = None /\ forall t x, covE (closed b) t x <-> V t x.
Proof.
  intros Jb.
  assert (On : opened b = None).
  { destruct (opened b) as [[lt p]|] eqn:O; [|reflexivity]. exfalso.
    destruct (j_open _ _ _ _ _ _ Jb lt p O) as (_ & P1 & P2 & _). destruct (canon_covers p P1 P2) as [x Hx].
    pose proof (j_cur _ _ _ _ _ _ Jb x) as C. unfold openb in C. rewrite O in C. unfold valb in C. cbn [negb andb] in C. rewrite F_ff in C. congruence. }
  split; [exact On|]. intros t x. destruct (N.lt_ge_cases t pos) as [Lt|Ge].
  - rewrite <- (j_cov _ _ _ _ _ _ Jb t x Lt). unfold covS. rewrite On. split; [intros K; left; exact K|intros [K|[? [? [K _]]]]; [exact K|discriminate]].
  - unfold V. rewrite <- (j_v1 _ _ _ _ _ _ Jb t Ge), <- (j_v2 _ _ _ _ _ _ Jb t Ge). cbn [vat covb]. rewrite F_ff. split; [|discriminate].
    intros [e [He [[K1 K2] _]]]. destruct (j_closed _ _ _ _ _ _ Jb e He). lia.
Qed.
End Inv.
End Merge2.

(** ---------- the final pass ---------- *)
Definition good (l : list entry) : Prop := forall e, In e l -> snd e <> [] /\ Canon (snd e).

Lemma post_some : forall l pt ps lo', fst pt < snd pt -> ps <> [] -> Canon ps -> snd pt <= lo' -> wchain lo' l -> good l ->
  let r := post (Some (pt, ps)) l in
  (forall t x, covE r t x <-> (inr pt t /\ cov ps x) \/ covE l t x) /\
  tchain (fst pt) r /\ nofuse r /\ (exists e', hd_error r = Some ((fst pt, e'), ps)).
Proof.
  induction l as [|[ct cs] l IH]; intros pt ps lo' Hp Hne Hc Hlo Hw Hg; cbn [post].
  - split; [|split; [|split]].
    + intros t x. unfold covE. split.
      * intros [e [[<-|[]] [A B]]]. left. split; assumption.
      * intros [[A B]|[e [[] _]]]. exists (pt, ps). split; [left; reflexivity|split; assumption].
    + cbn [tchain fst snd]. repeat split; try assumption; lia.
    + exact I.
    + exists (snd pt). destruct pt. reflexivity.
  - cbn [wchain fst snd] in Hw. destruct Hw as (W1 & W2 & W3).
    assert (Hg' : good l) by (intros e He; apply Hg; right; exact He).
    destruct (Hg (ct, cs) (or_introl eq_refl)) as [G1 G2]. cbn [snd] in G1, G2.
    assert (Skip : forall t x, covE ((ct, cs) :: l) t x <-> (inr ct t /\ cov cs x) \/ covE l t x).
    { intros t x. unfold covE. split.
      - intros [e [[<-|He] K]]; [left; exact K|right; exists e; split; assumption].
      - intros [K|[e [He K]]]; [exists (ct, cs); split; [left; reflexivity|exact K]|exists e; split; [right; exact He|exact K]]. }
    destruct (N.ltb_spec (fst ct) (snd ct)) as [NE|EM].
    + destruct ((snd pt =? fst ct) && ranges_eqb ps cs) eqn:Q.
      * (* fuse *)
        apply andb_true_iff in Q. destruct Q as [Q1 Q2]. apply N.eqb_eq in Q1. apply ranges_eqb_spec in Q2. subst cs.
        destruct (IH (fst pt, snd ct) ps (snd ct) ltac:(cbn [fst snd]; lia) Hne Hc ltac:(cbn [snd]; lia) W3 Hg') as (C & T & NF & Hd). cbn [fst snd] in *.
        split; [|split; [exact T|split; [exact NF|exact Hd]]].
        intros t x. rewrite C, Skip. unfold inr. cbn [fst snd]. split.
        -- intros [[A B]|K]; [|right; right; exact K]. destruct (N.lt_ge_cases t (snd pt)); [left; split; [lia|exact B]|right; left; split; [lia|exact B]].
        -- intros [[A B]|[[A B]|K]]; [left; split; [lia|exact B]|left; split; [lia|exact B]|right; exact K].
      * (* keep *)
        destruct (IH ct cs (snd ct) NE G1 G2 (N.le_refl _) W3 Hg') as (C & T & NF & [e' Hd]).
        split; [|split; [|split]].
        -- intros t x. rewrite Skip. unfold covE at 1. split.
           ++ intros [e [[<-|He] K]]; [left; exact K|]. right. apply C. exists e. split; assumption.
           ++ intros [K|K]; [exists (pt, ps); split; [left; reflexivity|exact K]|]. apply C in K. destruct K as [e [He K]]. exists e. split; [right; exact He|exact K].
        -- cbn [tchain fst snd]. split; [lia|]. split; [exact Hp|]. split; [exact Hne|]. split; [exact Hc|].
           remember (post (Some (ct, cs)) l) as R0 eqn:ER; destruct R0 as [|h tl0]; [exact I|]. assert (T' : tchain (fst ct) (h :: tl0)) by (rewrite ER; exact T). cbn [tchain] in T' |- *. destruct T' as (T1 & T2 & T3 & T4 & T5).
           repeat split; try assumption. lia.
        -- remember (post (Some (ct, cs)) l) as R0 eqn:ER; destruct R0 as [|h tl0]; [exact I|]. cbn [nofuse].
           assert (NF' : nofuse (h :: tl0)) by (rewrite ER; exact NF). assert (Hd' : hd_error (h :: tl0) = Some (fst ct, e', cs)) by (rewrite ER; exact Hd).
           split; [|exact NF']. cbn [hd_error] in Hd'. inversion Hd'; subst h. cbn [fst snd]. intros [A B]. subst cs.
           assert ((snd pt =? fst ct) && ranges_eqb ps ps = true); [|congruence].
           apply andb_true_iff. split; [apply N.eqb_eq; symmetry; exact A|apply ranges_eqb_spec; reflexivity].
        -- exists (snd pt). destruct pt. reflexivity.
    + (* an empty time range is dropped *)
      destruct (IH pt ps (snd ct) Hp Hne Hc ltac:(lia) W3 Hg') as (C & T & NF & Hd).
      split; [|split; [exact T|split; [exact NF|exact Hd]]].
      intros t x. rewrite C, Skip. split; [intros [K|K]; [left; exact K|right; right; exact K]|].
      intros [K|[[K _]|K]]; [left; exact K|unfold inr in K; lia|right; exact K].
Qed.

Lemma post_none : forall l lo, wchain lo l -> good l ->
  (forall t x, covE (post None l) t x <-> covE l t x) /\ tchain lo (post None l) /\ nofuse (post None l).
Proof.
  induction l as [|[ct cs] l IH]; intros lo Hw Hg; cbn [post].
  - split; [intros; reflexivity|split; exact I].
  - cbn [wchain fst snd] in Hw. destruct Hw as (W1 & W2 & W3).
    assert (Hg' : good l) by (intros e He; apply Hg; right; exact He).
    destruct (Hg (ct, cs) (or_introl eq_refl)) as [G1 G2]. cbn [snd] in G1, G2.
    assert (Skip : forall t x, covE ((ct, cs) :: l) t x <-> (inr ct t /\ cov cs x) \/ covE l t x).
    { intros t x. unfold covE. split.
      - intros [e [[<-|He] K]]; [left; exact K|right; exists e; split; assumption].
      - intros [K|[e [He K]]]; [exists (ct, cs); split; [left; reflexivity|exact K]|exists e; split; [right; exact He|exact K]]. }
    destruct (N.ltb_spec (fst ct) (snd ct)) as [NE|EM].
    + destruct (post_some l ct cs (snd ct) NE G1 G2 (N.le_refl _) W3 Hg') as (C & T & NF & _).
      split; [intros t x; rewrite C, Skip; reflexivity|]. split; [|exact NF].
      remember (post (Some (ct, cs)) l) as R0 eqn:ER; destruct R0 as [|h tl0]; [exact I|]. assert (T' : tchain (fst ct) (h :: tl0)) by (rewrite ER; exact T). cbn [tchain] in T' |- *. destruct T' as (T1 & T2 & T3 & T4 & T5). repeat split; try assumption. lia.
    + destruct (IH (snd ct) W3 Hg') as (C & T & NF).
      split; [|split; [|exact NF]].
      * intros t x. rewrite C, Skip. unfold inr. split; [intros K; right; exact K|intros [[K _]|K]; [lia|exact K]].
      * destruct (post None l) as [|h tl0]; [exact I|]. cbn [tchain] in T |- *. destruct T as (T1 & T2 & T3 & T4 & T5). repeat split; try assumption. lia.
Qed.

(** ---------- the whole operation ---------- *)
Lemma combine_map_fst_snd (l : list entry) (extra : list (list range)) : combine (map fst l) (map snd l ++ extra) = l.
Proof. induction l as [|[a b] l IH]; [destruct extra; reflexivity|]. cbn [map combine app fst snd]. rewrite IH. reflexivity. Qed.

(** coverage of an operand (entries increasing and disjoint in time) *)
Lemma vat_cov : forall A lo t x, tchain lo A -> (covb (vat true A t) x = true <-> covE A t x).
Proof.
  induction A as [|e A IH]; intros lo t x Ht; cbn [vat].
  - split; [discriminate|intros [e [[] _]]].
  - cbn [tchain] in Ht. destruct Ht as (T1 & T2 & T3 & T4 & T5).
    assert (Tail : covE A t x -> snd (fst e) <= t).
    { intros [e' [He' [[K1 K2] _]]]. clear -T5 He' K1. revert T5 He' K1. generalize (snd (fst e)) as lo0. induction A as [|a A IHA]; intros lo0 T5 He' K1; [destruct He'|].
      cbn [tchain] in T5. destruct T5 as (U1 & U2 & _ & _ & U5). destruct He' as [<-|He']; [lia|]. specialize (IHA _ U5 He' K1). lia. }
    destruct (N.ltb_spec t (fst (fst e))) as [L|L].
    + split; [discriminate|]. intros [e' [[<-|He'] [[K1 K2] K3]]]; [lia|]. assert (covE A t x) by (exists e'; split; [exact He'|split; [split; assumption|exact K3]]). specialize (Tail H). lia.
    + destruct (N.ltb_spec t (snd (fst e))) as [M|M].
      * rewrite covb_spec. split; [intros K; exists e; split; [left; reflexivity|split; [split; assumption|exact K]]|].
        intros [e' [[<-|He'] [[K1 K2] K3]]]; [exact K3|]. assert (covE A t x) by (exists e'; split; [exact He'|split; [split; assumption|exact K3]]). specialize (Tail H). lia.
      * rewrite (IH (snd (fst e)) t x T5). split; [intros [e' [He' K]]; exists e'; split; [right; exact He'|exact K]|].
        intros [e' [[<-|He'] [[K1 K2] K3]]]; [lia|exists e'; split; [exact He'|split; [split; assumption|exact K3]]].
Qed.

Section Final.
Variable op : bool -> bool -> list range -> list range -> option (list range).
Variable F : bool -> bool -> bool.
Hypothesis F_ff : F false false = false.
Hypothesis op_sem : forall in1 in2 s1 s2 x, Canon s1 -> Canon s2 ->
  covb (optr (op in1 in2 s1 s2)) x = F (in1 && covb s1 x) (in2 && covb s2 x).
Hypothesis op_canon : forall in1 in2 s1 s2, Canon s1 -> Canon s2 -> Canon (optr (op in1 in2 s1 s2)).

Definition covEb (A : list entry) (t x : N) : bool := existsb (fun e : entry => inrb (fst e) t && covb (snd e) x) A.
Lemma covEb_spec A t x : covEb A t x = true <-> covE A t x.
Proof.
  unfold covEb, covE. rewrite existsb_exists. split; intros [e [He K]]; exists e; (split; [exact He|]).
  - apply andb_true_iff in K. destruct K as [K1 K2]. split; [apply inrb_spec; exact K1|apply covb_spec; exact K2].
  - destruct K as [K1 K2]. apply andb_true_iff. split; [apply inrb_spec; exact K1|apply covb_spec; exact K2].
Qed.

Lemma J_init A B : tchain 0 A -> tchain 0 B -> J F A B 0 true A true B {| closed := []; opened := None |}.
Proof.
  intros TA TB. constructor; cbn [closed opened]; try assumption; try (intros; reflexivity).
  - intros e [].
  - intros lt p K. discriminate.
  - intros x. unfold openb, valb. cbn [opened negb andb]. symmetry. exact F_ff.
  - intros t x Ht. lia.
Qed.

Theorem merge2_spec A B : tchain 0 A -> tchain 0 B ->
  (forall t x, covE (merge2 op A B) t x <-> F (covEb A t x) (covEb B t x) = true) /\
  tchain 0 (merge2 op A B) /\ nofuse (merge2 op A B).
Proof.
  intros TA TB. unfold merge2.
  set (a0 := {| a_ts := []; a_ss := []; a_last := None; a_prev := None |}).
  set (b0 := {| closed := []; opened := None |}).
  assert (R0 : Rel a0 b0) by (unfold Rel; cbn; repeat split; reflexivity).
  set (fuel := (2 * length A + 2 * length B + 1)%nat).
  pose proof (loop_rel op fuel true A true B a0 b0 R0) as R.
  destruct (sloop_J op F op_sem op_canon A B fuel 0 true A true B b0 (J_init A B TA TB) I
              ltac:(unfold meas, fuel; lia)) as [pos' [Jf Wf]].
  destruct (J_final F F_ff A B pos' _ Jf) as [On Cf].
  set (bf := sloop op fuel true A true B b0) in *. set (af := loop op fuel true A true B a0) in *.
  destruct R as (R1 & R2 & _ & _).
  assert (E : combine (a_ts af) (a_ss af) = closed bf) by (rewrite R1, R2; apply combine_map_fst_snd).
  rewrite E.
  assert (G : good (closed bf)) by (intros e He; destruct (j_closed _ _ _ _ _ _ _ _ _ Jf e He) as (_ & X & Y); split; assumption).
  destruct (post_none (closed bf) 0 Wf G) as (C & T & NF). split; [|split; assumption].
  intros t x. rewrite C, Cf. unfold V.
  assert (EA : covb (vat true A t) x = covEb A t x).
  { destruct (covb (vat true A t) x) eqn:K; destruct (covEb A t x) eqn:K'; try reflexivity.
    - apply (vat_cov A 0 t x TA) in K. apply covEb_spec in K. congruence.
    - apply covEb_spec in K'. apply (vat_cov A 0 t x TA) in K'. congruence. }
  assert (EB : covb (vat true B t) x = covEb B t x).
  { destruct (covb (vat true B t) x) eqn:K; destruct (covEb B t x) eqn:K'; try reflexivity.
    - apply (vat_cov B 0 t x TB) in K. apply covEb_spec in K. congruence.
    - apply covEb_spec in K'. apply (vat_cov B 0 t x TB) in K'. congruence. }
  rewrite EA, EB. reflexivity.
Qed.
End Final.

(** ---------- the three operations of the store ---------- *)
From MOC.Model Require Import SweepMerge EagerOps.

Definition op_union (in1 in2 : bool) (s1 s2 : list range) : option (list range) :=
  if in1 && in2 then Some (union_e s1 s2) else if negb in1 && in2 then Some s2 else if in1 && negb in2 then Some s1 else None.
Definition op_inter (in1 in2 : bool) (s1 s2 : list range) : option (list range) :=
  if in1 && in2 then Some (inter_e s1 s2) else None.
Definition op_diff (in1 in2 : bool) (s1 s2 : list range) : option (list range) :=
  if in1 && in2 then Some (merge (fun a b => a && negb b) s1 s2) else if in1 && negb in2 then Some s1 else None.

Lemma covb_iff (l : list range) x (b : bool) : (cov l x <-> b = true) -> covb l x = b.
Proof. intros H. destruct (covb l x) eqn:E; destruct b; try reflexivity; [apply covb_spec in E; apply H in E; discriminate|]. assert (cov l x) by (apply H; reflexivity). apply covb_spec in H0. congruence. Qed.

Theorem st_union_spec A B : tchain 0 A -> tchain 0 B ->
  (forall t x, covE (merge2 op_union A B) t x <-> covE A t x \/ covE B t x) /\
  tchain 0 (merge2 op_union A B) /\ nofuse (merge2 op_union A B).
Proof.
  intros TA TB. destruct (merge2_spec op_union orb eq_refl) with (A := A) (B := B) as (C & T & NF); try assumption.
  - intros in1 in2 s1 s2 x C1 C2. unfold op_union. destruct (union_e_spec s1 s2 C1 C2) as [_ U].
    destruct in1, in2; cbn [andb negb orb optr]; try reflexivity; [|destruct (covb s1 x); reflexivity].
    apply covb_iff. rewrite U, orb_true_iff, <- !covb_spec. reflexivity.
  - intros in1 in2 s1 s2 C1 C2. unfold op_union. destruct in1, in2; cbn [andb negb optr]; try assumption; [|exact I].
    exact (proj1 (union_e_spec s1 s2 C1 C2)).
  - split; [|split; assumption]. intros t x. rewrite C, orb_true_iff, !covEb_spec. reflexivity.
Qed.

Theorem st_inter_spec A B : tchain 0 A -> tchain 0 B ->
  (forall t x, covE (merge2 op_inter A B) t x <-> covE A t x /\ covE B t x) /\
  tchain 0 (merge2 op_inter A B) /\ nofuse (merge2 op_inter A B).
Proof.
  intros TA TB. destruct (merge2_spec op_inter andb eq_refl) with (A := A) (B := B) as (C & T & NF); try assumption.
  - intros in1 in2 s1 s2 x C1 C2. unfold op_inter. destruct (inter_e_spec s1 s2 C1 C2) as [_ U].
    destruct in1, in2; cbn [andb optr covb]; try reflexivity; [|destruct (covb s1 x); reflexivity].
    apply covb_iff. rewrite U, andb_true_iff, <- !covb_spec. reflexivity.
  - intros in1 in2 s1 s2 C1 C2. unfold op_inter. destruct in1, in2; cbn [andb optr]; try exact I.
    exact (proj1 (inter_e_spec s1 s2 C1 C2)).
  - split; [|split; assumption]. intros t x. rewrite C, andb_true_iff, !covEb_spec. reflexivity.
Qed.

Theorem st_diff_spec A B : tchain 0 A -> tchain 0 B ->
  (forall t x, covE (merge2 op_diff A B) t x <-> covE A t x /\ ~ covE B t x) /\
  tchain 0 (merge2 op_diff A B) /\ nofuse (merge2 op_diff A B).
Proof.
  intros TA TB. destruct (merge2_spec op_diff (fun a b => a && negb b) eq_refl) with (A := A) (B := B) as (C & T & NF); try assumption.
  - intros in1 in2 s1 s2 x C1 C2. unfold op_diff. destruct (merge_spec (fun a b => a && negb b) s1 s2 eq_refl C1 C2) as [_ U].
    destruct in1, in2; cbn [andb negb optr covb]; try reflexivity; [apply U|destruct (covb s1 x); reflexivity].
  - intros in1 in2 s1 s2 C1 C2. unfold op_diff. destruct in1, in2; cbn [andb negb optr]; try assumption; try exact I.
    exact (proj1 (merge_spec (fun a b => a && negb b) s1 s2 eq_refl C1 C2)).
  - split; [|split; assumption]. intros t x. rewrite C, andb_true_iff, negb_true_iff, <- not_true_iff_false, !covEb_spec. reflexivity.
Qed.

Example merge2_examples :
  let A := [((0, 10), [(0, 4)]); ((10, 20), [(0, 8)]); ((30, 40), [(2, 6)])] in
  let B := [((5, 15), [(2, 6)]); ((20, 30), [(0, 1)]); ((30, 35), [(2, 6)])] in
  merge2 op_union A B = [((0, 5), [(0, 4)]); ((5, 10), [(0, 6)]); ((10, 20), [(0, 8)]); ((20, 30), [(0, 1)]); ((30, 40), [(2, 6)])] /\
  merge2 op_inter A B = [((5, 10), [(2, 4)]); ((10, 15), [(2, 6)]); ((30, 35), [(2, 6)])] /\
  merge2 op_diff A B = [((0, 5), [(0, 4)]); ((5, 10), [(0, 2)]); ((10, 15), [(0, 2); (6, 8)]); ((15, 20), [(0, 8)]); ((35, 40), [(2, 6)])].
Proof. repeat split; vm_compute; reflexivity. Qed.
