(** Model/MocSet.v — (F, entry level) the moc-set file of crates/set: a header of
    [cap] = 128*n128 - 1 metadata entries (status flag, depth, 48-bit identifier) with
    a cumulative byte index, followed by the data of the MOCs in order of arrival, and a
    lock file taken by every update command.  Entries are modelled as a list (the
    non-void prefix of the metadata array); a stored MOC is a parameter.  The commands
    make / append / chgstatus / purge and the observations list / extract are modelled
    as the code executes them (scan to the first void entry, duplicate test ignoring
    removed entries, capacity test, first matching live entry). *)
From Coq Require Import List NArith Lia Bool.
Import ListNotations.
Open Scope N_scope.

Section MocSet.
Variable M : Type.                      (* a stored MOC *)

Inductive status := Removed | Deprecated | Valid.   (* Void = absent from the list *)

Record entry := { e_st : status; e_id : N; e_moc : M }.

Record fstate := { cap : N; ents : list entry; locked : bool }.

Definition liveb (e : entry) : bool := match e_st e with Removed => false | _ => true end.
Definition live_id (s : fstate) (id : N) : bool :=
  existsb (fun e => liveb e && (e_id e =? id)) (ents s).

Definition id_ok (id : N) : bool := id <=? 281474976710655.   (* ID_MASK = 2^48 - 1 *)

Inductive cmd :=
| Append (id : N) (st : status) (m : M)
| ChgStatus (st : status) (ids : list N)
| Purge (n128 : option N).

Inductive outcome := Done | Failed.

Definition n_of_n128 (k : N) : N := 128 * k - 1.

Definition exec (s : fstate) (c : cmd) : fstate * outcome :=
  if locked s then (s, Failed) else
  match c with
  | Append id st m =>
      if negb (id_ok id) then (s, Failed)
      else if live_id s id then (s, Failed)                         (* duplicate identifier *)
      else if cap s <=? N.of_nat (length (ents s)) then (s, Failed) (* no void entry left *)
      else ({| cap := cap s; ents := ents s ++ [{| e_st := st; e_id := id; e_moc := m |}]; locked := false |}, Done)
  | ChgStatus st ids =>
      ({| cap := cap s;
          ents := map (fun e => if liveb e && existsb (N.eqb (e_id e)) ids
                                then {| e_st := st; e_id := e_id e; e_moc := e_moc e |} else e) (ents s);
          locked := false |}, Done)
  | Purge k =>
      let cur128 := (cap s + 1) / 128 in
      let n128 := N.max (match k with Some x => x | None => 1 end) cur128 in
      ({| cap := n_of_n128 n128; ents := filter liveb (ents s); locked := false |}, Done)
  end.

Definition run (s : fstate) (h : list cmd) : fstate := fold_left (fun s c => fst (exec s c)) h s.

(** observations *)
Definition extract (s : fstate) (id : N) : option M :=
  match find (fun e => liveb e && (e_id e =? id)) (ents s) with
  | Some e => Some (e_moc e)
  | None => None
  end.

(** ---------- invariant: at most one live entry per identifier, within capacity ---------- *)
Fixpoint uniq_live (l : list entry) : Prop :=
  match l with
  | [] => True
  | e :: t => (liveb e = true -> forall e', In e' t -> liveb e' = true -> e_id e' <> e_id e) /\ uniq_live t
  end.

Record Inv (s : fstate) : Prop :=
  { inv_uniq : uniq_live (ents s);
    inv_len : N.of_nat (length (ents s)) <= cap s;
    inv_cap : exists k, 1 <= k /\ cap s = 128 * k - 1 }.

Lemma uniq_live_app l e : uniq_live l ->
  (liveb e = true -> forall e', In e' l -> liveb e' = true -> e_id e' <> e_id e) ->
  uniq_live (l ++ [e]).
Proof.
  induction l as [|x l IH]; intros Hu He; simpl; [split; [intros _ e' []|exact I]|].
  simpl in Hu. destruct Hu as [Hx Hl]. split.
  - intros Lx e' Hin Le'. apply in_app_or in Hin. destruct Hin as [Hin|[<-|[]]].
    + apply Hx; assumption.
    + intros E. apply (He Le' x (or_introl eq_refl) Lx). symmetry. exact E.
  - apply IH; [exact Hl|]. intros Le e' Hin Le'. apply He; [exact Le|right; exact Hin|exact Le'].
Qed.

Lemma live_id_false s id : live_id s id = false ->
  forall e, In e (ents s) -> liveb e = true -> e_id e <> id.
Proof.
  unfold live_id. intros H e Hin Le E.
  assert (X : existsb (fun e => liveb e && (e_id e =? id)) (ents s) = true); [|congruence].
  apply existsb_exists. exists e. split; [exact Hin|]. rewrite Le. simpl. apply N.eqb_eq. exact E.
Qed.

Lemma uniq_live_map_status (f : entry -> entry) l :
  (forall e, e_id (f e) = e_id e) -> (forall e, liveb (f e) = true -> liveb e = true) ->
  uniq_live l -> uniq_live (map f l).
Proof.
  intros Hid Hlive. induction l as [|x l IH]; simpl; [auto|]. intros [Hx Hl]. split; [|apply IH; exact Hl].
  intros Lx e' Hin Le'. apply in_map_iff in Hin. destruct Hin as [e0 [<- Hin0]].
  rewrite !Hid. apply Hx; [apply Hlive; exact Lx|exact Hin0|apply Hlive; exact Le'].
Qed.

Lemma uniq_live_filter (p : entry -> bool) l : uniq_live l -> uniq_live (filter p l).
Proof.
  induction l as [|x l IH]; simpl; [auto|]. intros [Hx Hl]. destruct (p x); simpl; [|apply IH; exact Hl].
  split; [|apply IH; exact Hl]. intros Lx e' Hin Le'. apply filter_In in Hin. apply Hx; tauto.
Qed.

Lemma filter_length_le (p : entry -> bool) l : (length (filter p l) <= length l)%nat.
Proof. induction l as [|x l IH]; simpl; [lia|]. destruct (p x); simpl; lia. Qed.

Definition chg_entry (st : status) (ids : list N) (e : entry) : entry :=
  if liveb e && existsb (N.eqb (e_id e)) ids then {| e_st := st; e_id := e_id e; e_moc := e_moc e |} else e.

Theorem exec_inv s c : Inv s -> Inv (fst (exec s c)).
Proof.
  intros [Hu Hl Hc]. unfold exec. destruct (locked s); [constructor; assumption|].
  destruct c as [id st m|st ids|k]; simpl.
  - destruct (id_ok id); simpl; [|constructor; assumption].
    destruct (live_id s id) eqn:L; simpl; [constructor; assumption|].
    destruct (cap s <=? N.of_nat (length (ents s))) eqn:C; simpl; [constructor; assumption|].
    apply N.leb_gt in C. constructor; simpl; [| |exact Hc].
    + apply uniq_live_app; [exact Hu|]. intros _ e' Hin Le'. simpl. apply (live_id_false s id L e' Hin Le').
    + rewrite app_length. simpl. lia.
  - constructor; simpl; [| |exact Hc].
    + apply uniq_live_map_status; [| |exact Hu].
      * intros e. destruct (liveb e && existsb (N.eqb (e_id e)) ids); reflexivity.
      * intros e. destruct (liveb e && existsb (N.eqb (e_id e)) ids) eqn:E; [|auto].
        intros _. apply andb_true_iff in E. tauto.
    + rewrite map_length. exact Hl.
  - destruct Hc as [k0 [Hk0 Ecap]].
    assert (Ecur : (cap s + 1) / 128 = k0).
    { rewrite Ecap. replace (128 * k0 - 1 + 1) with (k0 * 128) by lia. apply N.div_mul. lia. }
    constructor; simpl.
    + apply uniq_live_filter. exact Hu.
    + pose proof (filter_length_le liveb (ents s)) as F. rewrite Ecur. unfold n_of_n128.
      assert (N.of_nat (length (filter liveb (ents s))) <= N.of_nat (length (ents s))) by lia.
      destruct k as [x|]; lia.
    + rewrite Ecur. exists (N.max (match k with Some x => x | None => 1 end) k0). split; [lia|reflexivity].
Qed.

Theorem run_inv h : forall s, Inv s -> Inv (run s h).
Proof.
  induction h as [|c h IH]; intros s HI; simpl; [exact HI|]. apply IH. apply exec_inv. exact HI.
Qed.

(** ---------- the file reflects its update history ---------- *)
Lemma find_app_none {A} (p : A -> bool) l x : find p l = None -> find p (l ++ [x]) = if p x then Some x else None.
Proof. induction l as [|y l IH]; simpl; [reflexivity|]. destruct (p y); [discriminate|exact IH]. Qed.

Lemma find_app_some {A} (p : A -> bool) l x y : find p l = Some y -> find p (l ++ [x]) = Some y.
Proof. induction l as [|z l IH]; simpl; [discriminate|]. destruct (p z); [auto|exact IH]. Qed.

Lemma live_id_find s id : live_id s id = false -> find (fun e => liveb e && (e_id e =? id)) (ents s) = None.
Proof.
  unfold live_id. induction (ents s) as [|e l IH]; simpl; [reflexivity|].
  destruct (liveb e && (e_id e =? id)); simpl; [discriminate|exact IH].
Qed.

(** a successful append makes exactly the appended MOC extractable under its identifier,
    and changes the answer for no other identifier *)
Theorem append_then_extract s id st m s' :
  exec s (Append id st m) = (s', Done) -> st <> Removed ->
  extract s' id = Some m /\ forall id', id' <> id -> extract s' id' = extract s id'.
Proof.
  unfold exec. destruct (locked s); [discriminate|].
  destruct (id_ok id); simpl; [|discriminate].
  destruct (live_id s id) eqn:L; simpl; [discriminate|].
  destruct (cap s <=? N.of_nat (length (ents s))); simpl; [discriminate|].
  intros E Hst. inversion E; subst. clear E. unfold extract; simpl. split.
  - rewrite (find_app_none _ _ _ (live_id_find s id L)). simpl. rewrite N.eqb_refl.
    destruct st; simpl; [congruence|reflexivity|reflexivity].
  - intros id' Hne.
    destruct (find (fun e => liveb e && (e_id e =? id')) (ents s)) as [e|] eqn:F.
    + rewrite (find_app_some _ _ _ _ F). reflexivity.
    + rewrite (find_app_none _ _ _ F). simpl.
      destruct (N.eqb_spec id id') as [->|_]; [congruence|]. rewrite andb_false_r. reflexivity.
Qed.

(** an identifier can be (re-)added exactly when it is not live, the file is not held by
    another writer, the identifier fits 48 bits and a void entry is left *)
Theorem append_succeeds_iff s id st m :
  snd (exec s (Append id st m)) = Done <->
  locked s = false /\ id_ok id = true /\ live_id s id = false /\ N.of_nat (length (ents s)) < cap s.
Proof.
  unfold exec. destruct (locked s); simpl; [split; [discriminate|intros [H _]; discriminate]|].
  destruct (id_ok id); simpl; [|split; [discriminate|intros (_ & H & _); discriminate]].
  destruct (live_id s id); simpl; [split; [discriminate|intros (_ & _ & H & _); discriminate]|].
  destruct (N.leb_spec (cap s) (N.of_nat (length (ents s)))); simpl.
  - split; [discriminate|intros (_ & _ & _ & H'); lia].
  - split; [intros _; repeat split; assumption|reflexivity].
Qed.

(** a command that cannot apply leaves the file unchanged *)
Theorem failed_leaves_unchanged s c : snd (exec s c) = Failed -> fst (exec s c) = s.
Proof.
  unfold exec. destruct (locked s); [reflexivity|].
  destruct c as [id st m|st ids|k]; simpl; try discriminate.
  destruct (id_ok id); simpl; [|reflexivity].
  destruct (live_id s id); simpl; [reflexivity|].
  destruct (cap s <=? N.of_nat (length (ents s))); simpl; [reflexivity|discriminate].
Qed.

(** while another writer holds the file, no update proceeds *)
Theorem locked_blocks_updates s c : locked s = true -> exec s c = (s, Failed).
Proof. intros H. unfold exec. rewrite H. reflexivity. Qed.

(** purge physically drops the removed MOCs and nothing else *)
Lemma find_filter_live (p : entry -> bool) l :
  find (fun e => liveb e && p e) (filter liveb l) = find (fun e => liveb e && p e) l.
Proof.
  induction l as [|e l IH]; simpl; [reflexivity|].
  destruct (liveb e) eqn:L; simpl; [rewrite L; simpl; destruct (p e); [reflexivity|exact IH]|exact IH].
Qed.

Theorem purge_drops_exactly_removed s k s' :
  exec s (Purge k) = (s', Done) ->
  ents s' = filter liveb (ents s) /\ (forall id, extract s' id = extract s id) /\
  (forall e, In e (ents s') <-> In e (ents s) /\ e_st e <> Removed).
Proof.
  unfold exec. destruct (locked s); [discriminate|]. intros E. inversion E; subst. clear E. simpl.
  split; [reflexivity|]. split.
  - intros id. unfold extract; simpl. rewrite (find_filter_live (fun e => e_id e =? id)). reflexivity.
  - intros e. rewrite filter_In. unfold liveb. destruct (e_st e); split; intros [H1 H2]; split; try assumption; try discriminate; congruence.
Qed.

(** change of status: applies to the live entries of the listed identifiers, keeps what is
    stored; marking removed makes the identifier free again *)
Theorem chgstatus_effect s st ids s' :
  exec s (ChgStatus st ids) = (s', Done) ->
  ents s' = map (chg_entry st ids) (ents s) /\
  (forall e, In e (ents s) -> In (chg_entry st ids e) (ents s')).
Proof.
  unfold exec. destruct (locked s); [discriminate|]. intros E. inversion E; subst. clear E. simpl.
  split; [reflexivity|]. intros e He. apply in_map. exact He.
Qed.

End MocSet.
