(** Model/ValuedSel.v — C20: the COMPLETE selection (whole cells accumulated between the two
    thresholds + the descent in the lower boundary cell + the descent in the upper boundary
    cell, as [Valued.select] composes them after the repair of D19a) brackets the requested
    mass, for every map, every pair of thresholds that do not fall strictly inside the same
    cell, every option combination. *)
From Coq Require Import List NArith Lia Bool.
From MOC.Model Require Import Valued.
Import ListNotations.
Open Scope N_scope.

(** [select] after the sort and the computation of the maximum depth *)
Definition select_sorted (fixed : bool) (maxd : N) (sorted : list vcell) (from to : N)
                         (strict nosplit rev : bool) : option (list cell) :=
  let '(l1, acc1) := skip sorted 0 from in
  let lower :=
    match l1 with
    | c :: t =>
        if acc1 <? from then
          if nosplit then Some (if strict then [] else [(vd c, vi c)], t, acc1 + vv c)
          else match desc_rev rev (fuel_of maxd c) (vd c) (vi c) (vv c) strict (from - acc1) with
               | Some r => Some (r, t, if fixed then acc1 + vv c else acc1)
               | None => None
               end
        else Some ([], l1, acc1)
    | [] => Some ([], [], acc1)
    end in
  match lower with
  | None => None
  | Some (r1, l2, acc2) =>
      let '(r2, l3, acc3) := take l2 acc2 to in
      match l3 with
      | c :: _ =>
          if acc3 <? to then
            if nosplit then Some (r1 ++ r2 ++ (if strict then [] else [(vd c, vi c)]))
            else match desc rev (fuel_of maxd c) (vd c) (vi c) (vv c) strict (to - acc3) with
                 | Some r => Some (r1 ++ r2 ++ r)
                 | None => None
                 end
          else Some (r1 ++ r2)
      | [] => Some (r1 ++ r2)
      end
  end.

Lemma select_is_select_sorted fixed maxd0 cells from to asc strict nosplit rev :
  select fixed maxd0 cells from to asc strict nosplit rev =
  select_sorted fixed (fold_left (fun m c => N.max m (vd c)) cells maxd0) (sort asc cells) from to strict nosplit rev.
Proof. reflexivity. Qed.

Fixpoint sumv (l : list vcell) : N := match l with [] => 0 | c :: t => vv c + sumv t end.
Lemma sumv_app a b : sumv (a ++ b) = sumv a + sumv b.
Proof. induction a as [|x a IH]; cbn [app sumv]; [reflexivity|]. rewrite IH. lia. Qed.

Lemma skip_spec : forall l acc lim, acc <= lim ->
  exists pre, l = pre ++ fst (skip l acc lim) /\ snd (skip l acc lim) = acc + sumv pre /\
              snd (skip l acc lim) <= lim /\
              match fst (skip l acc lim) with c :: _ => lim < snd (skip l acc lim) + vv c | [] => True end.
Proof.
  induction l as [|c t IH]; intros acc lim Ha; cbn [skip].
  - exists []. cbn. repeat split; lia.
  - destruct (N.leb_spec (acc + vv c) lim) as [C|C].
    + destruct (IH (acc + vv c) lim C) as (pre & E & S1 & S2 & S3).
      exists (c :: pre). cbn [app sumv]. rewrite <- E. repeat split; try assumption; lia.
    + exists []. cbn [app fst snd sumv]. repeat split; lia.
Qed.

Lemma take_spec : forall l acc lim, acc <= lim ->
  let '(r, rest, a) := take l acc lim in
  exists pre, l = pre ++ rest /\ r = map (fun c => (vd c, vi c)) pre /\ a = acc + sumv pre /\ a <= lim /\
              match rest with c :: _ => lim < a + vv c | [] => True end.
Proof.
  induction l as [|c t IH]; intros acc lim Ha; cbn [take].
  - exists []. cbn. repeat split; lia.
  - destruct (N.leb_spec (acc + vv c) lim) as [C|C].
    + specialize (IH (acc + vv c) lim C). destruct (take t (acc + vv c) lim) as [[r rest] a].
      destruct IH as (pre & E & R & S1 & S2 & S3).
      exists (c :: pre). cbn [app map sumv]. rewrite <- E, R. repeat split; try assumption; lia.
    + exists []. cbn [app map sumv]. repeat split; lia.
Qed.

(** the value of a map cell is a positive multiple of its deepest sub-cell value *)
Definition Div (maxd : N) (c : vcell) : Prop := exists u, 0 < u /\ vv c = u * 4 ^ N.of_nat (fuel_of maxd c).

(** value enclosed by the three parts of a selection *)
Record parts := { p_low : option vcell; p_r1 : list cell; p_mid : list vcell; p_up : option vcell; p_r3 : list cell }.
Definition parts_mass (p : parts) : N :=
  (match p_low p with Some c => mass (vd c) (vv c) (p_r1 p) | None => 0 end) + sumv (p_mid p) +
  (match p_up p with Some c => mass (vd c) (vv c) (p_r3 p) | None => 0 end).
Definition parts_out (p : parts) : list cell := p_r1 p ++ map (fun c => (vd c, vi c)) (p_mid p) ++ p_r3 p.
(** value of the boundary pieces: one deepest sub-cell per boundary cell when splitting, the
    whole boundary cell otherwise *)
Definition piece_of (nosplit : bool) (maxd : N) (c : vcell) : N :=
  if nosplit then vv c else vv c / 4 ^ N.of_nat (fuel_of maxd c).
Definition parts_slack (nosplit : bool) (maxd : N) (p : parts) : N :=
  (match p_low p with Some c => piece_of nosplit maxd c | None => 0 end) +
  (match p_up p with Some c => piece_of nosplit maxd c | None => 0 end).

Lemma div_piece maxd c u : 0 < u -> vv c = u * 4 ^ N.of_nat (fuel_of maxd c) -> vv c / 4 ^ N.of_nat (fuel_of maxd c) = u.
Proof. intros Hu E. rewrite E. apply N.div_mul. apply N.pow_nonzero. lia. Qed.

Lemma one_cell_mass c : mass (vd c) (vv c) [(vd c, vi c)] = vv c.
Proof. cbn [mass]. unfold piece. cbn [fst]. rewrite N.sub_diag, N.pow_0_r, N.div_1_r. lia. Qed.

(** THE SELECTION BRACKETS THE REQUESTED MASS.
    [sorted] = the cells in the requested density order; the thresholds satisfy
    from <= to <= total value; the two thresholds do not fall strictly inside the same cell
    (the known finding D19b); every cell value is a positive multiple of its deepest piece. *)
Theorem select_sorted_brackets maxd sorted from to strict nosplit rev :
  Forall (Div maxd) sorted -> from <= to -> to <= sumv sorted ->
  (* not both thresholds strictly inside one cell *)
  (forall pre c post, sorted = pre ++ c :: post -> ~ (sumv pre < from /\ to < sumv pre + vv c)) ->
  exists p, select_sorted true maxd sorted from to strict nosplit rev = Some (parts_out p) /\
    let m := parts_mass p in let s := parts_slack nosplit maxd p in
    if strict then m <= to - from /\ to - from <= m + s
    else to - from <= m /\ m <= to - from + s.
Proof.
  intros HD Hft Htot Hsame. unfold select_sorted.
  destruct (skip_spec sorted 0 from (N.le_0_l _)) as (pre1 & E1 & S1 & S2 & S3).
  destruct (skip sorted 0 from) as [l1 acc1]. cbn [fst snd] in *. rewrite N.add_0_l in S1.
  (* ---- lower boundary *)
  assert (LOW : exists low r1 l2 acc2 m1,
            (match l1 with
             | c :: t => if acc1 <? from
                         then if nosplit then Some (if strict then [] else [(vd c, vi c)], t, acc1 + vv c)
                              else match desc_rev rev (fuel_of maxd c) (vd c) (vi c) (vv c) strict (from - acc1) with
                                   | Some r => Some (r, t, acc1 + vv c) | None => None end
                         else Some ([], l1, acc1)
             | [] => Some ([], [], acc1) end) = Some (r1, l2, acc2) /\
            m1 = (match low with Some c => mass (vd c) (vv c) r1 | None => 0 end) /\
            (exists pre2, sorted = pre2 ++ l2 /\ acc2 = sumv pre2) /\ from <= acc2 /\ acc2 <= to /\
            (low = None -> r1 = [] /\ acc2 = from \/ (r1 = [] /\ l2 = [])) /\
            let sl := match low with Some c => piece_of nosplit maxd c | None => 0 end in
            (if strict then m1 <= acc2 - from /\ acc2 - from <= m1 + sl
             else acc2 - from <= m1 /\ m1 <= acc2 - from + sl)).
  { destruct l1 as [|c t].
    - exists None, [], [], acc1, 0. split; [reflexivity|]. split; [reflexivity|].
      split; [exists pre1; rewrite app_nil_r in E1; split; [rewrite app_nil_r; exact E1|exact S1]|].
      (* everything was skipped: from >= total, hence from = to = total *)
      assert (acc1 = sumv sorted) by (rewrite E1, app_nil_r in *; exact S1).
      split; [lia|]. split; [lia|]. split; [intros _; right; tauto|]. cbn. destruct strict; lia.
    - destruct (N.ltb_spec acc1 from) as [C|C].
      + (* the lower threshold falls strictly inside c *)
        assert (Hc : Div maxd c).
        { rewrite Forall_forall in HD. apply HD. rewrite E1. apply in_or_app. right. left. reflexivity. }
        destruct Hc as (u & Hu & Ev).
        assert (Hnot : acc1 + vv c <= to).
        { destruct (N.le_gt_cases (acc1 + vv c) to) as [L|L]; [exact L|exfalso].
          apply (Hsame pre1 c t E1). rewrite <- S1. split; [exact C|exact L]. }
        destruct nosplit.
        * exists (Some c), (if strict then [] else [(vd c, vi c)]), t, (acc1 + vv c),
                 (mass (vd c) (vv c) (if strict then [] else [(vd c, vi c)])).
          split; [reflexivity|]. split; [reflexivity|].
          split; [exists (pre1 ++ [c]); rewrite <- app_assoc; cbn [app]; split; [exact E1|rewrite sumv_app; cbn [sumv]; lia]|].
          split; [lia|]. split; [lia|]. split; [discriminate|].
          cbn [piece_of]. destruct strict; [cbn [mass]; lia|rewrite one_cell_mass; lia].
        * destruct (desc_rev_mass strict (fuel_of maxd c) rev (vd c) (vi c) u (from - acc1) Hu) as (r & Hr & _ & Hm); [rewrite <- Ev; lia|].
          rewrite <- Ev in Hr, Hm. rewrite Hr.
          exists (Some c), r, t, (acc1 + vv c), (mass (vd c) (vv c) r).
          split; [reflexivity|]. split; [reflexivity|].
          split; [exists (pre1 ++ [c]); rewrite <- app_assoc; cbn [app]; split; [exact E1|rewrite sumv_app; cbn [sumv]; lia]|].
          split; [lia|]. split; [lia|]. split; [discriminate|].
          cbn [piece_of]. rewrite (div_piece maxd c u Hu Ev).
          set (b := from - acc1) in *.
          pose proof (N.div_mod b u ltac:(lia)) as Eb. pose proof (N.mod_lt b u ltac:(lia)) as Lb.
          remember (b / u) as qb. remember (b mod u) as rb. clear Heqqb Heqrb Hr.
          destruct strict; nia.
      + (* the lower threshold is on a cell boundary *)
        exists None, [], (c :: t), acc1, 0. split; [reflexivity|]. split; [reflexivity|].
        split; [exists pre1; split; [exact E1|exact S1]|]. split; [lia|]. split; [lia|].
        split; [intros _; left; split; [reflexivity|lia]|]. cbn. replace (acc1 - from) with 0 by lia. destruct strict; lia. }
  destruct LOW as (low & r1 & l2 & acc2 & m1 & EL & Em1 & (pre2 & E2 & A2) & F1 & Hle & _ & B1).
  cbn zeta in B1. rewrite EL.
  pose proof (take_spec l2 acc2 to Hle) as TS. destruct (take l2 acc2 to) as [[r2 l3] acc3].
  destruct TS as (mid & E3 & R2 & A3 & T2 & T3).
  destruct l3 as [|c' t'].
  - (* nothing left: the upper threshold is the total *)
    exists {| p_low := low; p_r1 := r1; p_mid := mid; p_up := None; p_r3 := [] |}.
    unfold parts_out, parts_mass, parts_slack. cbn [p_low p_r1 p_mid p_up p_r3]. rewrite app_nil_r, R2.
    split; [reflexivity|]. cbv zeta. rewrite <- Em1.
    assert (acc3 = sumv sorted) by (rewrite E2, E3, app_nil_r, sumv_app; lia).
    destruct strict; lia.
  - destruct (N.ltb_spec acc3 to) as [C|C].
    + assert (Hc' : Div maxd c').
      { rewrite Forall_forall in HD. apply HD. rewrite E2, E3. apply in_or_app. right. apply in_or_app. right. left. reflexivity. }
      destruct Hc' as (u' & Hu' & Ev').
      destruct nosplit.
      * exists {| p_low := low; p_r1 := r1; p_mid := mid; p_up := Some c'; p_r3 := if strict then [] else [(vd c', vi c')] |}.
        unfold parts_out, parts_mass, parts_slack. cbn [p_low p_r1 p_mid p_up p_r3]. rewrite R2.
        split; [reflexivity|]. cbv zeta. rewrite <- Em1. unfold piece_of in *.
        destruct low; destruct strict; [cbn [mass]; lia|rewrite one_cell_mass; lia|cbn [mass]; lia|rewrite one_cell_mass; lia].
      * destruct (desc_mass rev strict (fuel_of maxd c') (vd c') (vi c') u' (to - acc3) Hu') as (r & Hr & _ & Hm); [rewrite <- Ev'; lia|].
        rewrite <- Ev' in Hr, Hm. rewrite Hr.
        exists {| p_low := low; p_r1 := r1; p_mid := mid; p_up := Some c'; p_r3 := r |}.
        unfold parts_out, parts_mass, parts_slack. cbn [p_low p_r1 p_mid p_up p_r3]. rewrite R2.
        split; [reflexivity|]. cbv zeta. rewrite <- Em1, Hm. unfold piece_of in *. rewrite (div_piece maxd c' u' Hu' Ev').
        set (b := to - acc3) in *.
        pose proof (N.div_mod b u' ltac:(lia)) as Eb. pose proof (N.mod_lt b u' ltac:(lia)) as Lb.
        remember (b / u') as qb. remember (b mod u') as rb. clear Heqqb Heqrb Hr Hm.
        destruct strict; nia.
    + (* the upper threshold is on a cell boundary *)
      exists {| p_low := low; p_r1 := r1; p_mid := mid; p_up := None; p_r3 := [] |}.
      unfold parts_out, parts_mass, parts_slack. cbn [p_low p_r1 p_mid p_up p_r3]. rewrite app_nil_r, R2.
      split; [reflexivity|]. cbv zeta. rewrite <- Em1. destruct strict; lia.
Qed.
