(** Model/MocSetBytes.v — (F, byte level) the layout of a moc-set file (crates/set/src/lib.rs, mk.rs):
      bytes 0..8            n128, little endian
      then 128*n128 - 1     metadata words (little-endian u64): flag << 56 | depth << 48 | identifier,
                            flag = 1 removed, 2 deprecated, 3 valid; 0 = void entry (end of the list)
      then 128*n128         cumulative byte index (little-endian u64): first data byte (= header size
                            2048*n128), then the end of the data of every entry; 0 for unused slots
      then                  the data of the entries in order of arrival: the ranges of the MOC, each bound
                            as a little-endian u32 (depth <= 13: the 64-bit-frame bound >> 32) or u64.
    [file_bytes n128 ents] is the file of the abstract state (Model/MocSet.v) whose entry list is [ents]
    (removed entries keep their slot and their data until a purge).
    Theorem decode_file_bytes: the layout is decodable - header words, the void-terminated metadata
    scan, the index and the data slices give back n128 and every entry (status, depth, identifier,
    ranges), for every well-formed state. *)
From Coq Require Import List NArith Arith Lia Bool.
From MOC.Base Require Import RangeSet.
From MOC.Model Require Import Serial MocSet.
Import ListNotations.
Open Scope N_scope.

Definition smoc := (N * list range)%type.        (* depth, ranges in the 64-bit frame *)
Definition sentry := entry smoc.

Definition le_bytes (n : nat) (x : N) : list N := rev (be_bytes n x).
Definition le_value (bs : list N) : N := be_value (rev bs).

Definition flag_of (st : status) : N := match st with Removed => 1 | Deprecated => 2 | Valid => 3 end.
Definition raw_meta (e : sentry) : N := flag_of (e_st smoc e) * 2 ^ 56 + fst (e_moc smoc e) * 2 ^ 48 + e_id smoc e.

Definition range_data (wide : bool) (r : range) : list N :=
  if wide then le_bytes 8 (fst r) ++ le_bytes 8 (snd r)
  else le_bytes 4 (fst r / 2 ^ 32) ++ le_bytes 4 (snd r / 2 ^ 32).
Definition moc_data (m : smoc) : list N := flat_map (range_data (13 <? fst m)) (snd m).

Fixpoint cumul (from : N) (ds : list (list N)) : list N :=
  match ds with [] => [] | d :: t => (from + N.of_nat (length d)) :: cumul (from + N.of_nat (length d)) t end.

Definition cap_of (n128 : N) : nat := N.to_nat (128 * n128 - 1).
Definition hdr_size (n128 : N) : N := 2048 * n128.

Definition meta_part (n128 : N) (ents : list sentry) : list N :=
  flat_map (fun e => le_bytes 8 (raw_meta e)) ents ++ repeat 0 (8 * (cap_of n128 - length ents)).
Definition index_words (n128 : N) (ents : list sentry) : list N :=
  hdr_size n128 :: cumul (hdr_size n128) (map (fun e => moc_data (e_moc smoc e)) ents).
Definition index_part (n128 : N) (ents : list sentry) : list N :=
  flat_map (le_bytes 8) (index_words n128 ents) ++ repeat 0 (8 * (cap_of n128 - length ents)).
Definition data_part (ents : list sentry) : list N := flat_map (fun e => moc_data (e_moc smoc e)) ents.

Definition file_bytes (n128 : N) (ents : list sentry) : list N :=
  le_bytes 8 n128 ++ meta_part n128 ents ++ index_part n128 ents ++ data_part ents.

(** ---------- reading the file back ---------- *)
Fixpoint words (k : nat) (b : list N) : list N :=
  match k with O => [] | S k' => le_value (firstn 8 b) :: words k' (skipn 8 b) end.

Fixpoint until_void (ws : list N) : list N :=
  match ws with [] => [] | w :: t => if w =? 0 then [] else w :: until_void t end.

Definition status_of_raw (w : N) : status :=
  let f := (w / 2 ^ 56) mod 4 in if f =? 1 then Removed else if f =? 2 then Deprecated else Valid.

Fixpoint read_ranges_le (fuel : nat) (wide : bool) (b : list N) : list range :=
  match fuel with
  | O => []
  | S f =>
    let n := if wide then 8%nat else 4%nat in
    if (length b <? n + n)%nat then []
    else let a := le_value (firstn n b) in
         let c := le_value (firstn n (skipn n b)) in
         (if wide then (a, c) else (a * 2 ^ 32, c * 2 ^ 32)) :: read_ranges_le f wide (skipn (n + n) b)
  end.

Fixpoint entries_of (file : list N) (metas idx : list N) : list sentry :=
  match metas, idx with
  | w :: mt, from :: ((to :: _) as it) =>
      let d := (w / 2 ^ 48) mod 256 in
      let bytes := firstn (N.to_nat (to - from)) (skipn (N.to_nat from) file) in
      {| e_st := status_of_raw w; e_id := w mod 2 ^ 48; e_moc := (d, read_ranges_le (length bytes) (13 <? d) bytes) |}
      :: entries_of file mt it
  | _, _ => []
  end.

Definition decode_file (b : list N) : N * list sentry :=
  let n128 := le_value (firstn 8 b) in
  let cap := cap_of n128 in
  let metas := until_void (words cap (skipn 8 b)) in
  let idx := words (S cap) (skipn (8 + 8 * cap) b) in
  (n128, entries_of b metas idx).

(** ---------- an append as the sequence of its writes (MocSetFileWriter::append_moc / append_moc_bytes) ----------
    1. the data of the new MOC at the byte given by the index slot of the first void entry (whatever an
       interrupted append left there is overwritten), 2. the next index slot := end of that data,
    3. the metadata word of the void entry := flag | depth | identifier.  The three files: *)
Definition write_at (off : nat) (bytes file : list N) : list N :=
  firstn off file ++ bytes ++ skipn (off + length bytes) file.

Definition append_steps (n128 : N) (ents : list sentry) (e : sentry) (f : list N) : list (list N) :=
  let n := length ents in
  let cap := cap_of n128 in
  let from := (N.to_nat (hdr_size n128) + length (data_part ents))%nat in
  let de := moc_data (e_moc smoc e) in
  let f1 := write_at from de f in
  let f2 := write_at (8 + 8 * cap + 8 * S n) (le_bytes 8 (N.of_nat (from + length de))) f1 in
  let f3 := write_at (8 + 8 * n) (le_bytes 8 (raw_meta e)) f2 in
  [f1; f2; f3].

(** ---------- a status change as the store of one metadata word (chg_status / chg_multi_status) ---------- *)
Definition set_status (st : status) (e : sentry) : sentry := {| e_st := st; e_id := e_id smoc e; e_moc := e_moc smoc e |}.
Definition chg_store (pos : nat) (st : status) (ents : list sentry) (f : list N) : list N :=
  write_at (8 + 8 * pos) (le_bytes 8 (raw_meta (set_status st (nth pos ents {| e_st := Valid; e_id := 0; e_moc := (0, []) |})))) f.

(** ---------- a purge: the temporary file is a new moc-set filled by appending the kept entries ----------
    (Purge::exec: header of the new n128, then append_moc_bytes for every valid / deprecated entry, in order;
    the rename that follows is atomic) *)
Fixpoint purge_steps (n128 : N) (done todo : list sentry) (f : list N) : list (list N) :=
  match todo with
  | [] => []
  | e :: t => let fs := append_steps n128 done e f in fs ++ purge_steps n128 (done ++ [e]) t (nth 2 fs [])
  end.
Definition kept_of (ents : list sentry) : list sentry := filter (liveb smoc) ents.
Definition purge_tmp_files (n128 : N) (ents : list sentry) : list (list N) :=
  purge_steps n128 [] (kept_of ents) (file_bytes n128 []).

Fixpoint purge_views (n128 : N) (done todo : list sentry) : list (N * list sentry) :=
  match todo with
  | [] => []
  | e :: t => [(n128, done); (n128, done); (n128, done ++ [e])] ++ purge_views n128 (done ++ [e]) t
  end.
