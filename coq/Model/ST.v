(** Model/ST.v — space-time MOCs as point sets, and the VERIFIED CHECKERS used to
    judge the implementation's ST outputs (union, intersection, difference,
    builders): [valid2db] decides the property's validity of an ST-MOC and
    [pts_opb o out A B] decides  forall t s, out(t,s) <-> setop o (A(t,s)) (B(t,s)).
    Both are sound AND complete, so a FAIL is a real violation and a PASS is a proof
    for that output.  No normal form of ST-MOCs is assumed. *)
From Coq Require Import List NArith Lia Bool.
From MOC.Base Require Import RangeSet.
From MOC.Model Require Import Qty Ops1D Expr Query Build Repr.
Import ListNotations.
Open Scope N_scope.

Definition elem := (list range * list range)%type.   (* time ranges, space ranges *)
Definition stmoc := list elem.

Definition cov2 (X : stmoc) (t s : N) : Prop :=
  exists e, In e X /\ cov (fst e) t /\ cov (snd e) s.

Lemma cov2_app X Y t s : cov2 (X ++ Y) t s <-> cov2 X t s \/ cov2 Y t s.
Proof.
  unfold cov2. split.
  - intros [e [Hin H]]. apply in_app_or in Hin. destruct Hin; [left|right]; exists e; tauto.
  - intros [[e [Hin H]]|[e [Hin H]]]; exists e; (split; [apply in_or_app; tauto|exact H]).
Qed.

(** space coverage at instant t: union of the space parts of the elements whose time part covers t *)
Definition s_at (X : stmoc) (t : N) : list range :=
  fold_left (fun acc e => if covb (fst e) t then union acc (snd e) else acc) X [].

(** well-formed operand of the checkers: every space part is a valid range list *)
Definition WF (ub : N) (X : stmoc) : Prop := Forall (fun e => Valid ub (snd e)) X.
Definition wfb (ub : N) (X : stmoc) : bool := forallb (fun e => canonb (snd e) && boundedb ub (snd e)) X.
Lemma wfb_spec ub X : wfb ub X = true <-> WF ub X.
Proof.
  unfold wfb, WF. rewrite forallb_forall, Forall_forall. split; intros H e He; specialize (H e He).
  - apply andb_true_iff in H. destruct H as [H1 H2]. constructor; [apply canonb_spec|apply boundedb_spec]; assumption.
  - destruct H as [H1 H2]. apply andb_true_iff. split; [apply canonb_spec|apply boundedb_spec]; assumption.
Qed.

Lemma s_at_fold ub X t : forall acc, WF ub X -> Valid ub acc ->
  let r := fold_left (fun acc e => if covb (fst e) t then union acc (snd e) else acc) X acc in
  Valid ub r /\ forall s, cov r s <-> cov acc s \/ cov2 X t s.
Proof.
  induction X as [|e X IH]; intros acc Hwf Hacc; simpl.
  - split; [exact Hacc|]. intros s. split; [tauto|]. intros [H|[e [[] _]]]. exact H.
  - inversion Hwf as [|? ? He HX]; subst.
    destruct (covb (fst e) t) eqn:E.
    + destruct (IH (union acc (snd e)) HX (valid_union ub _ _ Hacc He)) as [V C].
      split; [exact V|]. intros s. rewrite C. rewrite (valid_union_cov ub) by assumption.
      unfold cov2. split.
      * intros [[H|H]|[e' [Hin H]]]; [tauto| |right; exists e'; simpl; tauto].
        right. exists e. simpl. split; [tauto|]. split; [apply covb_spec; exact E|exact H].
      * intros [H|[e' [[<-|Hin] [H1 H2]]]]; [tauto|tauto|]. right. exists e'. tauto.
    + destruct (IH acc HX Hacc) as [V C]. split; [exact V|]. intros s. rewrite C.
      unfold cov2. split.
      * intros [H|[e' [Hin H]]]; [tauto|right; exists e'; simpl; tauto].
      * intros [H|[e' [[<-|Hin] [H1 H2]]]]; [tauto| |right; exists e'; tauto].
        apply covb_spec in H1. congruence.
Qed.

Lemma valid_nil ub : Valid ub [].
Proof. constructor; [exact I|constructor]. Qed.

Lemma s_at_spec ub X t : WF ub X ->
  Valid ub (s_at X t) /\ forall s, cov (s_at X t) s <-> cov2 X t s.
Proof.
  intros H. destruct (s_at_fold ub X t [] H (valid_nil ub)) as [V C]. split; [exact V|].
  intros s. rewrite C. split; [intros [Hc|Hc]; [destruct (cov_nil _ Hc)|exact Hc]|tauto].
Qed.

(** [s_at] only depends on which time parts cover t *)
Lemma s_at_ext X t t' : (forall e, In e X -> covb (fst e) t = covb (fst e) t') -> s_at X t = s_at X t'.
Proof.
  unfold s_at. generalize (@nil range). induction X as [|e X IH]; intros acc H; simpl; [reflexivity|].
  rewrite (H e (or_introl eq_refl)). apply IH. intros e' He'. apply H. right. exact He'.
Qed.

(** all time bounds of X *)
Definition tbounds (X : stmoc) : list N :=
  flat_map (fun e => flat_map (fun r => [fst r; snd r]) (fst e)) X.

Lemma tbounds_in X e r : In e X -> In r (fst e) -> In (fst r) (tbounds X) /\ In (snd r) (tbounds X).
Proof.
  intros He Hr. unfold tbounds. split; apply in_flat_map; exists e; (split; [exact He|]);
    apply in_flat_map; exists r; (split; [exact Hr|simpl; tauto]).
Qed.

(** greatest element of l that is <= t *)
Fixpoint max_le (l : list N) (t : N) : option N :=
  match l with
  | [] => None
  | b :: l' =>
      match max_le l' t with
      | None => if b <=? t then Some b else None
      | Some m => if (b <=? t) && (m <? b) then Some b else Some m
      end
  end.

Lemma max_le_some l t : forall p, max_le l t = Some p ->
  In p l /\ p <= t /\ forall b, In b l -> b <= t -> b <= p.
Proof.
  induction l as [|b l IH]; intros p H; simpl in H; [discriminate|].
  destruct (max_le l t) as [m|] eqn:E.
  - destruct (IH m eq_refl) as (I1 & I2 & I3).
    destruct ((b <=? t) && (m <? b)) eqn:C.
    + inversion H; subst p. apply andb_true_iff in C. destruct C as [C1 C2].
      apply N.leb_le in C1. apply N.ltb_lt in C2.
      split; [left; reflexivity|]. split; [exact C1|].
      intros b' [<-|Hb'] Hle; [lia|]. specialize (I3 b' Hb' Hle). lia.
    + inversion H; subst p. split; [right; exact I1|]. split; [exact I2|].
      intros b' [<-|Hb'] Hle; [|apply I3; assumption].
      apply andb_false_iff in C. destruct C as [C|C]; [apply N.leb_gt in C; lia|apply N.ltb_ge in C; exact C].
  - destruct (b <=? t) eqn:C; [|discriminate]. inversion H; subst p. apply N.leb_le in C.
    split; [left; reflexivity|]. split; [exact C|].
    intros b' [<-|Hb'] Hle; [lia|].
    exfalso. clear -E Hb' Hle. induction l as [|x l IH]; [destruct Hb'|].
    simpl in E. destruct (max_le l t) eqn:E'; [destruct ((x <=? t) && (n <? x)); discriminate|].
    destruct (x <=? t) eqn:C; [discriminate|]. apply N.leb_gt in C.
    destruct Hb' as [<-|Hb']; [lia|]. apply IH; [reflexivity|exact Hb'].
Qed.

Lemma max_le_none l t : max_le l t = None -> forall b, In b l -> t < b.
Proof.
  induction l as [|x l IH]; intros E b Hb; [destruct Hb|].
  simpl in E. destruct (max_le l t) eqn:E'; [destruct ((x <=? t) && (n <? x)); discriminate|].
  destruct (x <=? t) eqn:C; [discriminate|]. apply N.leb_gt in C.
  destruct Hb as [<-|Hb]; [exact C|]. apply IH; [reflexivity|exact Hb].
Qed.

(** between two consecutive bounds nothing changes *)
Lemma covb_slice (B : list N) (T : list range) t p :
  (forall r, In r T -> In (fst r) B /\ In (snd r) B) ->
  p <= t -> (forall b, In b B -> b <= t -> b <= p) ->
  covb T t = covb T p.
Proof.
  intros HB Hpt Hmax. induction T as [|r T IH]; [reflexivity|].
  simpl. rewrite IH by (intros r' Hr'; apply HB; right; exact Hr').
  f_equal. destruct (HB r (or_introl eq_refl)) as [B1 B2].
  pose proof (Hmax _ B1) as M1. pose proof (Hmax _ B2) as M2.
  unfold inrb.
  destruct (N.leb_spec (fst r) t); destruct (N.leb_spec (fst r) p);
  destruct (N.ltb_spec t (snd r)); destruct (N.ltb_spec p (snd r)); simpl; try reflexivity; exfalso; lia.
Qed.

Lemma covb_before (T : list range) t :
  (forall r, In r T -> t < fst r) -> covb T t = false.
Proof.
  intros H. induction T as [|r T IH]; [reflexivity|]. simpl.
  rewrite IH by (intros r' Hr'; apply H; right; exact Hr').
  specialize (H r (or_introl eq_refl)). unfold inrb.
  destruct (fst r <=? t) eqn:E; [apply N.leb_le in E; lia|reflexivity].
Qed.

(** The general point-set checker. *)
Definition pts_opb (o : op2) (ub : N) (out A B : stmoc) : bool :=
  let bs := tbounds out ++ tbounds A ++ tbounds B in
  forallb (fun p => ranges_eqb (s_at out p) (op2_ranges o ub (s_at A p) (s_at B p))) bs.

Lemma slice_all (Bs : list N) (X : stmoc) t p :
  (forall b, In b (tbounds X) -> In b Bs) ->
  p <= t -> (forall b, In b Bs -> b <= t -> b <= p) -> s_at X t = s_at X p.
Proof.
  intros Hsub Hpt Hmax. apply s_at_ext. intros e He.
  apply (covb_slice Bs); [|exact Hpt|exact Hmax].
  intros r Hr. destruct (tbounds_in X e r He Hr). split; apply Hsub; assumption.
Qed.

Lemma fold_all_false (X : stmoc) t : (forall e, In e X -> covb (fst e) t = false) ->
  forall acc, fold_left (fun acc e => if covb (fst e) t then union acc (snd e) else acc) X acc = acc.
Proof.
  induction X as [|e X IH]; intros H acc; simpl; [reflexivity|].
  rewrite (H e (or_introl eq_refl)). apply IH. intros e' He'. apply H. right. exact He'.
Qed.

Lemma before_all (Bs : list N) (X : stmoc) t :
  (forall b, In b (tbounds X) -> In b Bs) ->
  (forall b, In b Bs -> t < b) -> s_at X t = [].
Proof.
  intros Hsub Hlt. unfold s_at. apply fold_all_false.
  intros e He. apply covb_before. intros r Hr. apply Hlt, Hsub. apply (tbounds_in X e r He Hr).
Qed.

Lemma setop_false o : ~ setop o False False.
Proof. destruct o; simpl; tauto. Qed.

Theorem pts_opb_spec o ub out A B : WF ub out -> WF ub A -> WF ub B ->
  (pts_opb o ub out A B = true <->
   forall t s, cov2 out t s <-> setop o (cov2 A t s) (cov2 B t s)).
Proof.
  intros Ho HA HB. unfold pts_opb.
  set (bs := tbounds out ++ tbounds A ++ tbounds B).
  assert (So : forall b, In b (tbounds out) -> In b bs) by (intros; unfold bs; apply in_or_app; tauto).
  assert (Sa : forall b, In b (tbounds A) -> In b bs) by (intros; unfold bs; apply in_or_app; right; apply in_or_app; tauto).
  assert (Sb : forall b, In b (tbounds B) -> In b bs) by (intros; unfold bs; apply in_or_app; right; apply in_or_app; tauto).
  rewrite forallb_forall. split.
  - intros H t s.
    assert (E : s_at out t = op2_ranges o ub (s_at A t) (s_at B t) \/
                (s_at out t = [] /\ s_at A t = [] /\ s_at B t = [])).
    { destruct (max_le bs t) as [p|] eqn:M.
      - left. destruct (max_le_some bs t p M) as (I1 & I2 & I3).
        rewrite (slice_all bs out t p So I2 I3), (slice_all bs A t p Sa I2 I3), (slice_all bs B t p Sb I2 I3).
        apply ranges_eqb_spec. apply H. exact I1.
      - right. pose proof (max_le_none bs t M) as L.
        repeat split; [apply (before_all bs _ t So L)|apply (before_all bs _ t Sa L)|apply (before_all bs _ t Sb L)]. }
    destruct (s_at_spec ub out t Ho) as [Vo Co]. destruct (s_at_spec ub A t HA) as [Va Ca].
    destruct (s_at_spec ub B t HB) as [Vb Cb].
    transitivity (setop o (cov (s_at A t) s) (cov (s_at B t) s));
      [|apply setop_iff; [apply Ca|apply Cb]].
    rewrite <- Co.
    destruct E as [E|(E1 & E2 & E3)].
    + rewrite E. apply op2_cov; assumption.
    + rewrite E1, E2, E3. split; [intros Hc; destruct (cov_nil _ Hc)|].
      intros Hs. exfalso. apply (setop_false o).
      revert Hs. apply setop_iff; split; try tauto; apply cov_nil.
  - intros H p _. apply ranges_eqb_spec.
    destruct (s_at_spec ub out p Ho) as [[Vo1 Vo2] Co]. destruct (s_at_spec ub A p HA) as [Va Ca].
    destruct (s_at_spec ub B p HB) as [Vb Cb].
    destruct (op2_valid o ub _ _ Va Vb) as [V1 V2].
    apply canon_unique; [exact Vo1|exact V1|].
    intros s. rewrite Co, (op2_cov o ub _ _ s Va Vb), (H p s).
    apply setop_iff; [symmetry; apply Ca|symmetry; apply Cb].
Qed.

(** equality of point sets = the checker for union against the empty MOC *)
Definition pts_eqb (ub : N) (X Y : stmoc) : bool := pts_opb OOr ub X Y [].

Theorem pts_eqb_spec ub X Y : WF ub X -> WF ub Y ->
  (pts_eqb ub X Y = true <-> forall t s, cov2 X t s <-> cov2 Y t s).
Proof.
  intros HX HY. unfold pts_eqb. rewrite (pts_opb_spec OOr ub X Y [] HX HY (Forall_nil _)).
  simpl. split; intros H t s; rewrite (H t s).
  - split; [intros [Hc|[e [[] _]]]; exact Hc|tauto].
  - split; [tauto|intros [Hc|[e [[] _]]]; exact Hc].
Qed.

(** ---------- validity of an ST-MOC (property C08) ---------- *)
Definition first_start (l : list range) : N := match l with [] => 0 | r :: _ => fst r end.
Definition last_end (l : list range) : N := fold_left (fun _ r => snd r) l 0.

Fixpoint time_ordered (lo : N) (X : stmoc) : Prop :=
  match X with
  | [] => True
  | e :: X' => lo <= first_start (fst e) /\ time_ordered (last_end (fst e)) X'
  end.
Fixpoint time_orderedb (lo : N) (X : stmoc) : bool :=
  match X with
  | [] => true
  | e :: X' => (lo <=? first_start (fst e)) && time_orderedb (last_end (fst e)) X'
  end.

Record Valid2 (wt ws dt ds : N) (X : stmoc) : Prop :=
  { v2_elems : Forall (fun e => fst e <> [] /\ snd e <> [] /\
                         ValidMoc Time wt dt (fst e) /\ ValidMoc Hpx ws ds (snd e)) X;
    v2_order : time_ordered 0 X }.

Definition nonemptyb {A} (l : list A) : bool := match l with [] => false | _ => true end.

Definition valid2db (wt ws dt ds : N) (X : stmoc) : bool :=
  forallb (fun e => nonemptyb (fst e) && nonemptyb (snd e) &&
                    valid_mocb Time wt dt (fst e) && valid_mocb Hpx ws ds (snd e)) X
  && time_orderedb 0 X.

Lemma time_orderedb_spec X : forall lo, time_orderedb lo X = true <-> time_ordered lo X.
Proof.
  induction X as [|e X IH]; intros lo; simpl; [tauto|].
  rewrite andb_true_iff, N.leb_le, IH. tauto.
Qed.

Lemma nonemptyb_spec {A} (l : list A) : nonemptyb l = true <-> l <> [].
Proof. destruct l; simpl; split; congruence. Qed.

Theorem valid2db_spec wt ws dt ds X : valid2db wt ws dt ds X = true <-> Valid2 wt ws dt ds X.
Proof.
  unfold valid2db. rewrite andb_true_iff, forallb_forall, time_orderedb_spec. split.
  - intros [H1 H2]. constructor; [|exact H2]. apply Forall_forall. intros e He.
    specialize (H1 e He). rewrite !andb_true_iff, !nonemptyb_spec, !valid_mocb_spec in H1. tauto.
  - intros [H1 H2]. split; [|exact H2]. intros e He. rewrite Forall_forall in H1.
    specialize (H1 e He). rewrite !andb_true_iff, !nonemptyb_spec, !valid_mocb_spec. tauto.
Qed.


(** ---------- observations (property C09) ---------- *)
(** an observation: time range [ta,tb) at the maximum time depth + a space coverage;
    at time depth dt it denotes the depth-dt time cells meeting [ta,tb) *)
Definition obs := ((N * N) * list range)%type.

Definition obs_elem (wt dt : N) (o : obs) : elem :=
  ([(down (shift Time wt dt) (fst (fst o)), up (shift Time wt dt) (snd (fst o)))], snd o).

Definition obs_moc (wt dt : N) (l : list obs) : stmoc := map (obs_elem wt dt) l.

Definition space_cell (ws ds c : N) : list range := [cell_range Hpx ws ds c].

Theorem obs_pointset wt dt l t s :
  Forall (fun o => fst (fst o) < snd (fst o)) l ->
  (cov2 (obs_moc wt dt l) t s <->
   exists o, In o l /\
     (exists y, (fst (fst o) <= y /\ y < snd (fst o)) /\
                y / 2 ^ shift Time wt dt = t / 2 ^ shift Time wt dt) /\
     cov (snd o) s).
Proof.
  intros Hne. unfold cov2, obs_moc. rewrite Forall_forall in Hne. split.
  - intros [e [Hin [Ht Hs]]]. apply in_map_iff in Hin. destruct Hin as [o [<- Ho]].
    exists o. split; [exact Ho|]. split; [|exact Hs].
    simpl in Ht. apply cov_cons in Ht. destruct Ht as [Ht|Ht]; [|destruct (cov_nil _ Ht)].
    unfold inr in Ht; simpl in Ht. apply (down_up_range _ _ _ _ (Hne o Ho)). exact Ht.
  - intros [o [Ho [Ht Hs]]]. exists (obs_elem wt dt o). split; [apply in_map; exact Ho|].
    split; [|exact Hs]. simpl. apply cov_cons. left. unfold inr; simpl.
    apply (down_up_range _ _ _ _ (Hne o Ho)). exact Ht.
Qed.

Lemma cov2_incl X Y t s : (forall e, In e X -> In e Y) -> cov2 X t s -> cov2 Y t s.
Proof. intros H [e [Hin Hc]]. exists e. split; [apply H; exact Hin|exact Hc]. Qed.

(** the point set only depends on the SET of observations: order, duplicates and
    batching cannot matter *)
Theorem obs_set_only wt dt l l' t s : (forall o, In o l <-> In o l') ->
  (cov2 (obs_moc wt dt l) t s <-> cov2 (obs_moc wt dt l') t s).
Proof.
  intros H. unfold obs_moc. split; apply cov2_incl; intros e He; apply in_map_iff in He;
    destruct He as [o [<- Ho]]; apply in_map; apply H; exact Ho.
Qed.

(** ---------- the range-2D form (one time range per entry; C09 second path, C10) ---------- *)
(** entries: disjoint increasing non-empty time ranges, each with a non-empty canonical space
    coverage, and two touching entries never carry the same space coverage (fused) *)
Fixpoint r2d_ok (ws ds : N) (lo : N) (prev : option (list range)) (X : stmoc) : Prop :=
  match X with
  | [] => True
  | e :: X' =>
      match fst e with
      | [r] => lo <= fst r /\ fst r < snd r /\ snd e <> [] /\ ValidMoc Hpx ws ds (snd e) /\
               (fst r = lo -> prev <> Some (snd e)) /\
               r2d_ok ws ds (snd r) (Some (snd e)) X'
      | _ => False
      end
  end.

Definition opt_ranges_eqb (p : option (list range)) (l : list range) : bool :=
  match p with None => false | Some l' => ranges_eqb l' l end.

Fixpoint r2d_okb (ws ds : N) (lo : N) (prev : option (list range)) (X : stmoc) : bool :=
  match X with
  | [] => true
  | e :: X' =>
      match fst e with
      | [r] => (lo <=? fst r) && (fst r <? snd r) && nonemptyb (snd e) && valid_mocb Hpx ws ds (snd e) &&
               negb ((fst r =? lo) && opt_ranges_eqb prev (snd e)) &&
               r2d_okb ws ds (snd r) (Some (snd e)) X'
      | _ => false
      end
  end.

Theorem r2d_okb_spec ws ds X : forall lo prev, r2d_okb ws ds lo prev X = true <-> r2d_ok ws ds lo prev X.
Proof.
  induction X as [|e X IH]; intros lo prev; simpl; [tauto|].
  destruct (fst e) as [|r [|r' t]]; try (split; [discriminate|tauto]).
  rewrite !andb_true_iff, N.leb_le, N.ltb_lt, nonemptyb_spec, valid_mocb_spec, IH.
  rewrite negb_true_iff, andb_false_iff, N.eqb_neq.
  assert (E : opt_ranges_eqb prev (snd e) = false <-> prev <> Some (snd e)).
  { destruct prev as [p|]; simpl; [|split; [discriminate|reflexivity]].
    split.
    - intros H1 H2. inversion H2; subst. assert (ranges_eqb (snd e) (snd e) = true) by (apply ranges_eqb_spec; reflexivity). congruence.
    - intros H1. apply not_true_is_false. intros H2. apply ranges_eqb_spec in H2. subst. congruence. }
  rewrite E. split.
  - intros (((((H1 & H2) & H3) & H4) & H5) & H6).
    refine (conj H1 (conj H2 (conj H3 (conj H4 (conj _ H6))))).
    intros Heq. destruct H5 as [H5|H5]; [congruence|exact H5].
  - intros (H1 & H2 & H3 & H4 & H5 & H6).
    refine (conj (conj (conj (conj (conj H1 H2) H3) H4) _) H6).
    destruct (N.eq_dec (fst r) lo) as [Heq|Hne]; [right; apply H5; exact Heq|left; exact Hne].
Qed.

(** ---------- lookups and folds (property C10) ---------- *)
Definition cov2b (X : stmoc) (t s : N) : bool := existsb (fun e => covb (fst e) t && covb (snd e) s) X.

Theorem cov2b_spec X t s : cov2b X t s = true <-> cov2 X t s.
Proof.
  unfold cov2b, cov2. rewrite existsb_exists. split; intros [e [Hin H]]; exists e; (split; [exact Hin|]).
  - apply andb_true_iff in H. rewrite !covb_spec in H. exact H.
  - apply andb_true_iff. rewrite !covb_spec. exact H.
Qed.

(** fold on a time MOC: union of the space coverages at the instants of T *)
Definition tfold (X : stmoc) (T : list range) : list range :=
  fold_left (fun acc e => if Query.intersects (fst e) T then union acc (snd e) else acc) X [].

Lemma tfold_fold ub X T : forall acc, WF ub X -> Valid ub acc ->
  Forall (fun e => Canon (fst e)) X -> Canon T ->
  let r := fold_left (fun acc e => if Query.intersects (fst e) T then union acc (snd e) else acc) X acc in
  Valid ub r /\ forall s, cov r s <-> cov acc s \/ exists t, cov T t /\ cov2 X t s.
Proof.
  induction X as [|e X IH]; intros acc Hwf Hacc Hc HT; simpl.
  - split; [exact Hacc|]. intros s. split; [tauto|]. intros [H|[t [_ [e [[] _]]]]]. exact H.
  - inversion Hwf as [|? ? He HX]; subst. inversion Hc as [|? ? Hce HcX]; subst.
    destruct (Query.intersects (fst e) T) eqn:E.
    + destruct (IH (union acc (snd e)) HX (valid_union ub _ _ Hacc He) HcX HT) as [V C].
      split; [exact V|]. intros s. rewrite C. rewrite (valid_union_cov ub) by assumption.
      destruct (proj1 (Query.intersects_spec _ _ Hce HT) E) as [t0 [E1 E2]].
      split.
      * intros [[H|H]|[t [Ht [e' [Hin H]]]]]; [tauto| |right; exists t; split; [exact Ht|exists e'; simpl; tauto]].
        right. exists t0. split; [exact E2|]. exists e. simpl. tauto.
      * intros [H|[t [Ht [e' [[<-|Hin] [H1 H2]]]]]]; [tauto|tauto|].
        right. exists t. split; [exact Ht|]. exists e'. tauto.
    + destruct (IH acc HX Hacc HcX HT) as [V C]. split; [exact V|]. intros s. rewrite C.
      split.
      * intros [H|[t [Ht [e' [Hin H]]]]]; [tauto|right; exists t; split; [exact Ht|exists e'; simpl; tauto]].
      * intros [H|[t [Ht [e' [[<-|Hin] [H1 H2]]]]]]; [tauto| |right; exists t; split; [exact Ht|exists e'; tauto]].
        exfalso. assert (Query.intersects (fst e) T = true); [|congruence].
        apply (proj2 (Query.intersects_spec _ _ Hce HT)). exists t. tauto.
Qed.

Theorem tfold_spec ub X T s : WF ub X -> Forall (fun e => Canon (fst e)) X -> Canon T ->
  (cov (tfold X T) s <-> exists t, cov T t /\ cov2 X t s).
Proof.
  intros Hwf Hc HT. destruct (tfold_fold ub X T [] Hwf (valid_nil ub) Hc HT) as [_ C].
  unfold tfold. rewrite C. split; [intros [H|H]; [destruct (cov_nil _ H)|exact H]|tauto].
Qed.

(** fold on a space MOC: the instants at which the (non-empty) space coverage of the
    entry lies inside S — as the implementation defines it, entry by entry *)
Definition sfold (X : stmoc) (S : list range) : list range :=
  canon_of (flat_map (fun e => if nonemptyb (snd e) && Query.contains S (snd e) then fst e else []) X).

Theorem sfold_spec X S t : Forall (fun e => Canon (snd e)) X -> Canon S ->
  (cov (sfold X S) t <->
   exists e, In e X /\ cov (fst e) t /\ snd e <> [] /\ forall s, cov (snd e) s -> cov S s).
Proof.
  intros Hc HS. unfold sfold. rewrite canon_of_cov. unfold cov at 1. rewrite Forall_forall in Hc.
  split.
  - intros [r [Hin Hr]]. apply in_flat_map in Hin. destruct Hin as [e [He Hre]].
    destruct (nonemptyb (snd e) && Query.contains S (snd e)) eqn:E; [|destruct Hre].
    apply andb_true_iff in E. destruct E as [E1 E2]. apply nonemptyb_spec in E1.
    pose proof (proj1 (Query.contains_spec _ _ HS (Hc e He)) E2) as E3.
    exists e. split; [exact He|]. split; [exists r; tauto|]. split; [exact E1|exact E3].
  - intros [e [He [[r [Hr1 Hr2]] [Hne Hsub]]]]. exists r. split; [|exact Hr2].
    apply in_flat_map. exists e. split; [exact He|].
    assert (E : nonemptyb (snd e) && Query.contains S (snd e) = true).
    { apply andb_true_iff. split; [apply nonemptyb_spec; exact Hne|].
      apply (proj2 (Query.contains_spec _ _ HS (Hc e He))). exact Hsub. }
    rewrite E. exact Hr1.
Qed.

(** ---------- an executable reference for ST algebra (used as model VALUE by the store
    histories of C13; every use is certified at run time by the verified checker
    [pts_opb], so no correctness theorem is needed for it) ---------- *)
Definition next_above (bs : list N) (p : N) : option N :=
  fold_left (fun acc b => if p <? b then match acc with None => Some b | Some m => Some (N.min m b) end else acc) bs None.

Definition st_op_spec (o : op2) (ub : N) (A B : stmoc) : stmoc :=
  let bs := tbounds A ++ tbounds B in
  flat_map (fun p => match next_above bs p with
                     | None => []
                     | Some q => match op2_ranges o ub (s_at A p) (s_at B p) with
                                 | [] => []
                                 | r0 :: rs => [([(p, q)], r0 :: rs)]
                                 end
                     end) (nodup N.eq_dec bs).
