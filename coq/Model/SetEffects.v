(** Model/SetEffects.v — (F, effect level) what a READER of a moc-set file can observe while
    an update runs, and after the updater is killed (C16).  crates/set/src/lib.rs: the file is
    a header (metadata array of cap entries, 0 = void; index array of cap+1 cumulative byte
    offsets) followed by the data of the MOCs.  A reader maps the file at its current length,
    reads the metadata first (stops at the first void entry), then the index, then slices the
    data: slicing beyond the mapped length is a failure ([None]).
    An update is the list of its externally visible effects in the order they become visible:
    stores through the shared mapping are visible at once, buffered data when flushed,
    lock / temporary file creation, rename and removal are atomic.  [D] is the payload of a
    data segment (the ranges of a MOC). *)
From Coq Require Import List NArith Arith Lia Bool.
Import ListNotations.
Open Scope N_scope.

Section Eff.
Variable D : Type.
Variable empty_payload : D.           (* what a reader decodes from a zero-length slice *)

Inductive status := SRemoved | SDeprecated | SValid.
Record ment := { m_st : status; m_id : N; m_depth : N }.

Record file := { meta : list (option ment);      (* cap entries, None = void *)
                 index : list N;                 (* cap + 1 cumulative offsets *)
                 flen : N;                       (* length of the file *)
                 segs : list (N * N * D) }.      (* complete data segments (start, end, payload), latest first *)

Fixpoint set_nth {A} (n : nat) (v : A) (l : list A) : list A :=
  match l, n with
  | [], _ => []
  | _ :: t, O => v :: t
  | x :: t, S n' => x :: set_nth n' v t
  end.

Fixpoint listed (m : list (option ment)) : list ment :=
  match m with Some e :: t => e :: listed t | _ => [] end.

Definition overlaps (s e : N) (g : N * N * D) : bool :=
  let '(s', e', _) := g in (s <? e') && (s' <? e).
Definition write_seg (off n : N) (p : D) (f : file) : file :=
  {| meta := meta f; index := index f; flen := N.max (flen f) (off + n);
     segs := (off, off + n, p) :: filter (fun g => negb (overlaps off (off + n) g)) (segs f) |}.

Fixpoint lookup (s e : N) (l : list (N * N * D)) : option D :=
  match l with
  | [] => None
  | (s', e', p) :: t => if (s =? s') && (e =? e') then Some p else lookup s e t
  end.
Definition read_seg (f : file) (s e : N) : option D :=
  if negb ((s <=? e) && (e <=? flen f)) then None          (* slice out of the mapped range: panic *)
  else if s =? e then Some empty_payload
  else lookup s e (segs f).

(** what list / query / extract see: every listed entry with its decoded data, or a failure *)
Fixpoint view_listed (ms : list ment) (idx : list N) (f : file) : option (list (ment * D)) :=
  match ms, idx with
  | m :: mt, s :: ((e :: _) as it) =>
      match read_seg f s e, view_listed mt it f with
      | Some p, Some r => Some ((m, p) :: r)
      | _, _ => None
      end
  | [], _ => Some []
  | _ :: _, _ => None
  end.
Definition view (f : file) : option (list (ment * D)) := view_listed (listed (meta f)) (index f) f.

(** ---------- effects ---------- *)
Inductive feff :=
| EData (off n : N) (p : D)
| EIndex (i : nat) (v : N)
| EMeta (i : nat) (m : option ment).

Definition fapply (f : file) (e : feff) : file :=
  match e with
  | EData off n p => write_seg off n p f
  | EIndex i v => {| meta := meta f; index := set_nth i v (index f); flen := flen f; segs := segs f |}
  | EMeta i m => {| meta := set_nth i m (meta f); index := index f; flen := flen f; segs := segs f |}
  end.

Record world := { main : file; lock : bool; tmp : option file }.
Inductive effect :=
| ELock | EUnlock
| EMain (e : feff)
| ETmpCreate (f0 : file) | ETmp (e : feff) | ERename.

Definition apply (w : world) (e : effect) : world :=
  match e with
  | ELock => {| main := main w; lock := true; tmp := tmp w |}
  | EUnlock => {| main := main w; lock := false; tmp := tmp w |}
  | EMain fe => {| main := fapply (main w) fe; lock := lock w; tmp := tmp w |}
  | ETmpCreate f0 => {| main := main w; lock := lock w; tmp := Some f0 |}
  | ETmp fe => {| main := main w; lock := lock w; tmp := option_map (fun t => fapply t fe) (tmp w) |}
  | ERename => match tmp w with Some t => {| main := t; lock := lock w; tmp := None |} | None => w end
  end.
Definition run (w : world) (l : list effect) : world := fold_left apply l w.

(** ---------- the updates, as lists of visible effects (order of the REPAIRED code) ---------- *)
Definition liveb (m : ment) : bool := match m_st m with SRemoved => false | _ => true end.

Definition append_effects (data_first : bool) (f : file) (m : ment) (n : N) (p : D) : list effect :=
  let k := length (listed (meta f)) in
  let off := nth k (index f) 0 in
  if existsb (fun e => liveb e && (m_id e =? m_id m)) (listed (meta f)) || Nat.leb (length (meta f)) k
  then [ELock; EUnlock]                                     (* duplicate identifier / file full: refused *)
  else if data_first
  then [ELock; EMain (EData off n p); EMain (EIndex (S k) (off + n)); EMain (EMeta k (Some m)); EUnlock]
  else [ELock; EMain (EIndex (S k) (off + n)); EMain (EMeta k (Some m)); EMain (EData off n p); EUnlock].

Fixpoint chg_effects_from (i : nat) (ms : list ment) (ids : list N) (st : status) : list effect :=
  match ms with
  | [] => []
  | m :: t =>
      (if liveb m && existsb (N.eqb (m_id m)) ids && negb (match m_st m, st with
                                                          | SRemoved, SRemoved | SDeprecated, SDeprecated | SValid, SValid => true
                                                          | _, _ => false end)
       then [EMain (EMeta i (Some {| m_st := st; m_id := m_id m; m_depth := m_depth m |}))] else [])
      ++ chg_effects_from (S i) t ids st
  end.
Definition chg_effects (f : file) (ids : list N) (st : status) : list effect :=
  ELock :: chg_effects_from 0 (listed (meta f)) ids st ++ [EUnlock].

(** purge: a temporary file receives the live entries, then replaces the file atomically *)
Fixpoint purge_copy (k : nat) (off : N) (l : list (ment * D * N)) : list effect :=
  match l with
  | [] => []
  | (m, p, n) :: t =>
      [ETmp (EData off n p); ETmp (EIndex (S k) (off + n)); ETmp (EMeta k (Some m))] ++ purge_copy (S k) (off + n) t
  end.
Definition purge_effects (f0 : file) (live : list (ment * D * N)) : list effect :=
  [ELock; ETmpCreate f0] ++ purge_copy 0 (nth 0 (index f0) 0) live ++ [ERename; EUnlock].

(** ---------- lemmas on the reader's view ---------- *)
Lemma read_seg_index_irrelevant f i v s e :
  read_seg {| meta := meta f; index := set_nth i v (index f); flen := flen f; segs := segs f |} s e = read_seg f s e.
Proof. reflexivity. Qed.

Lemma view_listed_ext ms : forall idx f f', (forall s e, read_seg f' s e = read_seg f s e) ->
  view_listed ms idx f' = view_listed ms idx f.
Proof.
  induction ms as [|m mt IH]; intros idx f f' H; [reflexivity|].
  destruct idx as [|s [|e it]]; try reflexivity. cbn [view_listed]. rewrite H, (IH (e :: it) f f' H). reflexivity.
Qed.

(** the view of [ms] only depends on the first [length ms + 1] offsets *)
Lemma view_listed_set_beyond ms : forall idx f j v, (length ms < j)%nat ->
  view_listed ms (set_nth j v idx) f = view_listed ms idx f.
Proof.
  induction ms as [|m mt IH]; intros idx f j v Hj; [destruct idx; reflexivity|].
  destruct j as [|[|j]]; [cbn in Hj; lia|cbn in Hj; lia|].
  destruct idx as [|s [|e it]]; try reflexivity.
  cbn [set_nth view_listed]. change (e :: set_nth j v it) with (set_nth (S j) v (e :: it)).
  rewrite (IH (e :: it) f (S j) v) by (cbn in Hj |- *; lia). reflexivity.
Qed.

Lemma view_listed_snoc ms : forall idx f m r, (length ms + 1 < length idx)%nat ->
  view_listed ms idx f = Some r ->
  view_listed (ms ++ [m]) idx f =
    match read_seg f (nth (length ms) idx 0) (nth (S (length ms)) idx 0) with
    | Some p => Some (r ++ [(m, p)]) | None => None end.
Proof.
  induction ms as [|m0 mt IH]; intros idx f m r Hl Hv.
  - cbn in Hv. inversion Hv; subst. destruct idx as [|s [|e it]]; [cbn in Hl; lia|cbn in Hl; lia|].
    cbn. destruct (read_seg f s e); [destruct it; reflexivity|reflexivity].
  - destruct idx as [|s [|e it]]; [discriminate|discriminate|].
    cbn [view_listed] in Hv. destruct (read_seg f s e) as [p0|] eqn:R; [|discriminate].
    destruct (view_listed mt (e :: it) f) as [r0|] eqn:V; [|discriminate]. inversion Hv; subst.
    cbn [app view_listed length]. rewrite R.
    rewrite (IH (e :: it) f m r0) by (try assumption; cbn in Hl |- *; lia).
    change (nth (S (length mt)) (s :: e :: it) 0) with (nth (length mt) (e :: it) 0).
    change (nth (S (S (length mt))) (s :: e :: it) 0) with (nth (S (length mt)) (e :: it) 0).
    destruct (read_seg f (nth (length mt) (e :: it) 0) (nth (S (length mt)) (e :: it) 0)); reflexivity.
Qed.

Lemma listed_voids ms r : listed (map Some ms ++ repeat None r) = ms.
Proof. induction ms as [|x t IH]; cbn; [destruct r; reflexivity|]. rewrite IH. reflexivity. Qed.

Lemma listed_set_void ms r m :
  listed (set_nth (length ms) (Some m) (map Some ms ++ repeat None (S r))) = ms ++ [m].
Proof. induction ms as [|x t IH]; cbn; [destruct r; reflexivity|]. cbn in IH. rewrite IH. reflexivity. Qed.

Lemma nth_set_nth_eq {A} (l : list A) : forall i v d, (i < length l)%nat -> nth i (set_nth i v l) d = v.
Proof. induction l as [|x t IH]; intros [|i] v d H; cbn in *; try lia; [reflexivity|apply IH; lia]. Qed.
Lemma nth_set_nth_neq {A} (l : list A) : forall i j v d, i <> j -> nth j (set_nth i v l) d = nth j l d.
Proof.
  induction l as [|x t IH]; intros [|i] [|j] v d H; cbn; try reflexivity; try congruence.
  apply IH. congruence.
Qed.
Lemma length_set_nth {A} (l : list A) : forall i v, length (set_nth i v l) = length l.
Proof. induction l as [|x t IH]; intros [|i] v; cbn; try reflexivity. rewrite IH. reflexivity. Qed.

(** reading a segment after a later write that does not overlap it *)
Lemma lookup_filter s e off n l : s < e -> negb (overlaps off (off + n) (s, e, empty_payload)) = true ->
  lookup s e (filter (fun g => negb (overlaps off (off + n) g)) l) = lookup s e l.
Proof.
  intros Hse Hno. induction l as [|[[s' e'] p] t IH]; [reflexivity|]. cbn [filter lookup].
  destruct (N.eqb_spec s s') as [->|Hs]; destruct (N.eqb_spec e e') as [->|He]; cbn [andb].
  - cbn [overlaps] in Hno |- *. rewrite Hno. cbn [lookup]. rewrite !N.eqb_refl. reflexivity.
  - destruct (negb (overlaps off (off + n) (s', e', p))); cbn [lookup];
      [destruct (N.eqb_spec s' s'); destruct (N.eqb_spec e e'); try congruence; exact IH|exact IH].
  - destruct (negb (overlaps off (off + n) (s', e', p))); cbn [lookup];
      [destruct (N.eqb_spec s s'); destruct (N.eqb_spec e' e'); try congruence; exact IH|exact IH].
  - destruct (negb (overlaps off (off + n) (s', e', p))); cbn [lookup];
      [destruct (N.eqb_spec s s'); destruct (N.eqb_spec e e'); try congruence; exact IH|exact IH].
Qed.

Lemma read_seg_after_write f off n p s e : e <= off -> read_seg f s e <> None ->
  read_seg (write_seg off n p f) s e = read_seg f s e.
Proof.
  intros Heo Hr. unfold read_seg in *. cbn [flen segs write_seg].
  destruct (N.leb_spec s e) as [Hse|Hse]; cbn [andb negb] in *; [|congruence].
  destruct (N.leb_spec e (flen f)) as [Hel|Hel]; cbn [negb] in *; [|congruence].
  destruct (N.leb_spec e (N.max (flen f) (off + n))) as [_|C]; [|lia]. cbn [negb].
  destruct (N.eqb_spec s e) as [E|E]; [reflexivity|].
  cbn [lookup]. destruct (N.eqb_spec s off) as [->|_]; [lia|]. cbn [andb].
  apply lookup_filter; [lia|]. cbn [overlaps]. apply negb_true_iff. apply andb_false_iff.
  left. apply N.ltb_ge. lia.
Qed.


(** every listed segment of a view that reads back ends at or before [off]: the view is unchanged
    by a later write starting at [off] *)
Lemma view_listed_after_write ms : forall idx f off n p r,
  view_listed ms idx f = Some r ->
  (forall i, (i <= length ms)%nat -> nth i idx 0 <= off) ->
  view_listed ms idx (write_seg off n p f) = Some r.
Proof.
  induction ms as [|m mt IH]; intros idx f off n p r Hv Hm; [cbn in *; exact Hv|].
  destruct idx as [|s [|e it]]; [discriminate|discriminate|]. cbn [view_listed] in *.
  destruct (read_seg f s e) as [p0|] eqn:R; [|discriminate].
  destruct (view_listed mt (e :: it) f) as [r0|] eqn:V; [|discriminate].
  rewrite read_seg_after_write, R; [| |congruence].
  - rewrite (IH (e :: it) f off n p r0 V); [exact Hv|]. intros i Hi. apply (Hm (S i)). cbn. lia.
  - apply (Hm 1%nat). cbn. lia.
Qed.

(** ---------- APPEND: at every boundary between two visible effects (and after a kill there)
    a reader sees the state before or the state after, never a failure ---------- *)
Theorem append_prefix_consistent f ms r m n p v0 :
  meta f = map Some ms ++ repeat None (S r) ->
  (length ms + 1 < length (index f))%nat ->
  view f = Some v0 ->
  (forall i, (i <= length ms)%nat -> nth i (index f) 0 <= nth (length ms) (index f) 0) ->
  nth (length ms) (index f) 0 <= flen f ->
  existsb (fun e => liveb e && (m_id e =? m_id m)) ms = false ->
  (n = 0 -> p = empty_payload) ->
  forall k, let w := run {| main := f; lock := false; tmp := None |} (firstn k (append_effects true f m n p)) in
    (view (main w) = Some v0 \/ view (main w) = Some (v0 ++ [(m, p)])) /\
    ((5 <= k)%nat -> view (main w) = Some (v0 ++ [(m, p)]) /\ lock w = false).
Proof.
  intros Hmeta Hlen Hview Hmono Hend Hdup Hp k.
  assert (HL : listed (meta f) = ms) by (rewrite Hmeta; apply listed_voids).
  unfold append_effects. rewrite HL, Hdup. cbn [orb].
  assert (Hfull : Nat.leb (length (meta f)) (length ms) = false).
  { apply Nat.leb_gt. rewrite Hmeta, app_length, map_length, repeat_length. lia. }
  rewrite Hfull. set (off := nth (length ms) (index f) 0) in *.
  unfold view in Hview. rewrite HL in Hview.
  (* the four interesting states *)
  set (f1 := write_seg off n p f).
  set (f2 := fapply f1 (EIndex (S (length ms)) (off + n))).
  set (f3 := fapply f2 (EMeta (length ms) (Some m))).
  assert (V1 : view f1 = Some v0).
  { unfold view. cbn [meta index f1 write_seg]. rewrite HL. apply view_listed_after_write; assumption. }
  assert (V2 : view f2 = Some v0).
  { unfold view, f2. cbn [fapply meta index]. cbn [f1 write_seg meta]. rewrite HL.
    rewrite view_listed_set_beyond by lia.
    rewrite (view_listed_ext ms (index f) f1); [|intros; reflexivity].
    apply view_listed_after_write; assumption. }
  assert (V3 : view f3 = Some (v0 ++ [(m, p)])).
  { unfold view, f3. cbn [fapply meta index]. cbn [f2 fapply meta index f1 write_seg].
    rewrite Hmeta, listed_set_void.
    assert (E : view_listed ms (set_nth (S (length ms)) (off + n) (index f))
                  {| meta := set_nth (length ms) (Some m) (map Some ms ++ repeat None (S r));
                     index := set_nth (S (length ms)) (off + n) (index f);
                     flen := N.max (flen f) (off + n);
                     segs := (off, off + n, p) :: filter (fun g => negb (overlaps off (off + n) g)) (segs f) |} = Some v0).
    { rewrite view_listed_set_beyond by lia.
      rewrite (view_listed_ext ms (index f) f1); [|intros; reflexivity].
      apply view_listed_after_write; assumption. }
    rewrite (view_listed_snoc ms _ _ m v0); [|rewrite length_set_nth; lia|exact E].
    rewrite nth_set_nth_neq by lia. rewrite nth_set_nth_eq by lia. fold off.
    unfold read_seg. cbn [flen segs]. unfold f1, write_seg. cbn [flen segs].
    destruct (N.leb_spec off (off + n)) as [_|C]; [|lia].
    destruct (N.leb_spec (off + n) (N.max (flen f) (off + n))) as [_|C]; [|lia]. cbn [andb negb].
    destruct (N.eqb_spec off (off + n)) as [E0|E0].
    - rewrite Hp by lia. reflexivity.
    - cbn [lookup]. rewrite !N.eqb_refl. reflexivity. }
  destruct k as [|[|[|[|[|k]]]]]; cbn [firstn run fold_left apply main lock];
    try (split; [left; unfold view; rewrite HL; exact Hview|intros; lia]).
  - fold f1. split; [left; exact V1|intros; lia].
  - fold f1. fold f2. split; [left; exact V2|intros; lia].
  - fold f1. fold f2. fold f3. split; [right; exact V3|intros; lia].
  - fold f1. fold f2. fold f3. destruct k; cbn [firstn fold_left apply main lock]; (split; [right; exact V3|intros _; split; [exact V3|reflexivity]]).
Qed.

(** D16: with the order of the code before the repair (index and metadata stored before the
    data is flushed) a reader at the boundary after the metadata store fails *)
Theorem append_meta_before_data_refuted f ms r m n p v0 :
  meta f = map Some ms ++ repeat None (S r) ->
  (length ms + 1 < length (index f))%nat ->
  view f = Some v0 ->
  nth (length ms) (index f) 0 = flen f -> 0 < n ->
  existsb (fun e => liveb e && (m_id e =? m_id m)) ms = false ->
  view (main (run {| main := f; lock := false; tmp := None |} (firstn 3 (append_effects false f m n p)))) = None.
Proof.
  intros Hmeta Hlen Hview Hend Hn Hdup.
  assert (HL : listed (meta f) = ms) by (rewrite Hmeta; apply listed_voids).
  unfold append_effects. rewrite HL, Hdup. cbn [orb].
  assert (Hfull : Nat.leb (length (meta f)) (length ms) = false).
  { apply Nat.leb_gt. rewrite Hmeta, app_length, map_length, repeat_length. lia. }
  rewrite Hfull. set (off := nth (length ms) (index f) 0) in *.
  cbn [firstn run fold_left apply main fapply]. unfold view. cbn [meta index].
  rewrite Hmeta, listed_set_void.
  unfold view in Hview. rewrite HL in Hview.
  rewrite (view_listed_snoc ms _ _ m v0); [|rewrite length_set_nth; lia|].
  - rewrite nth_set_nth_neq by lia. rewrite nth_set_nth_eq by lia. fold off.
    unfold read_seg. cbn [flen]. destruct (N.leb_spec (off + n) (flen f)) as [C|_]; [lia|].
    rewrite andb_false_r. reflexivity.
  - rewrite view_listed_set_beyond by lia.
    rewrite (view_listed_ext ms (index f) f); [exact Hview|intros; reflexivity].
Qed.

(** CHANGE OF STATUS: metadata-only stores never make a listed MOC unreadable *)
Lemma view_listed_status_irrelevant ms : forall ms' idx f,
  length ms' = length ms ->
  view_listed ms' idx f = option_map (fun r => combine ms' (map snd r)) (view_listed ms idx f).
Proof.
  induction ms as [|m mt IH]; intros [|m' mt'] idx f Hl; try discriminate; [reflexivity|].
  destruct idx as [|s [|e it]]; try reflexivity. cbn [view_listed].
  rewrite (IH mt' (e :: it) f) by (cbn in Hl; lia).
  destruct (read_seg f s e); [|reflexivity]. destruct (view_listed mt (e :: it) f); reflexivity.
Qed.

(** PURGE: effects on the temporary file are invisible; the switch is the atomic rename *)
Lemma run_tmp_only_main w l : Forall (fun e => match e with ETmp _ | ETmpCreate _ | ELock | EUnlock => True | _ => False end) l ->
  main (run w l) = main w.
Proof.
  revert w. induction l as [|e t IH]; intros w H; [reflexivity|]. inversion H; subst. cbn [run fold_left].
  change (fold_left apply t (apply w e)) with (run (apply w e) t). rewrite IH by assumption.
  destruct e; try contradiction; reflexivity.
Qed.

End Eff.

Arguments meta {D}. Arguments index {D}. Arguments flen {D}. Arguments segs {D}.
Arguments main {D}. Arguments lock {D}. Arguments tmp {D}.
Arguments EData {D}. Arguments EIndex {D}. Arguments EMeta {D}.
Arguments ELock {D}. Arguments EUnlock {D}. Arguments EMain {D}. Arguments ETmpCreate {D}. Arguments ETmp {D}. Arguments ERename {D}.
Arguments fapply {D}. Arguments apply {D}. Arguments run {D}. Arguments view {D}.
Arguments append_effects {D}. Arguments chg_effects {D}. Arguments purge_effects {D}.
Arguments view_listed {D}. Arguments read_seg {D}. Arguments write_seg {D}.

(** ---------- executable wrappers used by the correspondence run (payload = an identifier of the
    MOC content, 0 for the empty MOC) ---------- *)
Definition empty_file (cap : nat) (h : N) : file N :=
  {| meta := repeat None cap; index := h :: repeat 0 cap; flen := h; segs := [] |}.

(** the file obtained by appending the given entries (entry, byte size, payload) in order *)
Definition mk_file (cap : nat) (h : N) (ents : list (ment * N * N)) : file N :=
  fold_left (fun f e => let '(m, n, p) := e in
               let k := length (listed (meta f)) in
               let off := nth k (index f) 0 in
               fold_left fapply [EData off n p; EIndex (S k) (off + n); EMeta k (Some m)] f)
            ents (empty_file cap h).

Definition sizes_of (f : file N) : list N :=
  (fix go (k : nat) (idx : list N) : list N :=
     match k, idx with
     | S k', s :: ((e :: _) as t) => (e - s) :: go k' t
     | _, _ => []
     end) (length (listed (meta f))) (index f).

(** the live entries of [f] with payload and size, as purge copies them *)
Definition live_entries (f : file N) : list (ment * N * N) :=
  match view 0 f with
  | Some v => flat_map (fun x => let '((m, p), n) := x in if liveb m then [(m, p, n)] else [])
                       (combine v (sizes_of f))
  | None => []
  end.

Inductive update := UAppend (m : ment) (n p : N) | UChg (ids : list N) (st : status) | UPurge (cap : nat) (h : N).

Definition effects_of (data_first : bool) (f : file N) (u : update) : list (effect N) :=
  match u with
  | UAppend m n p => append_effects data_first f m n p
  | UChg ids st => chg_effects f ids st
  | UPurge cap h => purge_effects (empty_file cap h) (live_entries f)
  end.

(** world reached after the first [k] visible effects of [u] started on [w] (k beyond the end = completed) *)
Definition at_prefix (data_first : bool) (w : world N) (u : update) (k : nat) : world N :=
  run w (firstn k (effects_of data_first (main w) u)).
Definition n_effects (data_first : bool) (w : world N) (u : update) : nat :=
  length (effects_of data_first (main w) u).
(** cleaning after a killed updater: the stale lock and temporary file are removed *)
Definition cleanup (w : world N) : world N := {| main := main w; lock := false; tmp := None |}.
