(** Model/Build.v — SPECIFICATION (S) of MOC builders and n-ary operators.
    A builder's result is a function of the SET of pushed elements only: order,
    duplication and batching (buffer flushes) cannot matter.  N-ary operators are
    left folds of the binary operator. *)
From Coq Require Import List NArith Lia Bool Permutation.
From MOC.Base Require Import RangeSet.
From MOC.Model Require Import Qty Ops1D.
Import ListNotations.
Open Scope N_scope.

(** builder fed with (max-depth) ranges at target depth d *)
Definition build_ranges (q : qty) (w d : N) (l : list range) : list range :=
  degrade (shift q w d) l.

(** builder fed with depth-d cell numbers *)
Definition cell_range (q : qty) (w d c : N) : range :=
  (c * 2 ^ shift q w d, (c + 1) * 2 ^ shift q w d).
Definition build_cells (q : qty) (w d : N) (cells : list N) : list range :=
  canon_of (map (cell_range q w d) cells).

(** builder fed with (depth, idx) cells, result at depth d *)
Definition build_dcells (q : qty) (w d : N) (cells : list (N * N)) : list range :=
  build_ranges q w d (map (fun c => cell_range q w (fst c) (snd c)) cells).

(** n-ary operators: left fold from the first element; empty list -> empty MOC of depth 0 *)
Definition kway (o : op2) (q : qty) (w : N) (l : list (N * list range)) : N * list range :=
  match l with
  | [] => (0, [])
  | m :: t => fold_left (fun acc x => moc_op2 o q w (fst acc) (snd acc) (fst x) (snd x)) t m
  end.

(** ---------- theorems ---------- *)

Theorem degrade_ext k l l' : NonEmptyR l -> NonEmptyR l' ->
  (forall x, cov l x <-> cov l' x) -> degrade k l = degrade k l'.
Proof.
  intros H H' Heq. apply canon_unique; [apply degrade_canon|apply degrade_canon|].
  intros x. rewrite !degrade_cov by assumption.
  split; intros [y [Hy1 Hy2]]; exists y; (split; [apply Heq; exact Hy1|exact Hy2]).
Qed.

Lemma nonempty_perm l l' : Permutation l l' -> NonEmptyR l -> NonEmptyR l'.
Proof. unfold NonEmptyR. intros P H. eapply Permutation_Forall; eassumption. Qed.

Lemma cov_perm l l' x : Permutation l l' -> (cov l x <-> cov l' x).
Proof.
  intros P. unfold cov. split; intros [r [Hin Hr]]; exists r; split; auto.
  - eapply Permutation_in; eassumption.
  - eapply Permutation_in; [apply Permutation_sym|]; eassumption.
Qed.

Theorem build_order_insensitive q w d l l' : NonEmptyR l -> Permutation l l' ->
  build_ranges q w d l = build_ranges q w d l'.
Proof.
  intros H P. apply degrade_ext; [exact H|eapply nonempty_perm; eassumption|].
  intros x. apply cov_perm. exact P.
Qed.

Theorem build_duplicates_insensitive q w d l r : NonEmptyR l -> In r l ->
  build_ranges q w d (r :: l) = build_ranges q w d l.
Proof.
  intros H Hin. apply degrade_ext; [|exact H|].
  - constructor; [|exact H]. unfold NonEmptyR in H. rewrite Forall_forall in H. apply H. exact Hin.
  - intros x. rewrite cov_cons. split; [|tauto]. intros [Hr|Hc]; [exists r; split; assumption|exact Hc].
Qed.

Lemma nonempty_app l1 l2 : NonEmptyR l1 -> NonEmptyR l2 -> NonEmptyR (l1 ++ l2).
Proof. unfold NonEmptyR. intros. apply Forall_app. split; assumption. Qed.

(** batching: flushing a buffer and merging with the previous MOC by union gives
    the same MOC as building everything at once — for ANY split point, hence by
    induction for any sequence of flushes / any buffer capacity *)
Theorem build_batching q w d l1 l2 : NonEmptyR l1 -> NonEmptyR l2 ->
  build_ranges q w d (l1 ++ l2) = union (build_ranges q w d l1) (build_ranges q w d l2).
Proof.
  intros H1 H2. unfold build_ranges.
  apply canon_unique; [apply degrade_canon| |].
  - apply union_canon; [apply canon_nonempty; apply degrade_canon|apply degrade_canon].
  - intros x. rewrite union_cov by (apply canon_nonempty; apply degrade_canon).
    rewrite !degrade_cov by (try apply nonempty_app; assumption).
    split.
    + intros [y [Hy1 Hy2]]. apply cov_app in Hy1. destruct Hy1 as [Hy1|Hy1]; [left|right]; exists y; tauto.
    + intros [[y [Hy1 Hy2]]|[y [Hy1 Hy2]]]; exists y; (split; [apply cov_app; tauto|exact Hy2]).
Qed.

Theorem build_covers q w d l x : NonEmptyR l ->
  (cov (build_ranges q w d l) x <->
   exists y, cov l y /\ y / 2 ^ shift q w d = x / 2 ^ shift q w d).
Proof. intros H. apply degrade_cov. exact H. Qed.

Theorem build_valid q w d l : d <= max_depth q w -> NonEmptyR l -> Bounded (n_cells_max q w) l ->
  ValidMoc q w d (build_ranges q w d l).
Proof.
  intros Hd Hne Hb. constructor; [exact Hd| |apply degrade_aligned].
  constructor; [apply degrade_canon|].
  apply degrade_bounded; [apply ncm_mult; exact Hd|exact Hne|exact Hb].
Qed.

(** fixed-depth cells: the cell ranges are already aligned, so building is plain
    canonicalisation and equals the range builder on the cell ranges *)
Lemma cell_range_nonempty q w d c : fst (cell_range q w d c) < snd (cell_range q w d c).
Proof. unfold cell_range; simpl. pose proof (pow2_pos (shift q w d)). nia. Qed.

Theorem build_cells_covers q w d cells x :
  cov (build_cells q w d cells) x <-> exists c, In c cells /\ x / 2 ^ shift q w d = c.
Proof.
  unfold build_cells. rewrite canon_of_cov. unfold cov. pose proof (pow2_pos (shift q w d)) as Hp.
  split.
  - intros [r [Hin [H1 H2]]]. apply in_map_iff in Hin. destruct Hin as [c [<- Hc]].
    exists c. split; [exact Hc|]. unfold cell_range in *; simpl in *.
    symmetry. apply (N.div_unique _ _ _ (x - c * 2 ^ shift q w d)); lia.
  - intros [c [Hc Hx]]. exists (cell_range q w d c). split; [apply in_map; exact Hc|].
    unfold inr, cell_range; simpl. subst c.
    destruct (divmod_facts (2 ^ shift q w d) x Hp). lia.
Qed.

(** n-ary union / intersection semantics *)
Definition AllValid q w (l : list (N * list range)) : Prop :=
  Forall (fun m => ValidMoc q w (fst m) (snd m)) l.

Lemma kway_fold_valid o q w t : forall m, ValidMoc q w (fst m) (snd m) -> AllValid q w t ->
  let r := fold_left (fun acc x => moc_op2 o q w (fst acc) (snd acc) (fst x) (snd x)) t m in
  ValidMoc q w (fst r) (snd r) /\
  fst r = fold_left (fun a x => N.max a (fst x)) t (fst m).
Proof.
  induction t as [|m' t IH]; intros m Hm Ht; simpl; [split; [exact Hm|reflexivity]|].
  inversion Ht as [|? ? Hm' Ht']; subst.
  destruct (moc_op2_correct o q w _ _ _ _ Hm Hm') as (R1 & R2 & R3).
  apply IH; [exact R2|exact Ht'].
Qed.

Theorem kway_valid o q w l : AllValid q w l ->
  ValidMoc q w (fst (kway o q w l)) (snd (kway o q w l)).
Proof.
  destruct l as [|m t]; intros H; simpl.
  - apply validmoc_empty. lia.
  - inversion H as [|? ? Hm Ht]; subst. apply (kway_fold_valid o q w t m Hm Ht).
Qed.

Lemma kway_fold_or q w t : forall m x, ValidMoc q w (fst m) (snd m) -> AllValid q w t ->
  (cov (snd (fold_left (fun acc y => moc_op2 OOr q w (fst acc) (snd acc) (fst y) (snd y)) t m)) x <->
   cov (snd m) x \/ exists m', In m' t /\ cov (snd m') x).
Proof.
  induction t as [|m' t IH]; intros m x Hm Ht; simpl.
  - split; [tauto|intros [H|[? [[] _]]]; exact H].
  - inversion Ht as [|? ? Hm' Ht']; subst.
    destruct (moc_op2_correct OOr q w _ _ _ _ Hm Hm') as (R1 & R2 & R3).
    rewrite (IH _ x R2 Ht'). rewrite R3. simpl. split.
    + intros [[H|H]|[m2 [Hin H]]]; [tauto|right; exists m'; tauto|right; exists m2; tauto].
    + intros [H|[m2 [[<-|Hin] H]]]; [tauto|tauto|right; exists m2; tauto].
Qed.

Theorem kway_or_semantics q w l x : AllValid q w l ->
  (cov (snd (kway OOr q w l)) x <-> exists m, In m l /\ cov (snd m) x).
Proof.
  destruct l as [|m t]; intros H.
  - simpl. split; [intros Hc; destruct (cov_nil _ Hc)|intros [? [[] _]]].
  - inversion H as [|? ? Hm Ht]; subst. unfold kway. rewrite (kway_fold_or q w t m x Hm Ht).
    split.
    + intros [Hc|[m' [Hin Hc]]]; [exists m; simpl; tauto|exists m'; simpl; tauto].
    + intros [m' [[<-|Hin] Hc]]; [tauto|right; exists m'; tauto].
Qed.

Lemma kway_fold_and q w t : forall m x, ValidMoc q w (fst m) (snd m) -> AllValid q w t ->
  (cov (snd (fold_left (fun acc y => moc_op2 OAnd q w (fst acc) (snd acc) (fst y) (snd y)) t m)) x <->
   cov (snd m) x /\ forall m', In m' t -> cov (snd m') x).
Proof.
  induction t as [|m' t IH]; intros m x Hm Ht; simpl.
  - split; [intros H; split; [exact H|intros ? []]|tauto].
  - inversion Ht as [|? ? Hm' Ht']; subst.
    destruct (moc_op2_correct OAnd q w _ _ _ _ Hm Hm') as (R1 & R2 & R3).
    rewrite (IH _ x R2 Ht'). rewrite R3. simpl. split.
    + intros [[H1 H2] H3]. split; [exact H1|]. intros m2 [<-|Hin]; [exact H2|apply H3; exact Hin].
    + intros [H1 H2]. split; [split; [exact H1|apply H2; left; reflexivity]|].
      intros m2 Hin. apply H2. right. exact Hin.
Qed.

Theorem kway_and_semantics q w m t x : AllValid q w (m :: t) ->
  (cov (snd (kway OAnd q w (m :: t))) x <-> forall m', In m' (m :: t) -> cov (snd m') x).
Proof.
  intros H. inversion H as [|? ? Hm Ht]; subst. unfold kway.
  rewrite (kway_fold_and q w t m x Hm Ht). split.
  - intros [H1 H2] m' [<-|Hin]; [exact H1|apply H2; exact Hin].
  - intros H0. split; [apply H0; left; reflexivity|intros m' Hin; apply H0; right; exact Hin].
Qed.

(** symmetric difference: a point is covered iff it is covered by an odd number of operands *)
Fixpoint parity (l : list (N * list range)) (x : N) : bool :=
  match l with [] => false | m :: t => xorb (covb (snd m) x) (parity t x) end.

Lemma bool_xor_char (a b c : bool) :
  (c = true <-> (a = true /\ ~ b = true) \/ (b = true /\ ~ a = true)) -> c = xorb a b.
Proof. destruct a, b, c; simpl; intuition congruence. Qed.

Lemma kway_fold_xor q w t : forall m x, ValidMoc q w (fst m) (snd m) -> AllValid q w t ->
  covb (snd (fold_left (fun acc y => moc_op2 OXor q w (fst acc) (snd acc) (fst y) (snd y)) t m)) x
  = xorb (covb (snd m) x) (parity t x).
Proof.
  induction t as [|m' t IH]; intros m x Hm Ht; simpl.
  - rewrite xorb_false_r. reflexivity.
  - inversion Ht as [|? ? Hm' Ht']; subst.
    destruct (moc_op2_correct OXor q w _ _ _ _ Hm Hm') as (R1 & R2 & R3).
    rewrite (IH _ x R2 Ht'). rewrite <- xorb_assoc. f_equal.
    specialize (R3 x). simpl in R3. rewrite <- !covb_spec in R3.
    apply bool_xor_char. exact R3.
Qed.

Theorem kway_xor_semantics q w l x : AllValid q w l ->
  covb (snd (kway OXor q w l)) x = parity l x.
Proof.
  destruct l as [|m t]; intros H; [reflexivity|].
  inversion H as [|? ? Hm Ht]; subst. apply (kway_fold_xor q w t m x Hm Ht).
Qed.
