(** Model/AsciiProofs.v — theorems about Model/AsciiCodec.v (character-level ASCII codec). *)
From Coq Require Import List NArith Arith Lia Bool Permutation Sorted.
From MOC.Base Require Import RangeSet.
From MOC.Model Require Import Qty Query Build Repr AsciiCodec.
Import ListNotations.
Open Scope N_scope.

Arguments N.add : simpl never.
Arguments N.mul : simpl never.
Arguments N.sub : simpl never.
Arguments N.div : simpl never.
Arguments N.modulo : simpl never.
Arguments N.pow : simpl never.
Arguments N.eqb : simpl never.
Arguments N.leb : simpl never.
Arguments N.ltb : simpl never.

(** ---------- decimal numbers ---------- *)
Definition digits (ds : list N) : Prop := Forall (fun c => is_digit c = true) ds.

Lemma dval_snoc a b : dval (a ++ [b]) = dval a * 10 + (b - 48).
Proof. unfold dval. rewrite fold_left_app. reflexivity. Qed.

Lemma is_digit_spec c : is_digit c = true <-> 48 <= c <= 57.
Proof. unfold is_digit. rewrite andb_true_iff, !N.leb_le. tauto. Qed.

Lemma dec_aux_spec : forall f x l_acc, (0 < f)%nat -> x < 10 ^ N.of_nat f ->
  exists ds, adec_aux f x l_acc = ds ++ l_acc /\ ds <> [] /\ digits ds /\ dval ds = x.
Proof.
  induction f as [|f IH]; intros x l_acc Hf Hx; [lia|].
  cbn [adec_aux].
  pose proof (N.mod_lt x 10 ltac:(lia)) as Hm.
  pose proof (N.div_mod x 10 ltac:(lia)) as Hd.
  assert (Hx' : x / 10 < 10 ^ N.of_nat f).
  { apply N.div_lt_upper_bound; [lia|]. rewrite Nat2N.inj_succ, N.pow_succ_r' in Hx. exact Hx. }
  remember (x / 10) as k eqn:Ek. remember (x mod 10) as r eqn:Er.
  destruct (k =? 0) eqn:E.
  - apply N.eqb_eq in E. exists [48 + r]. repeat split.
    + discriminate.
    + constructor; [apply is_digit_spec; lia|constructor].
    + unfold dval. cbn [fold_left]. lia.
  - apply N.eqb_neq in E.
    assert (Hf' : (0 < f)%nat).
    { destruct f; [|lia]. change (10 ^ N.of_nat 0) with 1 in Hx'. lia. }
    destruct (IH k ((48 + r) :: l_acc) Hf' Hx') as [ds [E1 [E2 [E3 E4]]]].
    exists (ds ++ [48 + r]). repeat split.
    + rewrite E1, <- app_assoc. reflexivity.
    + destruct ds; discriminate.
    + apply Forall_app. split; [exact E3|]. constructor; [apply is_digit_spec; lia|constructor].
    + rewrite dval_snoc, E4. lia.
Qed.

Lemma dec_spec x : x < 2 ^ 64 -> adec x <> [] /\ digits (adec x) /\ dval (adec x) = x.
Proof.
  intros Hx. unfold adec.
  destruct (dec_aux_spec 20 x [] ltac:(lia)) as [ds [E1 [E2 [E3 E4]]]].
  { change (10 ^ N.of_nat 20) with 100000000000000000000. change (2 ^ 64) with 18446744073709551616 in Hx. lia. }
  rewrite E1, app_nil_r. auto.
Qed.

Definition nodigit_head (r : list N) : Prop := match r with [] => True | c :: _ => is_digit c = false end.

Lemma span_digits_app ds : forall r, digits ds -> nodigit_head r -> span_digits (ds ++ r) = (ds, r).
Proof.
  induction ds as [|c ds IH]; intros r Hd Hr.
  - cbn [app]. destruct r as [|c r]; [reflexivity|]. cbn [span_digits]. cbn in Hr. rewrite Hr. reflexivity.
  - inversion Hd as [|? ? Hc Hds]; subst. cbn [app span_digits]. rewrite Hc. rewrite (IH r Hds Hr). reflexivity.
Qed.

Lemma parse_val_dec w x r : w <= 64 -> x < 2 ^ w -> nodigit_head r ->
  parse_val w (adec x ++ r) = Some (x, r).
Proof.
  intros Hw Hx Hr.
  assert (Hx64 : x < 2 ^ 64).
  { eapply N.lt_le_trans; [exact Hx|]. apply N.pow_le_mono_r; lia. }
  destruct (dec_spec x Hx64) as [E1 [E2 E3]].
  unfold parse_val. rewrite (span_digits_app _ _ E2 Hr).
  destruct (adec x) as [|c t] eqn:ED; [congruence|].
  rewrite E3. destruct (N.ltb_spec x (2 ^ w)); [reflexivity|lia].
Qed.

(** ---------- tokens ---------- *)
Definition tok_str (use_len : bool) (t : token) : list N :=
  match t with
  | TDepth d => adec d ++ [47]
  | TCell i => adec i
  | TRange s e => if use_len then adec s ++ [43] ++ adec (e - s - 1) else adec s ++ [45] ++ adec (e - 1)
  end.

Definition tok_ok (w : N) (t : token) : Prop :=
  match t with
  | TDepth d => d < 2 ^ w
  | TCell i => i < 2 ^ w
  | TRange s e => s < e /\ e < 2 ^ w
  end.

Definition is_depth (t : token) : bool := match t with TDepth _ => true | _ => false end.

Definition ws_head (r : list N) : Prop := match r with [] => True | c :: _ => is_ws c = true end.

Lemma ws_not_digit c : is_ws c = true -> is_digit c = false.
Proof.
  unfold is_ws, is_digit. rewrite !orb_true_iff, !N.eqb_eq. intros H.
  apply andb_false_iff. rewrite !N.leb_gt. lia.
Qed.

Lemma ws_head_nodigit r : ws_head r -> nodigit_head r.
Proof. destruct r as [|c r]; cbn; [auto|apply ws_not_digit]. Qed.

Lemma sat_add_small w a b : a + b < 2 ^ w -> sat_add w a b = a + b.
Proof. intros H. unfold sat_add. apply N.min_l. lia. Qed.

Lemma parse_token_ok w ul t r : w <= 64 -> tok_ok w t -> (is_depth t = true \/ ws_head r) ->
  parse_token w (tok_str ul t ++ r) = TokOk t r.
Proof.
  intros Hw Ht Hr. unfold parse_token.
  destruct t as [d|i|s e]; cbn [tok_str tok_ok is_depth] in *.
  - rewrite <- app_assoc. rewrite (parse_val_dec w d ([47] ++ r) Hw Ht); [reflexivity|].
    cbn. reflexivity.
  - destruct Hr as [Hr|Hr]; [discriminate|].
    rewrite (parse_val_dec w i r Hw Ht (ws_head_nodigit _ Hr)).
    destruct r as [|c r]; [reflexivity|]. cbn in Hr.
    assert (c <> 47 /\ c <> 45 /\ c <> 43) as [N1 [N2 N3]].
    { unfold is_ws in Hr. rewrite !orb_true_iff, !N.eqb_eq in Hr. lia. }
    destruct c as [|p]; [reflexivity|].
    do 6 (destruct p as [p|p|]; try reflexivity); try (exfalso; lia).
  - destruct Hr as [Hr|Hr]; [discriminate|]. destruct Ht as [Hse He].
    destruct ul.
    + rewrite <- !app_assoc. rewrite (parse_val_dec w s ([43] ++ adec (e - s - 1) ++ r) Hw ltac:(lia)); [|cbn; reflexivity].
      cbn [app]. rewrite (parse_val_dec w (e - s - 1) r Hw ltac:(lia) (ws_head_nodigit _ Hr)).
      rewrite (sat_add_small w s (e - s - 1)) by lia. rewrite sat_add_small by lia.
      f_equal. f_equal. lia.
    + rewrite <- !app_assoc. rewrite (parse_val_dec w s ([45] ++ adec (e - 1) ++ r) Hw ltac:(lia)); [|cbn; reflexivity].
      cbn [app]. rewrite (parse_val_dec w (e - 1) r Hw ltac:(lia) (ws_head_nodigit _ Hr)).
      rewrite sat_add_small by lia. f_equal. f_equal. lia.
Qed.

(** ---------- documents as chunk lists ---------- *)
Inductive chunk := Ws (s : list N) | Tok (t : token).

Definition allws (s : list N) : Prop := Forall (fun c => is_ws c = true) s.

Section Render.
  Variable ul : bool.
  Definition cstr (c : chunk) : list N := match c with Ws s => s | Tok t => tok_str ul t end.
  Definition render (l : list chunk) : list N := flat_map cstr l.
  Fixpoint tokens_of (l : list chunk) : list token :=
    match l with [] => [] | Ws _ :: t => tokens_of t | Tok x :: t => x :: tokens_of t end.

  Variable w : N.
  Inductive WF : list chunk -> Prop :=
  | WF_nil : WF []
  | WF_ws s l : allws s -> WF l -> WF (Ws s :: l)
  | WF_depth d l : tok_ok w (TDepth d) -> WF l -> WF (Tok (TDepth d) :: l)
  | WF_tok t s l : tok_ok w t -> allws s -> s <> [] -> WF l -> WF (Tok t :: Ws s :: l).

  Lemma WF_app a b : WF a -> WF b -> WF (a ++ b).
  Proof. intros Ha Hb. induction Ha; cbn [app]; [exact Hb|constructor; auto..]. Qed.

  Lemma render_app a b : render (a ++ b) = render a ++ render b.
  Proof. unfold render. apply flat_map_app. Qed.

  Lemma tokens_of_app a b : tokens_of (a ++ b) = tokens_of a ++ tokens_of b.
  Proof. induction a as [|[s|t] a IH]; cbn [app tokens_of]; [reflexivity|exact IH|rewrite IH; reflexivity]. Qed.

  Lemma skip_ws_app s r : allws s -> skip_ws (s ++ r) = skip_ws r.
  Proof. induction 1 as [|c s Hc _ IH]; cbn [app skip_ws]; [reflexivity|rewrite Hc; exact IH]. Qed.

  Lemma skip_ws_digit c r : is_digit c = true -> skip_ws (c :: r) = c :: r.
  Proof.
    intros H. cbn [skip_ws]. destruct (is_ws c) eqn:E; [|reflexivity].
    apply ws_not_digit in E. congruence.
  Qed.

  Lemma tok_str_head t : tok_ok w t -> w <= 64 -> exists c r, tok_str ul t = c :: r /\ is_digit c = true.
  Proof.
    intros Ht Hw.
    assert (P : forall x, x < 2 ^ w -> exists c r, adec x = c :: r /\ is_digit c = true).
    { intros x Hx. assert (Hx64 : x < 2 ^ 64) by (eapply N.lt_le_trans; [exact Hx|apply N.pow_le_mono_r; lia]).
      destruct (dec_spec x Hx64) as [E1 [E2 _]]. destruct (adec x) as [|c r]; [congruence|].
      inversion E2; subst. eauto. }
    destruct t as [d|i|s e]; cbn [tok_str tok_ok] in *.
    - destruct (P d Ht) as [c [r [E1 E2]]]. rewrite E1. cbn [app]. eauto.
    - apply P. exact Ht.
    - destruct (P s ltac:(lia)) as [c [r [E1 E2]]]. destruct ul; rewrite E1; cbn [app]; eauto.
  Qed.

  Lemma ws_head_app s r : allws s -> s <> [] -> ws_head (s ++ r).
  Proof. intros Hs Hn. destruct s as [|c s]; [congruence|]. inversion Hs; subst. cbn. assumption. Qed.

  Lemma many_render l : w <= 64 -> WF l -> forall fuel l_acc, (length (render l) < fuel)%nat ->
    many w fuel (render l) l_acc = MDone (l_acc ++ tokens_of l) [].
  Proof.
    intros Hw H. induction H as [|s l Hs Hl IH|d l Hd Hl IH|t s l Ht Hs Hn Hl IH]; intros fuel l_acc Hf.
    - destruct fuel; [cbn in Hf; lia|]. cbn. rewrite app_nil_r. reflexivity.
    - destruct fuel; [lia|]. cbn [many render flat_map cstr]. fold (render l).
      rewrite (skip_ws_app _ _ Hs).
      assert (Hf' : (length (render l) < S fuel)%nat).
      { cbn [render flat_map cstr] in Hf. fold (render l) in Hf. rewrite app_length in Hf. lia. }
      specialize (IH (S fuel) l_acc Hf'). cbn [many tokens_of] in IH |- *. exact IH.
    - destruct fuel; [lia|]. cbn [many render flat_map cstr]. fold (render l).
      destruct (tok_str_head (TDepth d) Hd Hw) as [c [r [E1 E2]]].
      rewrite E1. cbn [app]. rewrite (skip_ws_digit _ _ E2).
      change (c :: r ++ render l) with ((c :: r) ++ render l). rewrite <- E1.
      rewrite (parse_token_ok w ul (TDepth d) (render l) Hw Hd (or_introl eq_refl)).
      cbn [tokens_of]. rewrite IH.
      + rewrite <- app_assoc. reflexivity.
      + cbn [render flat_map cstr] in Hf. fold (render l) in Hf. rewrite app_length, E1 in Hf. cbn [length] in Hf. lia.
    - destruct fuel; [lia|]. cbn [many render flat_map cstr]. fold (render l).
      destruct (tok_str_head t Ht Hw) as [c [r [E1 E2]]].
      rewrite E1. cbn [app]. rewrite (skip_ws_digit _ _ E2).
      change (c :: r ++ s ++ render l) with ((c :: r) ++ s ++ render l). rewrite <- E1.
      rewrite (parse_token_ok w ul t (s ++ render l) Hw Ht (or_intror (ws_head_app _ _ Hs Hn))).
      assert (Hf' : (length (render (Ws s :: l)) < fuel)%nat).
      { cbn [render flat_map cstr] in Hf |- *. fold (render l) in Hf |- *. rewrite !app_length, E1 in Hf. rewrite app_length. cbn [length] in Hf. lia. }
      assert (WFs : WF (Ws s :: l)) by (constructor; assumption).
      pose proof (IH fuel (l_acc ++ [t])) as IH'.
      (* go through the Ws chunk by hand *)
      destruct fuel; [lia|].
      cbn [many]. rewrite (skip_ws_app _ _ Hs).
      assert (Hf'' : (length (render l) < S fuel)%nat).
      { cbn [render flat_map cstr] in Hf'. fold (render l) in Hf'. rewrite app_length in Hf'. lia. }
      specialize (IH (S fuel) (l_acc ++ [t]) Hf''). cbn [many] in IH. rewrite IH.
      cbn [tokens_of]. rewrite <- app_assoc. reflexivity.
  Qed.
End Render.

(** ---------- the writer's buckets ---------- *)
Lemma nseq_in a n : forall d, In d (anseq a n) <-> a <= d < a + N.of_nat n.
Proof.
  revert a. induction n as [|n IH]; intros a d; cbn [anseq In].
  - split; [tauto|lia].
  - rewrite IH. split; [intros [H|H]|intros H; destruct (N.eq_dec a d); [left; assumption|right]]; lia.
Qed.

Lemma upd_nseq {A} (f : A -> A) (g : N -> A) n : forall a k,
  upd k f (map g (anseq a n)) = map (fun d => if d =? a + N.of_nat k then f (g d) else g d) (anseq a n).
Proof.
  induction n as [|n IH]; intros a k; [destruct k; reflexivity|].
  cbn [anseq map]. destruct k as [|k]; cbn [upd].
  - replace (a + N.of_nat 0) with a by lia. rewrite N.eqb_refl. f_equal.
    apply map_ext_in. intros d Hd. apply nseq_in in Hd.
    destruct (N.eqb_spec d a); [lia|reflexivity].
  - destruct (N.eqb_spec a (a + N.of_nat (S k))); [lia|]. f_equal.
    rewrite IH. apply map_ext. intros d. replace (a + 1 + N.of_nat k) with (a + N.of_nat (S k)) by lia. reflexivity.
Qed.

Section Writer.
  Variable fold : option N.
  Variable ul : bool.

  Definition pushf (sd : list N) (x : aelem) : list N := push fold sd (fmt_elem ul x).
  Definition sel (d : N) (es : list aelem) : list aelem := filter (fun x => adepth x =? d) es.
  Definition bucket (d : N) (es : list aelem) : list N := fold_left pushf (sel d es) (adec d ++ [47]).

  Lemma fill_map n : forall es (g : N -> list N),
    fill fold ul es (map g (anseq 0 n)) =
    map (fun d => fold_left pushf (sel d es) (g d)) (anseq 0 n).
  Proof.
    induction es as [|x es IH]; intros g; [reflexivity|].
    unfold fill in *. cbn [fold_left].
    rewrite (upd_nseq (fun sd => push fold sd (fmt_elem ul x)) g n 0 (N.to_nat (adepth x))).
    rewrite IH. apply map_ext. intros d. unfold sel. cbn [filter].
    rewrite N2Nat.id, N.add_0_l. rewrite (N.eqb_sym d).
    destruct (adepth x =? d); reflexivity.
  Qed.

  Lemma emit_all_map dmax (B : N -> list N) n : forall a,
    aemit_all fold dmax a (map B (anseq a n)) = flat_map (fun d => aemit fold dmax d (B d)) (anseq a n).
  Proof.
    induction n as [|n IH]; intros a; [reflexivity|].
    cbn [anseq map aemit_all flat_map]. rewrite IH. reflexivity.
  Qed.

  Lemma to_ascii_buckets dmax es :
    to_ascii dmax fold ul es =
    flat_map (fun d => aemit fold dmax d (bucket d es)) (anseq 0 (S (N.to_nat dmax))).
  Proof.
    unfold to_ascii, init_buckets. rewrite fill_map, emit_all_map. reflexivity.
  Qed.

  (** one element = optional "\n " + its token + " " *)
  Definition etok (x : aelem) : token :=
    match x with ECell _ i => TCell i | ERange _ s e => TRange s e end.

  Lemma fmt_elem_tok x : fmt_elem ul x = tok_str ul (etok x) ++ [32].
  Proof. destruct x as [d i|d s e]; cbn [fmt_elem etok tok_str]; [reflexivity|]. destruct ul; rewrite <- !app_assoc; reflexivity. Qed.

  Lemma push_shape sd s : exists nl, (nl = [] \/ nl = [10; 32]) /\ push fold sd s = sd ++ nl ++ s.
  Proof.
    unfold push. destruct fold as [n|].
    - destruct (n <? len sd - rfind_nl sd + len s).
      + exists [10; 32]. split; [auto|]. rewrite <- app_assoc. reflexivity.
      + exists []. split; [auto|reflexivity].
    - exists []. split; [auto|reflexivity].
  Qed.

  Variable w : N.

  Lemma allws_nl nl : nl = [] \/ nl = [10; 32] -> allws nl.
  Proof. intros [->| ->]; repeat constructor. Qed.

  Lemma push_all : forall E sd, Forall (fun x => tok_ok w (etok x)) E ->
    exists l, fold_left pushf E sd = sd ++ render ul l /\ WF w l /\ tokens_of l = map etok E /\
              (E = [] -> l = []) /\ (E <> [] -> exists b, render ul l = b ++ [32]).
  Proof.
    induction E as [|x E IH]; intros sd HE.
    - exists []. cbn [fold_left render flat_map tokens_of map]. rewrite app_nil_r.
      split; [reflexivity|]. split; [constructor|]. split; [reflexivity|]. split; [reflexivity|]. intros H. exfalso. apply H. reflexivity.
    - inversion HE as [|? ? Hx HE']; subst.
      cbn [fold_left]. unfold pushf at 2.
      destruct (push_shape sd (fmt_elem ul x)) as [nl [Hnl Ep]]. rewrite Ep.
      destruct (IH (sd ++ nl ++ fmt_elem ul x) HE') as [l [E1 [E2 [E3 [E4 E5]]]]].
      exists (Ws nl :: Tok (etok x) :: Ws [32] :: l).
      split; [|split; [|split; [|split]]].
      + rewrite E1. cbn [render flat_map cstr]. fold (render ul l). rewrite fmt_elem_tok. rewrite <- !app_assoc. reflexivity.
      + constructor; [apply allws_nl; exact Hnl|]. constructor; [exact Hx|repeat constructor|discriminate|exact E2].
      + cbn [tokens_of map]. rewrite E3. reflexivity.
      + discriminate.
      + intros _. destruct E as [|y E].
        * rewrite (E4 eq_refl). cbn [render flat_map cstr]. exists (nl ++ tok_str ul (etok x)). rewrite app_nil_r, <- app_assoc. reflexivity.
        * destruct (E5 ltac:(discriminate)) as [b Eb].
          exists (nl ++ tok_str ul (etok x) ++ [32] ++ b). cbn [render flat_map cstr]. fold (render ul l). rewrite Eb. rewrite <- !app_assoc. reflexivity.
  Qed.

  (** the token group a depth contributes to the document *)
  Definition group_toks (dmax d : N) (E : list aelem) : list token :=
    match E with
    | [] => if d =? dmax then [TDepth d] else []
    | _ => TDepth d :: map etok E
    end.

  Lemma last_snoc (a : list N) x : last (a ++ [x]) 0 = x.
  Proof. apply last_last. Qed.

  Lemma emit_bucket dmax d es : d < 2 ^ w -> Forall (fun x => tok_ok w (etok x)) (sel d es) ->
    exists l, aemit fold dmax d (bucket d es) = render ul l /\ WF w l /\
              tokens_of l = group_toks dmax d (sel d es).
  Proof.
    intros Hd HE. unfold bucket.
    destruct (push_all (sel d es) (adec d ++ [47]) HE) as [l [E1 [E2 [E3 [E4 E5]]]]].
    rewrite E1. unfold aemit, group_toks.
    destruct (sel d es) as [|x E] eqn:ES.
    - rewrite (E4 eq_refl). cbn [render flat_map]. rewrite app_nil_r.
      unfold ends_slash. rewrite last_snoc. cbn [N.eqb Pos.eqb negb orb].
      change (47 =? 47) with true. cbn [negb orb].
      destruct fold as [n|]; destruct (d =? dmax).
      + exists [Tok (TDepth d); Ws [10]]. split; [|split].
        * cbn [render flat_map cstr tok_str]. rewrite !app_nil_r. reflexivity.
        * constructor; [exact Hd|]. constructor; [repeat constructor|constructor].
        * reflexivity.
      + exists []. split; [reflexivity|]. split; [constructor|reflexivity].
      + exists [Tok (TDepth d); Ws [32]]. split; [|split].
        * cbn [render flat_map cstr tok_str]. rewrite !app_nil_r. reflexivity.
        * constructor; [exact Hd|]. constructor; [repeat constructor|constructor].
        * reflexivity.
      + exists []. split; [reflexivity|]. split; [constructor|reflexivity].
    - destruct (E5 ltac:(discriminate)) as [b Eb].
      assert (Hs : ends_slash ((adec d ++ [47]) ++ render ul l) = false).
      { unfold ends_slash. rewrite Eb, !app_assoc, last_snoc. reflexivity. }
      rewrite Hs. cbn [negb orb].
      destruct fold as [n|].
      + exists (Tok (TDepth d) :: l ++ [Ws [10]]). split; [|split].
        * cbn [render flat_map cstr tok_str]. fold (render ul (l ++ [Ws [10]])). rewrite render_app.
          cbn [render flat_map cstr]. rewrite app_nil_r, <- !app_assoc. reflexivity.
        * constructor; [exact Hd|]. apply WF_app; [exact E2|]. constructor; [repeat constructor|constructor].
        * cbn [tokens_of]. rewrite tokens_of_app, E3. cbn [tokens_of]. rewrite app_nil_r. reflexivity.
      + exists (Tok (TDepth d) :: l). split; [|split].
        * cbn [render flat_map cstr tok_str]. fold (render ul l). rewrite <- !app_assoc. reflexivity.
        * constructor; [exact Hd|exact E2].
        * cbn [tokens_of]. rewrite E3. reflexivity.
  Qed.

  Lemma doc_shape dmax es ds :
    Forall (fun d => d < 2 ^ w) ds -> Forall (fun x => tok_ok w (etok x)) es ->
    exists l, flat_map (fun d => aemit fold dmax d (bucket d es)) ds = render ul l /\ WF w l /\
              tokens_of l = flat_map (fun d => group_toks dmax d (sel d es)) ds.
  Proof.
    intros Hds Hes. induction ds as [|d ds IH].
    - exists []. repeat split. constructor.
    - inversion Hds as [|? ? Hd Hds']; subst.
      destruct (IH Hds') as [l2 [A1 [A2 A3]]].
      assert (HE : Forall (fun x => tok_ok w (etok x)) (sel d es)).
      { unfold sel. apply Forall_forall. intros x Hx. apply filter_In in Hx. rewrite Forall_forall in Hes. apply Hes. tauto. }
      destruct (emit_bucket dmax d es Hd HE) as [l1 [B1 [B2 B3]]].
      exists (l1 ++ l2). cbn [flat_map]. rewrite render_app, tokens_of_app, B1, A1, B3, A3.
      repeat split. apply WF_app; assumption.
  Qed.
End Writer.

(** ---------- the token loop on the groups ---------- *)
Definition elem_ok (q : qty) (x : aelem) : Prop :=
  match x with
  | ECell d i => i < n_cells q d
  | ERange d s e => s < e /\ e <= n_cells q d
  end.

Section Loop.
  Variable q : qty.
  Variable w : N.
  Hypothesis Hmd : max_depth q w <= 255.

  Lemma check_depth_ok d : d <= max_depth q w -> check_depth q w d = AOk d.
  Proof.
    intros H. unfold check_depth.
    destruct (N.ltb_spec 255 d); [lia|]. destruct (N.ltb_spec (max_depth q w) d); [lia|reflexivity].
  Qed.

  Lemma tloop_elems d : forall E st rest, l_cur st = d -> l_emax st = n_cells q d ->
    Forall (fun x => adepth x = d /\ elem_ok q x) E ->
    tloop q w st (map etok E ++ rest) =
    tloop q w {| l_cur := d; l_dmx := l_dmx st; l_emax := n_cells q d; l_acc := l_acc st ++ E |} rest.
  Proof.
    induction E as [|x E IH]; intros st rest Hc He HE.
    - cbn [map app]. rewrite app_nil_r. destruct st as [c m e a]. cbn in Hc, He. subst. reflexivity.
    - apply Forall_cons_iff in HE. destruct HE as [[Hx1 Hx2] HE'].
      cbn [map app tloop]. destruct x as [d' i|d' s e]; cbn [etok tstep adepth elem_ok] in *; subst d'.
      + rewrite He. destruct (N.leb_spec (n_cells q d) i); [lia|].
        rewrite IH; [|exact Hc|reflexivity|exact HE']. cbn [l_acc l_dmx]. rewrite Hc, <- app_assoc. reflexivity.
      + rewrite He. destruct Hx2 as [H1 H2].
        destruct (N.ltb_spec (n_cells q d) e); [lia|]. destruct (N.leb_spec e s); [lia|]. cbn [orb].
        rewrite IH; [|exact Hc|reflexivity|exact HE']. cbn [l_acc l_dmx]. rewrite Hc, <- app_assoc. reflexivity.
  Qed.

  Lemma tloop_group dmax d E st rest : d <= dmax -> dmax <= max_depth q w -> l_dmx st <= dmax ->
    Forall (fun x => adepth x = d /\ elem_ok q x) E ->
    exists st', tloop q w st (group_toks dmax d E ++ rest) = tloop q w st' rest /\
                l_acc st' = l_acc st ++ E /\ l_dmx st <= l_dmx st' <= dmax /\
                (group_toks dmax d E <> [] -> d <= l_dmx st').
  Proof.
    intros Hd Hm Hs HE. unfold group_toks.
    destruct E as [|x E].
    - destruct (d =? dmax) eqn:Q.
      + cbn [app tloop tstep]. rewrite (check_depth_ok d ltac:(lia)).
        eexists. split; [reflexivity|]. cbn [l_acc l_dmx]. rewrite app_nil_r. repeat split; lia.
      + exists st. cbn [app]. rewrite app_nil_r. repeat split; try lia. intros H. congruence.
    - cbn [app tloop tstep]. rewrite (check_depth_ok d ltac:(lia)).
      rewrite (tloop_elems d (x :: E) {| l_cur := d; l_dmx := N.max (l_dmx st) d; l_emax := n_cells q d; l_acc := l_acc st |} rest eq_refl eq_refl HE). cbn [l_acc l_dmx].
      eexists. split; [reflexivity|]. cbn [l_acc l_dmx]. repeat split; lia.
  Qed.

  Lemma tloop_groups dmax es : forall ds st rest, Forall (fun d => d <= dmax) ds -> dmax <= max_depth q w ->
    l_dmx st <= dmax -> Forall (elem_ok q) es ->
    exists st', tloop q w st (flat_map (fun d => group_toks dmax d (sel d es)) ds ++ rest) = tloop q w st' rest /\
                l_acc st' = l_acc st ++ flat_map (fun d => sel d es) ds /\ l_dmx st <= l_dmx st' <= dmax /\
                (forall d, In d ds -> group_toks dmax d (sel d es) <> [] -> d <= l_dmx st').
  Proof.
    induction ds as [|d ds IH]; intros st rest Hds Hm Hs Hes.
    - exists st. cbn [flat_map app]. rewrite app_nil_r. repeat split; try lia. intros d [].
    - inversion Hds as [|? ? Hd Hds']; subst.
      cbn [flat_map]. rewrite <- app_assoc.
      assert (HE : Forall (fun x => adepth x = d /\ elem_ok q x) (sel d es)).
      { unfold sel. apply Forall_forall. intros x Hx. apply filter_In in Hx. destruct Hx as [Hx1 Hx2].
        apply N.eqb_eq in Hx2. rewrite Forall_forall in Hes. auto. }
      destruct (tloop_group dmax d (sel d es) st (flat_map (fun d => group_toks dmax d (sel d es)) ds ++ rest) Hd Hm Hs HE)
        as [st1 [A1 [A2 [A3 A4]]]].
      destruct (IH st1 rest Hds' Hm ltac:(lia) Hes) as [st2 [B1 [B2 [B3 B4]]]].
      exists st2. rewrite A1, B1. split; [reflexivity|]. split; [rewrite B2, A2, <- app_assoc; reflexivity|].
      split; [lia|]. intros d' [<-|Hin] Hne; [specialize (A4 Hne); lia|apply B4; assumption].
  Qed.
End Loop.

(** ---------- regrouping is a permutation ---------- *)
Definition regroup (dmax : N) (es : list aelem) : list aelem :=
  flat_map (fun d => sel d es) (anseq 0 (S (N.to_nat dmax))).

Lemma sel_notin x es ds : ~ In (adepth x) ds ->
  flat_map (fun d => sel d (x :: es)) ds = flat_map (fun d => sel d es) ds.
Proof.
  induction ds as [|d ds IH]; intros H; [reflexivity|].
  cbn [flat_map]. rewrite IH by (intros H'; apply H; right; exact H').
  f_equal. unfold sel. cbn [filter]. destruct (N.eqb_spec (adepth x) d); [exfalso; apply H; left; auto|reflexivity].
Qed.

Lemma sel_nil ds : flat_map (fun d => sel d []) ds = [].
Proof. induction ds as [|d ds IH]; [reflexivity|]. cbn [flat_map]. rewrite IH. reflexivity. Qed.

Lemma regroup_perm_gen es : forall ds, NoDup ds -> Forall (fun x => In (adepth x) ds) es ->
  Permutation (flat_map (fun d => sel d es) ds) es.
Proof.
  induction es as [|x es IH]; intros ds Hnd Hin.
  - rewrite sel_nil. constructor.
  - inversion Hin as [|? ? Hx Hin']; subst.
    specialize (IH ds Hnd Hin').
    clear Hin Hin'. revert IH. generalize (Permutation_refl (@nil aelem)). intros _.
    induction ds as [|d ds IHd]; intros IH; [destruct Hx|].
    inversion Hnd as [|? ? Hnot Hnd']; subst.
    cbn [flat_map] in *.
    destruct (N.eq_dec (adepth x) d) as [Ed|Nd].
    + subst d. rewrite (sel_notin x es ds Hnot).
      unfold sel at 1. cbn [filter]. rewrite N.eqb_refl. cbn [app]. constructor. exact IH.
    + destruct Hx as [Hx|Hx]; [congruence|].
      unfold sel at 1. cbn [filter]. destruct (N.eqb_spec (adepth x) d); [congruence|].
      fold (sel d es).
      (* x goes somewhere in the tail *)
      assert (P : Permutation (flat_map (fun d0 => sel d0 (x :: es)) ds) (x :: flat_map (fun d0 => sel d0 es) ds)).
      { clear IHd IH. revert Hx Hnd'. clear. induction ds as [|d' ds IH']; intros Hx Hnd; [destruct Hx|].
        inversion Hnd as [|? ? Hnot Hnd']; subst. cbn [flat_map].
        destruct (N.eq_dec (adepth x) d') as [Ed|Nd].
        - subst d'. rewrite (sel_notin x es ds Hnot). unfold sel at 1. cbn [filter]. rewrite N.eqb_refl. reflexivity.
        - destruct Hx as [Hx|Hx]; [congruence|].
          unfold sel at 1. cbn [filter]. destruct (N.eqb_spec (adepth x) d'); [congruence|]. fold (sel d' es).
          eapply Permutation_trans; [apply Permutation_app_head; apply IH'; assumption|].
          apply Permutation_sym, Permutation_middle. }
      eapply Permutation_trans; [apply Permutation_app_head; exact P|].
      eapply Permutation_trans; [apply Permutation_sym, Permutation_middle|]. constructor. exact IH.
Qed.

Lemma nseq_nodup n : forall a, NoDup (anseq a n).
Proof.
  induction n as [|n IH]; intros a; cbn [anseq]; constructor; [|apply IH].
  intros H. apply nseq_in in H. lia.
Qed.

Lemma regroup_perm dmax es : Forall (fun x => adepth x <= dmax) es -> Permutation (regroup dmax es) es.
Proof.
  intros H. apply regroup_perm_gen; [apply nseq_nodup|].
  eapply Forall_impl; [|exact H]. intros x Hx. cbn beta in Hx. apply nseq_in. lia.
Qed.

(** ---------- pairwise disjointness and the adjacent-overlap validation ---------- *)
Definition Disj (q : qty) (w : N) (l : list aelem) : Prop :=
  ForallOrdPairs (fun a b => overlap q w a b = false) l.

Lemma overlap_sym q w a b : overlap q w a b = overlap q w b a.
Proof. unfold overlap. rewrite orb_comm. reflexivity. Qed.

Lemma Disj_perm q w l l' : Permutation l l' -> Disj q w l -> Disj q w l'.
Proof.
  unfold Disj. induction 1 as [|x l l' P IH|x y l|l l' l'' P1 IH1 P2 IH2]; intros H.
  - constructor.
  - inversion H as [|? ? H1 H2]; subst. constructor; [|apply IH; exact H2].
    rewrite Forall_forall in *. intros b Hb. apply H1. eapply Permutation_in; [apply Permutation_sym; exact P|exact Hb].
  - inversion H as [|? ? H1 H2]; subst. inversion H2 as [|? ? H3 H4]; subst. inversion H1 as [|? ? H5 H6]; subst.
    constructor; [constructor; [rewrite overlap_sym; exact H5|exact H3]|]. constructor; [exact H6|exact H4].
  - auto.
Qed.

Lemma Disj_adj q w l : Disj q w l -> adj_ok q w l = true.
Proof.
  unfold Disj. induction l as [|a l IH]; intros H; [reflexivity|].
  inversion H as [|? ? H1 H2]; subst. destruct l as [|b t]; [reflexivity|].
  cbn [adj_ok]. inversion H1 as [|? ? Hab _]; subst. rewrite Hab. cbn [negb andb]. apply IH. exact H2.
Qed.

(** ---------- the round trip ---------- *)
Definition elem_wf (q : qty) (dmax : N) (x : aelem) : Prop := adepth x <= dmax /\ elem_ok q x.

Lemma ncm_lt_width' q w : okw w -> n_cells_max q w < 2 ^ w.
Proof. intros [H|[H|H]]; subst w; destruct q; vm_compute; reflexivity. Qed.

Lemma pow_dim_le q w d : okw w -> d <= max_depth q w -> n_cells q d < 2 ^ w.
Proof.
  intros Hw Hd. eapply N.le_lt_trans; [|apply ncm_lt_width'; exact Hw].
  unfold n_cells_max, n_cells. apply N.mul_le_mono_l. apply N.pow_le_mono_r; [lia|].
  apply N.mul_le_mono_l. exact Hd.
Qed.

Lemma okw_le64 w : okw w -> w <= 64.
Proof. intros [H|[H|H]]; subst; lia. Qed.

Lemma max_depth_255 q w : okw w -> max_depth q w <= 255.
Proof. intros [H|[H|H]]; subst; destruct q; vm_compute; discriminate. Qed.

Lemma depth_lt_width q w d : okw w -> d <= max_depth q w -> d < 2 ^ w.
Proof.
  intros Hw Hd. pose proof (max_depth_255 q w Hw).
  assert (2 ^ 16 <= 2 ^ w) by (apply N.pow_le_mono_r; destruct Hw as [H'|[H'|H']]; subst; lia).
  change (2 ^ 16) with 65536 in *. lia.
Qed.

Section RoundTrip.
  Variable sortf : qty -> list aelem -> list aelem.
  Hypothesis sortf_perm : forall q l, Permutation (sortf q l) l.

  Theorem ascii_roundtrip q w dmax fold ul es :
    okw w -> dmax <= max_depth q w -> Forall (elem_wf q dmax) es -> Disj q w es ->
    from_ascii sortf q w (to_ascii dmax fold ul es) = AOk (dmax, sortf q (regroup dmax es)).
  Proof.
    intros Hw Hd Hes Hdis.
    pose proof (okw_le64 w Hw) as Hw64. pose proof (max_depth_255 q w Hw) as H255.
    set (ds := anseq 0 (S (N.to_nat dmax))).
    assert (Hds : Forall (fun d => d <= dmax) ds).
    { apply Forall_forall. intros d Hin. apply nseq_in in Hin. lia. }
    assert (Hds2 : Forall (fun d => d < 2 ^ w) ds).
    { eapply Forall_impl; [|exact Hds]. intros d Hdd. cbn beta in Hdd. apply (depth_lt_width q w d Hw). lia. }
    assert (Htok : Forall (fun x => tok_ok w (etok x)) es).
    { eapply Forall_impl; [|exact Hes]. intros x [Hx1 Hx2].
      pose proof (pow_dim_le q w (adepth x) Hw ltac:(lia)) as Hn.
      destruct x as [d i|d s e]; cbn [etok tok_ok elem_ok adepth] in *; [lia|]. split; lia. }
    assert (Hok : Forall (elem_ok q) es).
    { eapply Forall_impl; [|exact Hes]. intros x [_ Hx]. exact Hx. }
    rewrite to_ascii_buckets. fold ds.
    destruct (doc_shape fold ul w dmax es ds Hds2 Htok) as [l [E1 [E2 E3]]].
    unfold from_ascii, tokenizer. rewrite E1.
    rewrite (many_render ul w l Hw64 E2 _ [] (Nat.lt_succ_diag_r _)).
    cbn [app]. rewrite E3.
    (* the first group that is not empty starts with a depth; dmax's group is never empty *)
    set (toks := flat_map (fun d => group_toks dmax d (sel d es)) ds).
    destruct (tloop_groups q w H255 dmax es ds {| l_cur := 0; l_dmx := 0; l_emax := n_cells q 0; l_acc := [] |} [] Hds Hd ltac:(cbn; lia) Hok)
      as [st' [T1 [T2 [T3 T4]]]].
    rewrite app_nil_r in T1. fold toks in T1. cbn [tloop l_acc app l_dmx] in T1, T2, T3.
    assert (Hdm : l_dmx st' = dmax).
    { assert (dmax <= l_dmx st'); [|lia]. apply (T4 dmax).
      - apply nseq_in. lia.
      - unfold group_toks. destruct (sel dmax es); [rewrite N.eqb_refl|]; discriminate. }
    assert (Hne : toks <> []).
    { intros Z. unfold toks in Z.
      assert (In dmax ds) as Hin by (apply nseq_in; lia).
      apply in_split in Hin. destruct Hin as [l1 [l2 El]]. rewrite El, flat_map_app in Z. cbn [flat_map] in Z.
      apply app_eq_nil in Z. destruct Z as [_ Z]. apply app_eq_nil in Z. destruct Z as [Z _].
      unfold group_toks in Z. destruct (sel dmax es); [rewrite N.eqb_refl in Z|]; discriminate. }
    (* consume = the loop from the neutral state *)
    assert (Hcons : consume q w toks = AOk (l_dmx st', l_acc st')).
    { destruct toks as [|t ts] eqn:ET; [congruence|].
      assert (Hfirst : exists v, t = TDepth v).
      { (* every group starts with a depth *)
        assert (G : forall ds', match flat_map (fun d => group_toks dmax d (sel d es)) ds' with [] => True | t' :: _ => exists v, t' = TDepth v end).
        { induction ds' as [|d ds' IHd]; [exact I|]. cbn [flat_map]. unfold group_toks at 1.
          destruct (sel d es); [destruct (d =? dmax)|]; cbn [app]; eauto. }
        specialize (G ds). unfold toks in ET. rewrite ET in G. exact G. }
      destruct Hfirst as [v ->]. cbn [tloop tstep] in T1. unfold consume.
      destruct (check_depth q w v) as [dv|e]; [|discriminate].
      cbn [l_dmx l_acc] in T1. rewrite N.max_0_l in T1. rewrite T1. reflexivity. }
    destruct toks as [|t ts] eqn:ET; [congruence|]. cbn iota beta.
    rewrite Hcons, Hdm, T2. fold (regroup dmax es).
    cbn zeta.
    rewrite Disj_adj; [reflexivity|].
    apply (Disj_perm q w es); [|exact Hdis].
    eapply Permutation_trans; [apply Permutation_sym, regroup_perm|apply Permutation_sym, sortf_perm].
    eapply Forall_impl; [|exact Hes]. intros x [Hx _]. exact Hx.
  Qed.

  (** the decoded elements denote the same set at the deepest level *)
  Corollary ascii_roundtrip_cov q w dmax es x :
    Forall (elem_wf q dmax) es ->
    (cov (map (erange q w) (sortf q (regroup dmax es))) x <-> cov (map (erange q w) es) x).
  Proof.
    intros Hes. apply cov_perm. apply Permutation_map.
    eapply Permutation_trans; [apply sortf_perm|apply regroup_perm].
    eapply Forall_impl; [|exact Hes]. intros y [Hy _]. exact Hy.
  Qed.
End RoundTrip.

(** ---------- the executable sort ---------- *)
Lemma insert_e_perm q x l : Permutation (insert_e q x l) (x :: l).
Proof.
  induction l as [|y t IH]; cbn [insert_e]; [reflexivity|].
  destruct (flat_leb q x y); [reflexivity|].
  eapply Permutation_trans; [apply perm_skip; exact IH|apply perm_swap].
Qed.

Lemma isort_e_perm q l : Permutation (isort_e q l) l.
Proof.
  induction l as [|x t IH]; [constructor|]. unfold isort_e in *. cbn [fold_right].
  eapply Permutation_trans; [apply insert_e_perm|]. constructor. exact IH.
Qed.

(** ---------- flat_cmp compares the low bounds at the deepest level ---------- *)
Definition elo (q : qty) (w : N) (x : aelem) : N := fst (erange q w x).

Lemma elo_low q w x : elo q w x = snd (elow x) * 2 ^ shift q w (fst (elow x)).
Proof. destruct x; reflexivity. Qed.

Lemma flat_leb_spec q w a b : adepth a <= max_depth q w -> adepth b <= max_depth q w ->
  flat_leb q a b = (elo q w a <=? elo q w b).
Proof.
  intros Ha Hb. rewrite !elo_low. unfold flat_leb.
  assert (Da : fst (elow a) = adepth a) by (destruct a; reflexivity).
  assert (Db : fst (elow b) = adepth b) by (destruct b; reflexivity).
  destruct (elow a) as [d1 i1]. destruct (elow b) as [d2 i2]. cbn [fst snd] in *. subst d1 d2.
  set (D := max_depth q w) in *. unfold shift. fold D.
  set (d1 := adepth a) in *. set (d2 := adepth b) in *.
  assert (Hp : forall k, 0 < 2 ^ k) by (intros k; apply pow2_pos).
  destruct (N.eqb_spec d1 d2) as [E|NE].
  - rewrite E. destruct (N.leb_spec i1 i2) as [L|L]; symmetry; [apply N.leb_le; apply N.mul_le_mono_r; exact L|apply N.leb_gt; apply N.mul_lt_mono_pos_r; [apply Hp|exact L]].
  - destruct (N.ltb_spec d1 d2) as [L|L].
    + replace (dim q * (D - d1)) with (dim q * (d2 - d1) + dim q * (D - d2)) by nia.
      rewrite N.pow_add_r, N.mul_assoc.
      destruct (N.leb_spec (i1 * 2 ^ (dim q * (d2 - d1))) i2) as [L2|L2]; symmetry;
        [apply N.leb_le; apply N.mul_le_mono_r; exact L2|apply N.leb_gt; apply N.mul_lt_mono_pos_r; [apply Hp|exact L2]].
    + replace (dim q * (D - d2)) with (dim q * (d1 - d2) + dim q * (D - d1)) by nia.
      rewrite N.pow_add_r, N.mul_assoc.
      destruct (N.leb_spec i1 (i2 * 2 ^ (dim q * (d1 - d2)))) as [L2|L2]; symmetry;
        [apply N.leb_le; apply N.mul_le_mono_r; exact L2|apply N.leb_gt; apply N.mul_lt_mono_pos_r; [apply Hp|exact L2]].
Qed.

Lemma erange_nonempty q w x : elem_ok q x -> fst (erange q w x) < snd (erange q w x).
Proof.
  pose proof (pow2_pos (shift q w (adepth x))) as Hp.
  destruct x as [d i|d s e]; cbn [erange fst snd elem_ok adepth] in *; intros H.
  - apply N.mul_lt_mono_pos_r; [exact Hp|lia].
  - apply N.mul_lt_mono_pos_r; [exact Hp|lia].
Qed.

(** ---------- whatever the input, an accepted document is a valid, ascending element list ---------- *)
Section Sound.
  Variable sortf : qty -> list aelem -> list aelem.
  Hypothesis sortf_perm : forall q l, Permutation (sortf q l) l.
  Hypothesis sortf_sorted : forall q l, Sorted (fun a b => flat_leb q a b = true) (sortf q l).

  Variable q : qty.
  Variable w : N.

  Definition LInv (st : lstate) : Prop :=
    l_cur st <= l_dmx st /\ l_dmx st <= max_depth q w /\ l_emax st = n_cells q (l_cur st) /\
    Forall (elem_wf q (l_dmx st)) (l_acc st).

  Lemma check_depth_inv v d : check_depth q w v = AOk d -> d = v /\ d <= max_depth q w.
  Proof.
    unfold check_depth. destruct (N.ltb_spec 255 v); [discriminate|].
    destruct (N.ltb_spec (max_depth q w) v); [discriminate|]. intros E. inversion E; subst. split; [reflexivity|assumption].
  Qed.

  Lemma elem_wf_mono d d' x : d <= d' -> elem_wf q d x -> elem_wf q d' x.
  Proof. intros H [H1 H2]. split; [lia|exact H2]. Qed.

  Lemma tstep_inv st t st' : LInv st -> tstep q w st t = AOk st' -> LInv st'.
  Proof.
    intros [I1 [I2 [I3 I4]]] H. destruct t as [v|i|s e]; cbn [tstep] in H.
    - destruct (check_depth q w v) as [d|er] eqn:C; [|discriminate]. inversion H; subst; clear H.
      apply check_depth_inv in C. destruct C as [-> C]. unfold LInv. cbn [l_cur l_dmx l_emax l_acc].
      split; [lia|]. split; [lia|]. split; [reflexivity|].
      eapply Forall_impl; [|exact I4]. intros x. apply elem_wf_mono. lia.
    - destruct (N.leb_spec (l_emax st) i); [discriminate|]. inversion H; subst; clear H.
      unfold LInv. cbn [l_cur l_dmx l_emax l_acc]. repeat split; try assumption.
      apply Forall_app. split; [exact I4|]. constructor; [|constructor]. split; cbn [adepth elem_ok]; lia.
    - destruct (N.ltb_spec (l_emax st) e); [discriminate|]. destruct (N.leb_spec e s); [discriminate|].
      cbn [orb] in H. inversion H; subst; clear H.
      unfold LInv. cbn [l_cur l_dmx l_emax l_acc]. repeat split; try assumption.
      apply Forall_app. split; [exact I4|]. constructor; [|constructor]. split; cbn [adepth elem_ok]; [lia|]. split; lia.
  Qed.

  Lemma tloop_inv ts : forall st st', LInv st -> tloop q w st ts = AOk st' -> LInv st'.
  Proof.
    induction ts as [|t ts IH]; intros st st' I H; cbn [tloop] in H.
    - inversion H; subst. exact I.
    - destruct (tstep q w st t) as [st1|e] eqn:S1; [|discriminate].
      apply (IH st1 st'); [eapply tstep_inv; eassumption|exact H].
  Qed.

  Lemma consume_inv ts dm l : consume q w ts = AOk (dm, l) -> dm <= max_depth q w /\ Forall (elem_wf q dm) l.
  Proof.
    unfold consume. destruct ts as [|t ts].
    - intros H. inversion H; subst. split; [lia|constructor].
    - destruct t as [v|i|s e]; try discriminate.
      destruct (check_depth q w v) as [d|er] eqn:C; [|discriminate].
      apply check_depth_inv in C. destruct C as [-> C].
      destruct (tloop q w _ ts) as [st|er] eqn:T; [|discriminate].
      intros H. inversion H; subst; clear H.
      assert (I : LInv st).
      { eapply tloop_inv; [|exact T]. unfold LInv. cbn [l_cur l_dmx l_emax l_acc]. repeat split; try lia. constructor. }
      destruct I as [_ [I2 [_ I4]]]. split; assumption.
  Qed.

  Lemma sorted_adj_asc : forall l lo, Forall (fun x => adepth x <= max_depth q w /\ elem_ok q x) l ->
    Sorted (fun a b => flat_leb q a b = true) l -> adj_ok q w l = true ->
    match l with [] => True | x :: _ => lo <= elo q w x end -> asc lo (map (erange q w) l).
  Proof.
    induction l as [|a l IH]; intros lo Hf Hs Ha Hlo; [exact I|].
    inversion Hf as [|? ? [Hd Hok] Hf']; subst. inversion Hs as [|? ? Hs' Hhd]; subst.
    cbn [map asc]. split; [exact Hlo|]. split; [apply erange_nonempty; exact Hok|].
    apply IH; [exact Hf'|exact Hs'| |].
    - destruct l as [|b t]; [reflexivity|]. cbn [adj_ok] in Ha. apply andb_true_iff in Ha. tauto.
    - destruct l as [|b t]; [exact I|].
      inversion Hf' as [|? ? [Hdb Hokb] _]; subst. inversion Hhd as [|? ? Hab]; subst.
      rewrite (flat_leb_spec q w a b Hd Hdb) in Hab. apply N.leb_le in Hab.
      cbn [adj_ok] in Ha. apply andb_true_iff in Ha. destruct Ha as [Ha _].
      apply negb_true_iff in Ha. unfold overlap in Ha. apply negb_false_iff in Ha.
      apply orb_true_iff in Ha. rewrite !N.leb_le in Ha.
      pose proof (erange_nonempty q w b Hokb) as Hb. unfold elo in *.
      destruct Ha as [Ha|Ha]; [exact Ha|lia].
  Qed.

  Theorem reader_sound s dm l : from_ascii sortf q w s = AOk (dm, l) ->
    dm <= max_depth q w /\ Forall (elem_wf q dm) l /\ asc 0 (map (erange q w) l).
  Proof.
    unfold from_ascii. destruct (tokenizer w s) as [ts|e]; [|discriminate].
    destruct (consume q w ts) as [[dm0 l0]|e] eqn:C; [|discriminate].
    destruct (adj_ok q w (sortf q l0)) eqn:A; [|discriminate].
    intros H. inversion H; subst; clear H.
    destruct (consume_inv ts dm l0 C) as [H1 H2].
    assert (H3 : Forall (elem_wf q dm) (sortf q l0)).
    { apply Forall_forall. intros x Hx. rewrite Forall_forall in H2. apply H2.
      eapply Permutation_in; [apply sortf_perm|exact Hx]. }
    split; [exact H1|]. split; [exact H3|].
    apply sorted_adj_asc; [|apply sortf_sorted|exact A|].
    - eapply Forall_impl; [|exact H3]. intros x [Hx1 Hx2]. split; [lia|exact Hx2].
    - destruct (sortf q l0); [exact I|lia].
  Qed.
End Sound.

Lemma flat_leb_total q a b : flat_leb q a b = false -> flat_leb q b a = true.
Proof.
  unfold flat_leb. destruct (elow a) as [d1 i1]. destruct (elow b) as [d2 i2].
  rewrite (N.eqb_sym d2 d1).
  destruct (N.eqb_spec d1 d2) as [E|NE].
  - rewrite N.leb_gt, N.leb_le. lia.
  - destruct (N.ltb_spec d1 d2) as [L|L]; destruct (N.ltb_spec d2 d1) as [L'|L']; try lia;
      rewrite N.leb_gt, N.leb_le; lia.
Qed.

Lemma insert_e_sorted q x l : Sorted (fun a b => flat_leb q a b = true) l ->
  Sorted (fun a b => flat_leb q a b = true) (insert_e q x l).
Proof.
  induction l as [|y t IH]; intros H; cbn [insert_e]; [repeat constructor|].
  destruct (flat_leb q x y) eqn:E.
  - constructor; [exact H|constructor; exact E].
  - inversion H as [|? ? Hs Hh]; subst. constructor; [apply IH; exact Hs|].
    destruct t as [|z t]; cbn [insert_e].
    + constructor. apply flat_leb_total. exact E.
    + destruct (flat_leb q x z); constructor; [apply flat_leb_total; exact E|inversion Hh; assumption].
Qed.

Lemma isort_e_sorted q l : Sorted (fun a b => flat_leb q a b = true) (isort_e q l).
Proof.
  induction l as [|x t IH]; [constructor|]. unfold isort_e in *. cbn [fold_right]. apply insert_e_sorted. exact IH.
Qed.

Lemma isort_e_ok q l :
  Permutation (isort_e q l) l /\ Sorted (fun a b => flat_leb q a b = true) (isort_e q l).
Proof. split; [apply isort_e_perm|apply isort_e_sorted]. Qed.

(** ---------- the characters a document is made of ---------- *)
Definition char_ok (c : N) : bool :=
  is_digit c || (c =? 47) || (c =? 45) || (c =? 43) || (c =? 32) || (c =? 10).
Definition chars_ok (s : list N) : Prop := Forall (fun c => char_ok c = true) s.

Lemma digit_char_ok c : is_digit c = true -> char_ok c = true.
Proof. intros H. unfold char_ok. rewrite H. reflexivity. Qed.

Lemma adec_aux_chars : forall f x l_acc, chars_ok l_acc -> chars_ok (adec_aux f x l_acc).
Proof.
  induction f as [|f IH]; intros x l_acc H; cbn [adec_aux]; [exact H|].
  assert (H' : chars_ok ((48 + x mod 10) :: l_acc)).
  { constructor; [|exact H]. apply digit_char_ok. apply is_digit_spec.
    pose proof (N.mod_lt x 10 ltac:(lia)). remember (x mod 10) as r. lia. }
  destruct (x / 10 =? 0); [exact H'|apply IH; exact H'].
Qed.

Lemma adec_chars x : chars_ok (adec x).
Proof. apply adec_aux_chars. constructor. Qed.

Lemma chars_ok_app a b : chars_ok a -> chars_ok b -> chars_ok (a ++ b).
Proof. intros Ha Hb. apply Forall_app. split; assumption. Qed.

Lemma chars_lit l : forallb char_ok l = true -> chars_ok l.
Proof. intros H. apply Forall_forall. apply forallb_forall. exact H. Qed.

Lemma fmt_elem_chars ul x : chars_ok (fmt_elem ul x).
Proof.
  destruct x as [d i|d s e]; cbn [fmt_elem].
  - apply chars_ok_app; [apply adec_chars|apply chars_lit; reflexivity].
  - destruct ul; repeat apply chars_ok_app; try apply adec_chars; apply chars_lit; reflexivity.
Qed.

Lemma push_chars fold sd s : chars_ok sd -> chars_ok s -> chars_ok (push fold sd s).
Proof.
  intros H1 H2. destruct (push_shape fold sd s) as [nl [[->| ->] E]]; rewrite E.
  - apply chars_ok_app; [exact H1|exact H2].
  - apply chars_ok_app; [exact H1|]. apply chars_ok_app; [apply chars_lit; reflexivity|exact H2].
Qed.

Lemma upd_forall {A} (P : A -> Prop) f : (forall a, P a -> P (f a)) -> forall l k, Forall P l -> Forall P (upd k f l).
Proof.
  intros Hf. induction l as [|a l IH]; intros k H; [destruct k; constructor|].
  inversion H; subst. destruct k; cbn [upd]; constructor; auto.
Qed.

Lemma fill_chars fold ul es : forall b, Forall chars_ok b -> Forall chars_ok (fill fold ul es b).
Proof.
  unfold fill. induction es as [|x es IH]; intros b H; cbn [fold_left]; [exact H|].
  apply IH. apply upd_forall; [|exact H]. intros a Ha. apply push_chars; [exact Ha|apply fmt_elem_chars].
Qed.

Lemma aemit_all_chars fold dmax : forall b d, Forall chars_ok b -> chars_ok (aemit_all fold dmax d b).
Proof.
  induction b as [|s b IH]; intros d H; cbn [aemit_all]; [constructor|].
  inversion H; subst. apply chars_ok_app; [|apply IH; assumption].
  unfold aemit. destruct fold; [destruct (negb (ends_slash s) || (d =? dmax))|destruct (ends_slash s); [destruct (d =? dmax)|]];
    try (apply chars_ok_app; [assumption|apply chars_lit; reflexivity]); try assumption; constructor.
Qed.

Theorem to_ascii_chars dmax fold ul es : chars_ok (to_ascii dmax fold ul es).
Proof.
  unfold to_ascii. apply aemit_all_chars. apply fill_chars. unfold init_buckets.
  apply Forall_forall. intros s Hs. apply in_map_iff in Hs. destruct Hs as [d [<- _]].
  apply chars_ok_app; [apply adec_chars|apply chars_lit; reflexivity].
Qed.

(** ---------- a depth-only document ---------- *)
Section DepthOnly.
  Variable sortf : qty -> list aelem -> list aelem.
  Hypothesis sortf_perm : forall q l, Permutation (sortf q l) l.

  Lemma sortf_nil q : sortf q [] = [].
  Proof. apply Permutation_nil. apply Permutation_sym. apply sortf_perm. Qed.

  Lemma from_ascii_depth_only q w d ws : okw w -> d <= max_depth q w -> allws ws ->
    from_ascii sortf q w (adec d ++ [47] ++ ws) = AOk (d, []).
  Proof.
    intros Hw Hd Hws.
    pose proof (okw_le64 w Hw) as Hw64. pose proof (max_depth_255 q w Hw) as H255.
    assert (WFl : WF w [Tok (TDepth d); Ws ws]).
    { constructor; [apply (depth_lt_width q w d Hw Hd)|]. constructor; [exact Hws|constructor]. }
    assert (E : adec d ++ [47] ++ ws = render false [Tok (TDepth d); Ws ws]).
    { cbn [render flat_map cstr tok_str]. rewrite app_nil_r, <- app_assoc. reflexivity. }
    unfold from_ascii, tokenizer. rewrite E.
    rewrite (many_render false w _ Hw64 WFl _ [] (Nat.lt_succ_diag_r _)).
    cbn [app tokens_of]. cbn iota. unfold consume. rewrite (check_depth_ok q w H255 d Hd).
    cbn [tloop l_dmx l_acc]. rewrite sortf_nil. reflexivity.
  Qed.
End DepthOnly.

(** ---------- trim, split, split_once ---------- *)
Lemma trim_tail c m : is_trim_ws c = false -> trim ((c :: m) ++ [47; 10]) = (c :: m) ++ [47].
Proof.
  intros Hc. unfold trim.
  assert (E1 : drop_ws ((c :: m) ++ [47; 10]) = (c :: m) ++ [47; 10]) by (cbn [app drop_ws]; rewrite Hc; reflexivity).
  rewrite E1, rev_app_distr.
  change (rev [47; 10]) with [10; 47]. cbn [app drop_ws].
  change (is_trim_ws 10) with true. change (is_trim_ws 47) with false. cbn iota.
  replace (47 :: rev (c :: m)) with (rev ((c :: m) ++ [47])) by (rewrite rev_app_distr; reflexivity).
  apply rev_involutive.
Qed.

Lemma split_on_none c : forall X, ~ In c X -> split_on c X = [X].
Proof.
  induction X as [|x X IH]; intros H; [reflexivity|].
  cbn [split_on]. destruct (N.eqb_spec x c) as [E|E]; [exfalso; apply H; left; exact E|].
  rewrite IH by (intros H'; apply H; right; exact H'). reflexivity.
Qed.

Lemma split_on_piece c rest : forall X, ~ In c X -> split_on c (X ++ c :: rest) = X :: split_on c rest.
Proof.
  induction X as [|x X IH]; intros H.
  - cbn [app split_on]. rewrite N.eqb_refl. reflexivity.
  - cbn [app split_on]. destruct (N.eqb_spec x c) as [E|E]; [exfalso; apply H; left; exact E|].
    rewrite IH by (intros H'; apply H; right; exact H'). reflexivity.
Qed.

Lemma split_on_pieces c : forall ps last, Forall (fun X => ~ In c X) ps -> ~ In c last ->
  split_on c (flat_map (fun X => X ++ [c]) ps ++ last) = ps ++ [last].
Proof.
  induction ps as [|X ps IH]; intros last H Hl.
  - cbn [flat_map app]. apply split_on_none. exact Hl.
  - inversion H as [|? ? HX Hps]; subst. cbn [flat_map app]. rewrite <- !app_assoc. cbn [app].
    rewrite (split_on_piece c _ X HX). f_equal. apply IH; assumption.
Qed.

Lemma split_once_first c B : forall A, ~ In c A -> split_once c (A ++ c :: B) = Some (A, B).
Proof.
  induction A as [|x A IH]; intros H.
  - cbn [app split_once]. rewrite N.eqb_refl. reflexivity.
  - cbn [app split_once]. destruct (N.eqb_spec x c) as [E|E]; [exfalso; apply H; left; exact E|].
    rewrite IH by (intros H'; apply H; right; exact H'). reflexivity.
Qed.

Lemma chars_ok_notin c s : char_ok c = false -> chars_ok s -> ~ In c s.
Proof. intros Hc Hs Hin. unfold chars_ok in Hs. rewrite Forall_forall in Hs. specialize (Hs c Hin). congruence. Qed.

(** ---------- the 2-D document ---------- *)
Definition keep (e : st_elem) : bool :=
  match fst e, snd e with _ :: _, _ :: _ => true | _, _ => false end.

Lemma pieces_layout {A} (c : N) (G : A -> list N) last : forall l,
  flat_map (fun e => [c] ++ G e) l ++ [c] ++ last =
  flat_map (fun X => X ++ [c]) ([] :: map G l) ++ last.
Proof.
  induction l as [|e l IH].
  - reflexivity.
  - cbn [flat_map map app] in *. rewrite <- !app_assoc. cbn [app]. f_equal. f_equal. exact IH.
Qed.

Section RoundTrip2.
  Variable sortf : qty -> list aelem -> list aelem.
  Hypothesis sortf_perm : forall q l, Permutation (sortf q l) l.
  Variables (q1 : qty) (w1 : N) (q2 : qty) (w2 : N) (p1 p2 d1 d2 : N).
  Variable fold : option N.
  Variable ul : bool.
  Hypothesis Hw1 : okw w1.
  Hypothesis Hw2 : okw w2.
  Hypothesis Hd1 : d1 <= max_depth q1 w1.
  Hypothesis Hd2 : d2 <= max_depth q2 w2.
  Hypothesis Hp1 : char_ok p1 = false /\ is_trim_ws p1 = false.
  Hypothesis Hp2 : char_ok p2 = false.

  Definition st_ok (e : st_elem) : Prop :=
    Forall (elem_wf q1 d1) (fst e) /\ Disj q1 w1 (fst e) /\ Forall (elem_wf q2 d2) (snd e) /\ Disj q2 w2 (snd e).
  Definition st_norm (e : st_elem) : st_elem :=
    (sortf q1 (regroup d1 (fst e)), sortf q2 (regroup d2 (snd e))).
  Definition piece (e : st_elem) : list N :=
    to_ascii d1 fold ul (fst e) ++ [p2] ++ to_ascii d2 fold ul (snd e).
  Definition last_piece : list N := adec d1 ++ [47; 32; p2] ++ adec d2 ++ [47].

  Lemma keep_match (el er : list aelem) (l_acc : list st_elem) :
    match el, er with _ :: _, _ :: _ => l_acc ++ [(el, er)] | _, _ => l_acc end =
    if keep (el, er) then l_acc ++ [(el, er)] else l_acc.
  Proof. destruct el, er; reflexivity. Qed.

  Lemma st_loop_step p ps a b l_acc : p <> [] ->
    st_loop sortf q1 w1 q2 w2 p2 (p :: ps) a b l_acc =
    match split_once p2 p with
    | None => StErr SElemNotFound
    | Some (x, y) =>
      match from_ascii sortf q1 w1 x with
      | AErr e => StErr (SAscii e)
      | AOk (dl, el) =>
        match from_ascii sortf q2 w2 y with
        | AErr e => StErr (SAscii e)
        | AOk (dr, er) =>
          st_loop sortf q1 w1 q2 w2 p2 ps (N.max a dl) (N.max b dr)
            (match el, er with _ :: _, _ :: _ => l_acc ++ [(el, er)] | _, _ => l_acc end)
        end
      end
    end.
  Proof. intros H. destruct p; [congruence|reflexivity]. Qed.

  Lemma st_loop_last a b l_acc : a <= d1 -> b <= d2 ->
    st_loop sortf q1 w1 q2 w2 p2 [last_piece] a b l_acc = StOk d1 d2 l_acc.
  Proof.
    intros Ha Hb. unfold last_piece.
    assert (E : adec d1 ++ [47; 32; p2] ++ adec d2 ++ [47] = (adec d1 ++ [47] ++ [32]) ++ p2 :: (adec d2 ++ [47] ++ [])).
    { rewrite app_nil_r, <- !app_assoc. reflexivity. }
    rewrite E. rewrite st_loop_step by (intros Z; symmetry in Z; exact (app_cons_not_nil _ _ _ Z)).
    rewrite (split_once_first p2 _ (adec d1 ++ [47] ++ [32])).
    2:{ apply (chars_ok_notin p2 _ Hp2). apply chars_ok_app; [apply adec_chars|apply chars_lit; reflexivity]. }
    rewrite (from_ascii_depth_only sortf sortf_perm q1 w1 d1 [32] Hw1 Hd1 ltac:(repeat constructor)).
    rewrite (from_ascii_depth_only sortf sortf_perm q2 w2 d2 [] Hw2 Hd2 ltac:(constructor)).
    rewrite !N.max_r by lia. cbn [st_loop]. reflexivity.
  Qed.

  Lemma st_loop_pieces : forall l a b l_acc, a <= d1 -> b <= d2 -> Forall st_ok l ->
    st_loop sortf q1 w1 q2 w2 p2 (map piece l ++ [last_piece]) a b l_acc =
    StOk d1 d2 (l_acc ++ filter keep (map st_norm l)).
  Proof.
    induction l as [|e l IH]; intros a b l_acc Ha Hb Hl.
    - cbn [map app filter]. rewrite app_nil_r. apply st_loop_last; assumption.
    - inversion Hl as [|? ? [O1 [O2 [O3 O4]]] Hl']; subst.
      cbn [map app]. unfold piece at 1. cbn [app].
      rewrite st_loop_step by (intros Z; symmetry in Z; exact (app_cons_not_nil _ _ _ Z)).
      rewrite (split_once_first p2 _ (to_ascii d1 fold ul (fst e))).
      2:{ apply (chars_ok_notin p2 _ Hp2). apply to_ascii_chars. }
      rewrite (ascii_roundtrip sortf sortf_perm q1 w1 d1 fold ul (fst e) Hw1 Hd1 O1 O2).
      rewrite (ascii_roundtrip sortf sortf_perm q2 w2 d2 fold ul (snd e) Hw2 Hd2 O3 O4).
      rewrite keep_match.
      rewrite IH by (try lia; exact Hl').
      cbn [map filter]. change (sortf q1 (regroup d1 (fst e)), sortf q2 (regroup d2 (snd e))) with (st_norm e).
      destruct (keep (st_norm e)); [rewrite <- app_assoc|]; reflexivity.
  Qed.

  Hypothesis Hp12 : p1 <> p2.

  Theorem st_ascii_roundtrip l : Forall st_ok l ->
    st_from_ascii sortf q1 w1 q2 w2 p2 p1 (st_to_ascii p1 p2 d1 d2 fold ul l) =
    StOk d1 d2 (filter keep (map st_norm l)).
  Proof.
    intros Hl. destruct Hp1 as [Hc1 Ht1].
    set (fm := flat_map (fun X : list N => X ++ [p1]) (map piece l)).
    set (m := fm ++ adec d1 ++ [47; 32; p2] ++ adec d2).
    assert (D1 : st_to_ascii p1 p2 d1 d2 fold ul l = (p1 :: m) ++ [47; 10]).
    { unfold st_to_ascii.
      change (fun e : st_elem => [p1] ++ to_ascii d1 fold ul (fst e) ++ [p2] ++ to_ascii d2 fold ul (snd e))
        with (fun e : st_elem => [p1] ++ piece e).
      rewrite (pieces_layout p1 piece (adec d1 ++ [47; 32; p2] ++ adec d2 ++ [47; 10]) l).
      cbn [flat_map map app]. fold fm. unfold m. rewrite <- !app_assoc. reflexivity. }
    assert (D2 : (p1 :: m) ++ [47] = flat_map (fun X : list N => X ++ [p1]) ([] :: map piece l) ++ last_piece).
    { cbn [flat_map app]. fold fm. unfold m, last_piece. rewrite <- !app_assoc. reflexivity. }
    unfold st_from_ascii. rewrite D1, (trim_tail p1 m Ht1), D2.
    rewrite split_on_pieces.
    - cbn [app st_loop]. rewrite (st_loop_pieces l 0 0 [] ltac:(lia) ltac:(lia) Hl). reflexivity.
    - constructor; [intros []|]. apply Forall_forall. intros X HX. apply in_map_iff in HX. destruct HX as [e [<- _]].
      unfold piece. intros Hin. apply in_app_or in Hin. destruct Hin as [Hin|Hin].
      + exact (chars_ok_notin p1 _ Hc1 (to_ascii_chars _ _ _ _) Hin).
      + cbn [app] in Hin. destruct Hin as [Hin|Hin]; [congruence|].
        exact (chars_ok_notin p1 _ Hc1 (to_ascii_chars _ _ _ _) Hin).
    - unfold last_piece. intros Hin. apply in_app_or in Hin. destruct Hin as [Hin|Hin].
      + exact (chars_ok_notin p1 _ Hc1 (adec_chars _) Hin).
      + cbn [app] in Hin. destruct Hin as [Hin|[Hin|[Hin|Hin]]].
        * subst p1. discriminate Hc1.
        * subst p1. discriminate Hc1.
        * congruence.
        * apply in_app_or in Hin. destruct Hin as [Hin|Hin].
          -- exact (chars_ok_notin p1 _ Hc1 (adec_chars _) Hin).
          -- destruct Hin as [Hin|[]]. subst p1. discriminate Hc1.
  Qed.
End RoundTrip2.

(** ---------- the 2-D document whose elements carry their own depths ---------- *)
Section RoundTrip2L.
  Variable sortf : qty -> list aelem -> list aelem.
  Hypothesis sortf_perm : forall q l, Permutation (sortf q l) l.
  Variables (q1 : qty) (w1 : N) (q2 : qty) (w2 : N) (p1 p2 d1 d2 : N).
  Variable fold : option N.
  Variable ul : bool.
  Hypothesis Hw1 : okw w1.
  Hypothesis Hw2 : okw w2.
  Hypothesis Hd1 : d1 <= max_depth q1 w1.
  Hypothesis Hd2 : d2 <= max_depth q2 w2.
  Hypothesis Hp1 : char_ok p1 = false /\ is_trim_ws p1 = false.
  Hypothesis Hp2 : char_ok p2 = false.
  Hypothesis Hp12 : p1 <> p2.

  Definition st_ok_l (e : st_elem_l) : Prop :=
    fst (fst e) <= d1 /\ fst (snd e) <= d2 /\
    Forall (elem_wf q1 (fst (fst e))) (snd (fst e)) /\ Disj q1 w1 (snd (fst e)) /\
    Forall (elem_wf q2 (fst (snd e))) (snd (snd e)) /\ Disj q2 w2 (snd (snd e)).
  Definition st_norm_l (e : st_elem_l) : st_elem :=
    (sortf q1 (regroup (fst (fst e)) (snd (fst e))), sortf q2 (regroup (fst (snd e)) (snd (snd e)))).
  Definition piece_l (e : st_elem_l) : list N :=
    to_ascii (fst (fst e)) fold ul (snd (fst e)) ++ [p2] ++ to_ascii (fst (snd e)) fold ul (snd (snd e)).

  Lemma st_loop_pieces_l : forall l a b l_acc, a <= d1 -> b <= d2 -> Forall st_ok_l l ->
    st_loop sortf q1 w1 q2 w2 p2 (map piece_l l ++ [last_piece p2 d1 d2]) a b l_acc =
    StOk d1 d2 (l_acc ++ filter keep (map st_norm_l l)).
  Proof.
    induction l as [|e l IH]; intros a b l_acc Ha Hb Hl.
    - cbn [map app filter]. rewrite app_nil_r.
      apply (st_loop_last sortf sortf_perm q1 w1 q2 w2 p2 d1 d2 Hw1 Hw2 Hd1 Hd2 Hp2); assumption.
    - inversion Hl as [|? ? [L1 [L2 [O1 [O2 [O3 O4]]]]] Hl']; subst.
      cbn [map app]. unfold piece_l at 1. cbn [app].
      rewrite st_loop_step by (intros Z; symmetry in Z; exact (app_cons_not_nil _ _ _ Z)).
      rewrite (split_once_first p2 _ (to_ascii (fst (fst e)) fold ul (snd (fst e)))).
      2:{ apply (chars_ok_notin p2 _ Hp2). apply to_ascii_chars. }
      rewrite (ascii_roundtrip sortf sortf_perm q1 w1 (fst (fst e)) fold ul (snd (fst e)) Hw1 ltac:(lia) O1 O2).
      rewrite (ascii_roundtrip sortf sortf_perm q2 w2 (fst (snd e)) fold ul (snd (snd e)) Hw2 ltac:(lia) O3 O4).
      rewrite keep_match.
      rewrite IH by (try lia; exact Hl').
      cbn [map filter]. change (sortf q1 (regroup (fst (fst e)) (snd (fst e))), sortf q2 (regroup (fst (snd e)) (snd (snd e)))) with (st_norm_l e).
      destruct (keep (st_norm_l e)); [rewrite <- app_assoc|]; reflexivity.
  Qed.

  Theorem st_ascii_roundtrip_l l : Forall st_ok_l l ->
    st_from_ascii sortf q1 w1 q2 w2 p2 p1 (st_to_ascii_l p1 p2 d1 d2 fold ul l) =
    StOk d1 d2 (filter keep (map st_norm_l l)).
  Proof.
    intros Hl. destruct Hp1 as [Hc1 Ht1].
    set (fm := flat_map (fun X : list N => X ++ [p1]) (map piece_l l)).
    set (m := fm ++ adec d1 ++ [47; 32; p2] ++ adec d2).
    assert (D1 : st_to_ascii_l p1 p2 d1 d2 fold ul l = (p1 :: m) ++ [47; 10]).
    { unfold st_to_ascii_l.
      change (fun e : st_elem_l => [p1] ++ to_ascii (fst (fst e)) fold ul (snd (fst e)) ++ [p2] ++ to_ascii (fst (snd e)) fold ul (snd (snd e)))
        with (fun e : st_elem_l => [p1] ++ piece_l e).
      rewrite (pieces_layout p1 piece_l (adec d1 ++ [47; 32; p2] ++ adec d2 ++ [47; 10]) l).
      cbn [flat_map map app]. fold fm. unfold m. rewrite <- !app_assoc. reflexivity. }
    assert (D2 : (p1 :: m) ++ [47] = flat_map (fun X : list N => X ++ [p1]) ([] :: map piece_l l) ++ last_piece p2 d1 d2).
    { cbn [flat_map app]. fold fm. unfold m, last_piece. rewrite <- !app_assoc. reflexivity. }
    unfold st_from_ascii. rewrite D1, (trim_tail p1 m Ht1), D2.
    rewrite split_on_pieces.
    - cbn [app st_loop]. rewrite (st_loop_pieces_l l 0 0 [] ltac:(lia) ltac:(lia) Hl). reflexivity.
    - constructor; [intros []|]. apply Forall_forall. intros X HX. apply in_map_iff in HX. destruct HX as [e [<- _]].
      unfold piece_l. intros Hin. apply in_app_or in Hin. destruct Hin as [Hin|Hin].
      + exact (chars_ok_notin p1 _ Hc1 (to_ascii_chars _ _ _ _) Hin).
      + cbn [app] in Hin. destruct Hin as [Hin|Hin]; [congruence|].
        exact (chars_ok_notin p1 _ Hc1 (to_ascii_chars _ _ _ _) Hin).
    - unfold last_piece. intros Hin. apply in_app_or in Hin. destruct Hin as [Hin|Hin].
      + exact (chars_ok_notin p1 _ Hc1 (adec_chars _) Hin).
      + cbn [app] in Hin. destruct Hin as [Hin|[Hin|[Hin|Hin]]].
        * subst p1. discriminate Hc1.
        * subst p1. discriminate Hc1.
        * congruence.
        * apply in_app_or in Hin. destruct Hin as [Hin|Hin].
          -- exact (chars_ok_notin p1 _ Hc1 (adec_chars _) Hin).
          -- destruct Hin as [Hin|[]]. subst p1. discriminate Hc1.
  Qed.
End RoundTrip2L.

(** the prefix characters of the three quantities are separators *)
Lemma prefix_chars_ok : forall p, In p [116; 115; 102] -> char_ok p = false /\ is_trim_ws p = false.
Proof. intros p [<-|[<-|[<-|[]]]]; split; reflexivity. Qed.
