(** Model/ValuedCheck.v — verified checker for C20: judges an (input, output) pair of
    valued_cells_to_moc_with_opt against the clauses of the property, whatever algorithm
    produced the output.  The output is a list of ranges at depth 29 (u64 frame). *)
From Coq Require Import List NArith Lia Bool.
From MOC.Base Require Import RangeSet.
From MOC.Model Require Import Qty Query Build Valued.
Import ListNotations.
Open Scope N_scope.

Definition crange (c : vcell) : range := cell_range Hpx 64 (vd c) (vi c).

(** cumulative value before / after each cell, in the given order *)
Fixpoint cums (l : list vcell) (acc : N) : list (vcell * N * N) :=
  match l with [] => [] | c :: t => (c, acc, acc + vv c) :: cums t (acc + vv c) end.

Definition maxdepth (maxd0 : N) (cells : list vcell) : N := fold_left (fun m c => N.max m (vd c)) cells maxd0.

(** value of map cell [c] enclosed by [out]: number of covered deepest sub-cells times their value *)
Definition sel (maxd : N) (out : list range) (c : vcell) : N :=
  width out (fst (crange c)) (snd (crange c)) / 2 ^ shift Hpx 64 maxd * (vv c / 4 ^ (maxd - vd c)).

Definition piece_val (nosplit : bool) (maxd : N) (c : vcell) : N :=
  if nosplit then vv c else vv c / 4 ^ (maxd - vd c).

Record verdict := { v_wf : bool; v_subset : bool; v_between : bool; v_order : bool; v_bracket : bool; v_samecell : bool }.

Definition check (maxd0 : N) (cells : list vcell) (from to : N) (asc strict nosplit : bool)
                 (out : list range) : verdict :=
  let maxd := maxdepth maxd0 cells in
  let cs := cums (sort asc cells) 0 in
  let total := fold_right (fun x s => sel maxd out (fst (fst x)) + s) 0 cs in
  let slack := fold_right (fun x s =>
                 let '(c, b, a) := x in
                 (if (b <? from) && (from <? a) then piece_val nosplit maxd c else 0) +
                 (if (b <? to) && (to <? a) then piece_val nosplit maxd c else 0) + s) 0 cs in
  {| v_wf := canonb out && alignedb (shift Hpx 64 maxd) out;
     v_subset := contains (canon_of (map crange cells)) out;
     v_between := forallb (fun x => let '(c, b, a) := x in
                    negb ((from <=? b) && (a <=? to) && (0 <? vv c)) ||
                    contains_range out (fst (crange c)) (snd (crange c))) cs;
     v_order := forallb (fun x => let '(c, b, a) := x in
                    negb (((a <=? from) || (to <=? b)) && (0 <? vv c)) ||
                    (width out (fst (crange c)) (snd (crange c)) =? 0)) cs;
     v_bracket := bracketb strict (to - from) total slack;
     v_samecell := existsb (fun x => let '(c, b, a) := x in (b <? from) && (to <? a)) cs |}.

(** ---------- what a positive verdict means ---------- *)
Lemma crange_nonempty c : fst (crange c) < snd (crange c).
Proof. apply cell_range_nonempty. Qed.

Theorem check_subset_sound maxd0 cells from to asc strict nosplit out :
  v_wf (check maxd0 cells from to asc strict nosplit out) = true ->
  v_subset (check maxd0 cells from to asc strict nosplit out) = true ->
  forall x, cov out x -> exists c, In c cells /\ fst (crange c) <= x < snd (crange c).
Proof.
  cbn [check v_wf v_subset]. intros Hwf Hs x Hx. apply andb_true_iff in Hwf. destruct Hwf as [Hc _].
  apply canonb_spec in Hc. rewrite (contains_spec _ _ (canon_of_canon _) Hc) in Hs.
  specialize (Hs x Hx). apply (proj1 (canon_of_cov _ _)) in Hs. destruct Hs as [r [Hin Hr]].
  apply in_map_iff in Hin. destruct Hin as [c [<- Hin]]. exists c. split; [exact Hin|exact Hr].
Qed.

(** every cell of positive value lying between the thresholds in the density order is entirely selected *)
Theorem check_between_sound maxd0 cells from to asc strict nosplit out :
  v_wf (check maxd0 cells from to asc strict nosplit out) = true ->
  v_between (check maxd0 cells from to asc strict nosplit out) = true ->
  forall c b a, In (c, b, a) (cums (sort asc cells) 0) -> from <= b -> a <= to -> 0 < vv c ->
  forall x, fst (crange c) <= x < snd (crange c) -> cov out x.
Proof.
  cbn [check v_wf v_between]. intros Hwf Hb c b a Hin H1 H2 H3 x Hx.
  apply andb_true_iff in Hwf. destruct Hwf as [Hc _]. apply canonb_spec in Hc.
  rewrite forallb_forall in Hb. specialize (Hb _ Hin). cbn beta iota in Hb.
  apply orb_true_iff in Hb. destruct Hb as [Hb|Hb].
  - apply negb_true_iff in Hb. apply andb_false_iff in Hb. destruct Hb as [Hb|Hb].
    + apply andb_false_iff in Hb. destruct Hb as [Hb|Hb]; [apply N.leb_gt in Hb|apply N.leb_gt in Hb]; lia.
    + apply N.ltb_ge in Hb. lia.
  - exact (proj1 (contains_range_spec out _ _ Hc (crange_nonempty c)) Hb x Hx).
Qed.

(** no cell of positive value lying entirely before [from] or after [to] is touched *)
Theorem check_order_sound maxd0 cells from to asc strict nosplit out :
  v_wf (check maxd0 cells from to asc strict nosplit out) = true ->
  v_order (check maxd0 cells from to asc strict nosplit out) = true ->
  forall c b a, In (c, b, a) (cums (sort asc cells) 0) -> (a <= from \/ to <= b) -> 0 < vv c ->
  forall x, fst (crange c) <= x < snd (crange c) -> ~ cov out x.
Proof.
  cbn [check v_wf v_order]. intros Hwf Ho c b a Hin H1 H3 x Hx.
  apply andb_true_iff in Hwf. destruct Hwf as [Hc _]. apply canonb_spec in Hc.
  rewrite forallb_forall in Ho. specialize (Ho _ Hin). cbn beta iota in Ho.
  apply orb_true_iff in Ho. destruct Ho as [Ho|Ho].
  - apply negb_true_iff in Ho. apply andb_false_iff in Ho. destruct Ho as [Ho|Ho].
    + apply orb_false_iff in Ho. destruct Ho as [Ho1 Ho2]. apply N.leb_gt in Ho1. apply N.leb_gt in Ho2. lia.
    + apply N.ltb_ge in Ho. lia.
  - apply N.eqb_eq in Ho. exact (proj1 (width_zero_iff out _ _ Hc (crange_nonempty c)) Ho x Hx).
Qed.

(** the enclosed value brackets the requested mass: never above it in strict mode, never
    below it otherwise, within the value of the boundary pieces *)
Theorem check_bracket_exact maxd0 cells from to asc strict nosplit out :
  let v := check maxd0 cells from to asc strict nosplit out in
  let maxd := maxdepth maxd0 cells in
  let cs := cums (sort asc cells) 0 in
  let total := fold_right (fun x s => sel maxd out (fst (fst x)) + s) 0 cs in
  let slack := fold_right (fun x s =>
                 let '(c, b, a) := x in
                 (if (b <? from) && (from <? a) then piece_val nosplit maxd c else 0) +
                 (if (b <? to) && (to <? a) then piece_val nosplit maxd c else 0) + s) 0 cs in
  v_bracket v = true <->
  if strict then total <= to - from /\ to - from <= total + slack
  else to - from <= total /\ total <= to - from + slack.
Proof. cbv zeta. cbn [check v_bracket]. apply bracketb_spec. Qed.
