(** Model/Ops1D.v — SPECIFICATION (S) of the six 1-D MOC operators at the level
    of a MOC = (depth, canonical range list), and the proof that they compute the
    set-theoretic result and return valid MOCs.  The Rust implementations
    (eager methods, range-set primitives, lazy operators) are tied to these
    functions by the correspondence harness (cases C01/C04); because canonical
    forms are unique (canon_unique) "same covered set and depth" is decided by
    list equality, so the comparison is exact and raises no false alarm. *)
From Coq Require Import List NArith Lia Bool.
From MOC.Base Require Import RangeSet.
From MOC.Model Require Import Qty.
Import ListNotations.
Open Scope N_scope.

Inductive op2 := OAnd | OOr | OXor | OMinus.

Definition setop (o : op2) (a b : Prop) : Prop :=
  match o with
  | OAnd => a /\ b
  | OOr => a \/ b
  | OXor => (a /\ ~ b) \/ (b /\ ~ a)
  | OMinus => a /\ ~ b
  end.

Definition op2_ranges (o : op2) (ub : N) (A B : list range) : list range :=
  match o with
  | OAnd => inter ub A B
  | OOr => union A B
  | OXor => xor ub A B
  | OMinus => minus ub A B
  end.

(** result of a binary operator on MOCs: depth = max, ranges = spec algebra *)
Definition moc_op2 (o : op2) (q : qty) (w : N) (dA : N) (A : list range) (dB : N) (B : list range)
  : N * list range := (N.max dA dB, op2_ranges o (n_cells_max q w) A B).

Definition moc_not (q : qty) (w : N) (d : N) (A : list range) : N * list range :=
  (d, compl (n_cells_max q w) A).

Definition moc_degrade (q : qty) (w : N) (d : N) (A : list range) (target : N) : N * list range :=
  let d' := N.min d target in (d', degrade (shift q w d') A).

Lemma op2_cov o ub A B x : Valid ub A -> Valid ub B ->
  (cov (op2_ranges o ub A B) x <-> setop o (cov A x) (cov B x)).
Proof.
  intros HA HB. destruct o; simpl.
  - apply inter_cov; assumption.
  - apply (valid_union_cov ub); assumption.
  - apply xor_cov; assumption.
  - apply minus_cov; assumption.
Qed.

Lemma op2_valid o ub A B : Valid ub A -> Valid ub B -> Valid ub (op2_ranges o ub A B).
Proof.
  intros HA HB. destruct o; simpl;
    [apply valid_inter|apply valid_union|apply valid_xor|apply valid_minus]; assumption.
Qed.

Lemma op2_aligned o k ub A B : mult2k k ub -> Aligned k A -> Aligned k B ->
  Aligned k (op2_ranges o ub A B).
Proof.
  intros. destruct o; simpl;
    [apply aligned_inter|apply aligned_union|apply aligned_xor|apply aligned_minus]; assumption.
Qed.

Lemma moc_op2_correct o q w dA A dB B :
  ValidMoc q w dA A -> ValidMoc q w dB B ->
  let r := moc_op2 o q w dA A dB B in
  fst r = N.max dA dB /\
  ValidMoc q w (fst r) (snd r) /\
  forall x, cov (snd r) x <-> setop o (cov A x) (cov B x).
Proof.
  intros HA HB. simpl. split; [reflexivity|].
  assert (Hd : N.max dA dB <= max_depth q w) by (destruct HA, HB; lia).
  assert (HA' := validmoc_deeper q w dA (N.max dA dB) A ltac:(lia) Hd HA).
  assert (HB' := validmoc_deeper q w dB (N.max dA dB) B ltac:(lia) Hd HB).
  destruct HA' as [_ HA1 HA2]. destruct HB' as [_ HB1 HB2].
  split.
  - constructor; [exact Hd|apply op2_valid; assumption|].
    apply op2_aligned; [apply ncm_mult; exact Hd|assumption|assumption].
  - intros x. apply op2_cov; assumption.
Qed.

Lemma moc_not_correct q w d A :
  ValidMoc q w d A ->
  let r := moc_not q w d A in
  fst r = d /\ ValidMoc q w d (snd r) /\
  forall x, cov (snd r) x <-> x < n_cells_max q w /\ ~ cov A x.
Proof.
  intros [Hd [H1 H2] H3]. simpl. split; [reflexivity|]. split.
  - constructor; [exact Hd|apply valid_compl; constructor; assumption|].
    apply aligned_compl; [apply ncm_mult; exact Hd|exact H3].
  - intros x. apply compl_cov; assumption.
Qed.

Lemma moc_degrade_correct q w d A t :
  ValidMoc q w d A ->
  let r := moc_degrade q w d A t in
  fst r = N.min d t /\ ValidMoc q w (fst r) (snd r) /\
  forall x, cov (snd r) x <->
    exists y, cov A y /\ y / 2 ^ shift q w (N.min d t) = x / 2 ^ shift q w (N.min d t).
Proof.
  intros [Hd [H1 H2] H3]. simpl. split; [reflexivity|].
  assert (Hd' : N.min d t <= max_depth q w) by lia.
  split.
  - constructor; [exact Hd'| |apply degrade_aligned].
    constructor; [apply degrade_canon|].
    apply degrade_bounded; [apply ncm_mult; exact Hd'|apply canon_nonempty; exact H1|exact H2].
  - intros x. apply degrade_cov. apply canon_nonempty. exact H1.
Qed.

(** Two valid MOCs of equal depth covering the same set are equal (C02 corollary) *)
Lemma validmoc_ext q w d A B :
  ValidMoc q w d A -> ValidMoc q w d B -> (forall x, cov A x <-> cov B x) -> A = B.
Proof. intros [_ [HA _] _] [_ [HB _] _]. apply canon_unique; assumption. Qed.
