(** Model/Cli.v — (F, dispatch level) `moc op` on two operands stored with different index
    widths (crates/cli/src/op.rs op2_exec_on_fits*, *_lconv, *_rconv): the operand stored with
    the narrower width is promoted to the wider one (ConvertIterator = multiplication of every
    bound by 2^(w' - w)), then the streaming operator of that width is applied; one-operand
    operations work at the stored width.  [den] is the denotation of a MOC of any width in the
    common 64-bit frame: what a reader of the output file decodes. *)
From Coq Require Import List NArith Lia Bool.
From MOC.Base Require Import RangeSet.
From MOC.Model Require Import Qty Ops1D Repr.
Import ListNotations.
Open Scope N_scope.

Definition den (w : N) (l : list range) : list range := scale (64 - w) l.

Definition cli_op2 (o : op2) (q : qty) (wl dA : N) (A : list range) (wr dB : N) (B : list range)
  : N * N * list range :=
  let w := N.max wl wr in
  let r := moc_op2 o q w dA (scale (w - wl) A) dB (scale (w - wr) B) in
  (w, fst r, snd r).

Definition cli_not (q : qty) (w d : N) (A : list range) : N * N * list range :=
  let r := moc_not q w d A in (w, fst r, snd r).
Definition cli_degrade (q : qty) (w d : N) (A : list range) (t : N) : N * N * list range :=
  let r := moc_degrade q w d A t in (w, fst r, snd r).

Lemma scale_scale k1 k2 l : scale k1 (scale k2 l) = scale (k2 + k1) l.
Proof.
  unfold scale. rewrite map_map. apply map_ext. intros [a b]. cbn [fst snd].
  rewrite N.pow_add_r. f_equal; lia.
Qed.

Lemma scale_0 l : scale 0 l = l.
Proof. unfold scale. rewrite <- (map_id l) at 2. apply map_ext. intros [a b]. cbn. f_equal; lia. Qed.

Definition okw3 (w : N) : Prop := w = 16 \/ w = 32 \/ w = 64.

Lemma widen_ok_le q w w' : okw3 w -> okw3 w' -> w <= w' -> widen_ok q w w' = true.
Proof.
  intros [->|[->| ->]] [->|[->| ->]] H; try lia; destruct q; vm_compute; reflexivity.
Qed.

Lemma promote_valid q w w' d l : okw3 w -> okw3 w' -> w <= w' -> ValidMoc q w d l -> ValidMoc q w' d (scale (w' - w) l).
Proof. intros Hw Hw' Hle HV. apply scale_valid; [apply widen_ok_le; assumption|exact Hle|exact HV]. Qed.

Lemma den_promote w w' l : w <= w' -> w' <= 64 -> den w' (scale (w' - w) l) = den w l.
Proof. intros H1 H2. unfold den. rewrite scale_scale. f_equal. lia. Qed.

Lemma okw3_le64 w : okw3 w -> w <= 64. Proof. intros [->|[->| ->]]; lia. Qed.
Lemma okw3_max a b : okw3 a -> okw3 b -> okw3 (N.max a b).
Proof. intros [->|[->| ->]] [->|[->| ->]]; cbv; auto. Qed.

Lemma setop_iff o a a' b b' : (a <-> a') -> (b <-> b') -> (setop o a b <-> setop o a' b').
Proof. intros Ha Hb. destruct o; cbn [setop]; tauto. Qed.

(** whatever the stored widths and depths of the two operands, the decoded output is exactly
    the set-theoretic result on the decoded inputs, at depth max *)
Theorem cli_op2_correct o q wl dA A wr dB B :
  okw3 wl -> okw3 wr -> ValidMoc q wl dA A -> ValidMoc q wr dB B ->
  let '(w, d, R) := cli_op2 o q wl dA A wr dB B in
  w = N.max wl wr /\ d = N.max dA dB /\ ValidMoc q w d R /\
  forall x, cov (den w R) x <-> setop o (cov (den wl A) x) (cov (den wr B) x).
Proof.
  intros Hl Hr HA HB. unfold cli_op2. set (w := N.max wl wr).
  assert (Hw : okw3 w) by (apply okw3_max; assumption).
  assert (HA' : ValidMoc q w dA (scale (w - wl) A)) by (apply promote_valid; try assumption; unfold w; lia).
  assert (HB' : ValidMoc q w dB (scale (w - wr) B)) by (apply promote_valid; try assumption; unfold w; lia).
  destruct (moc_op2_correct o q w dA _ dB _ HA' HB') as (E1 & V & C).
  split; [reflexivity|]. split; [exact E1|]. split; [exact V|].
  intros x. unfold den at 1. rewrite scale_cov. rewrite C.
  pose proof (okw3_le64 w Hw) as H64.
  apply setop_iff.
  - rewrite <- (den_promote wl w A) by (unfold w; lia). unfold den. symmetry. apply scale_cov.
  - rewrite <- (den_promote wr w B) by (unfold w; lia). unfold den. symmetry. apply scale_cov.
Qed.

(** one-operand operations at the stored width, seen in the 64-bit frame *)
Theorem cli_not_correct q w d A : okw3 w -> ValidMoc q w d A ->
  let '(w', d', R) := cli_not q w d A in
  w' = w /\ d' = d /\ ValidMoc q w d R /\
  forall x, cov (den w R) x <-> x < n_cells_max q 64 /\ ~ cov (den w A) x.
Proof.
  intros Hw HV. unfold cli_not. destruct (moc_not_correct q w d A HV) as (E & V & C).
  split; [reflexivity|]. split; [exact E|]. split; [exact V|].
  intros x. unfold den. rewrite !scale_cov, C.
  assert (Hok : widen_ok q w 64 = true) by (apply widen_ok_le; [exact Hw|right; right; reflexivity|apply okw3_le64; exact Hw]).
  unfold widen_ok in Hok. apply andb_true_iff in Hok. destruct Hok as [E1 _]. apply N.eqb_eq in E1.
  rewrite E1. pose proof (pow2_pos (64 - w)) as HP.
  split; intros [H1 H2]; (split; [|exact H2]).
  - destruct (divmod_facts (2 ^ (64 - w)) x HP) as [D1 D2]. nia.
  - apply N.div_lt_upper_bound; lia.
Qed.
