(** Model/FitsCodec.v — (F, byte level) the FITS MOC codec of src/deser/fits/{mod,common,keywords}.rs.

    Writer (ranges_to_fits_ivoa, moc_id = None, moc_type = None): the primary HDU block, the
    BINTABLE extension header (eight mandatory cards, the MOC keywords in the order of their index
    in MocKeywordsMap, END, blanks up to 2880 bytes), the rows (big-endian bounds, Serial.encode_rows)
    and the zero padding.
    Reader (from_fits_ivoa, coosys_permissive = false): consume_primary_hdu (SIMPLE = T, NAXIS = 0,
    blocks until a card starting with "END "), the eight mandatory cards, the keyword loop
    (is_moc_kw on the first 8 bytes, value parsers of keywords.rs, the FIRST occurrence of a keyword
    wins, a parse error aborts), the dispatch on MOCVERS / MOCDIM / ORDERING / depth keywords, the
    TFORM1 x NAXIS1 test of the loaders, and the data readers: ranges (stop silently at the first
    incomplete pair), NUNIQ (eager: 0 skipped, < 4 rejected, depth and index checks, sort by flat_cmp).
    The space-time loaders are leaves: the model stops at "a V2 / pre-V2 space-time iterator over n
    ranges of this width", the rows are modelled in STSerial.v.
    Bytes are N.  Cards are 80 bytes. *)
From Coq Require Import List NArith Arith Lia Bool String Ascii.
From MOC.Base Require Import RangeSet.
From MOC.Model Require Import Qty Query Build Repr Serial ST STSerial AsciiCodec.
Import ListNotations.
Open Scope N_scope.
Open Scope list_scope.

Definition s2l (s : string) : list N := map N_of_ascii (list_ascii_of_string s).

(** ---------- writer ---------- *)
Definition pad80 (s : list N) : list N := s ++ repeat 32 (80 - List.length s).
Definition kw_record (kw val : list N) : list N := pad80 (kw ++ [61; 32] ++ val).
(** write_uint_mandatory_keyword_record: the value is right-justified, ending at column 30 *)
Definition mand_record (kw : list N) (v : N) : list N :=
  pad80 (kw ++ [61; 32] ++ repeat 32 (20 - List.length (adec v)) ++ adec v).

Definition hdr_block (cards : list (list N)) : list N :=
  List.concat cards ++ repeat 32 (2880 - 80 * List.length cards).

Definition primary_hdu : list N :=
  hdr_block [pad80 (s2l "SIMPLE  =                    T"); pad80 (s2l "BITPIX  =                    8");
             pad80 (s2l "NAXIS   =                    0"); pad80 (s2l "EXTEND  =                    T");
             pad80 (s2l "END")].

Definition tform_of (w : N) : list N :=
  if w =? 16 then s2l "'1I'" else if w =? 32 then s2l "'1J'" else s2l "'1K'".

Definition moc_cards (q : qty) (w d : N) : list (list N) :=
  [kw_record (s2l "MOCVERS ") (s2l "'2.0'");
   kw_record (s2l "MOCDIM  ") (match q with Hpx => s2l "'SPACE'" | Time => s2l "'TIME'" | Freq => s2l "'FREQUENCY'" end);
   kw_record (s2l "ORDERING") (s2l "'RANGE'")]
  ++ (match q with Hpx => [kw_record (s2l "COORDSYS") (s2l "'C'")] | Time => [kw_record (s2l "TIMESYS ") (s2l "'TCB'")] | Freq => [] end)
  ++ [kw_record (s2l "MOCTOOL ") (s2l "'CDS MOC Rust lib'")]
  ++ (match q with Hpx => [kw_record (s2l "MOCORD_S") (adec d)] | Time => [kw_record (s2l "MOCORD_T") (adec d)] | Freq => [] end)
  ++ [kw_record (s2l "TFORM1  ") (tform_of w); kw_record (s2l "TTYPE1  ") (s2l "'RANGE'")]
  ++ (match q with Freq => [kw_record (s2l "MOCORD_F") (adec d)] | _ => [] end).

Definition ext_header (q : qty) (w d nrows : N) : list N :=
  hdr_block ([pad80 (s2l "XTENSION= 'BINTABLE'"); pad80 (s2l "BITPIX  =                    8");
              pad80 (s2l "NAXIS   =                    2"); mand_record (s2l "NAXIS1  ") (w / 8);
              mand_record (s2l "NAXIS2  ") nrows; pad80 (s2l "PCOUNT  =                    0");
              pad80 (s2l "GCOUNT  =                    1"); pad80 (s2l "TFIELDS =                    1")]
             ++ moc_cards q w d ++ [pad80 (s2l "END")]).

Definition fits_write (q : qty) (w d : N) (l : list range) : list N :=
  let data := encode_rows (N.to_nat (w / 8)) l in
  primary_hdu ++ ext_header q w d (2 * N.of_nat (List.length l)) ++ data
  ++ repeat 0 (N.to_nat (fits_pad (N.of_nat (List.length data)))).

(** space-time MOC (rangemoc2d_to_fits_ivoa / ranges2d_to_fits_ivoa): no TTYPE1 card; rows of a time
    range carry the most significant bit (STSerial.encode2) *)
Definition st_cards (w dt ds : N) : list (list N) :=
  [kw_record (s2l "MOCVERS ") (s2l "'2.0'"); kw_record (s2l "MOCDIM  ") (s2l "'TIME.SPACE'");
   kw_record (s2l "ORDERING") (s2l "'RANGE'"); kw_record (s2l "COORDSYS") (s2l "'C'");
   kw_record (s2l "TIMESYS ") (s2l "'TCB'"); kw_record (s2l "MOCTOOL ") (s2l "'CDS MOC Rust lib'");
   kw_record (s2l "MOCORD_S") (adec ds); kw_record (s2l "MOCORD_T") (adec dt);
   kw_record (s2l "TFORM1  ") (tform_of w)].

Definition mand_cards (w nrows : N) : list (list N) :=
  [pad80 (s2l "XTENSION= 'BINTABLE'"); pad80 (s2l "BITPIX  =                    8");
   pad80 (s2l "NAXIS   =                    2"); mand_record (s2l "NAXIS1  ") (w / 8);
   mand_record (s2l "NAXIS2  ") nrows; pad80 (s2l "PCOUNT  =                    0");
   pad80 (s2l "GCOUNT  =                    1"); pad80 (s2l "TFIELDS =                    1")].

Definition fits_write_st (w dt ds : N) (X : stmoc) : list N :=
  let rows := encode2 (2 ^ (w - 1)) X in
  let data := encode_rows (N.to_nat (w / 8)) rows in
  primary_hdu ++ hdr_block (mand_cards w (2 * N.of_nat (List.length rows)) ++ st_cards w dt ds ++ [pad80 (s2l "END")])
  ++ data ++ repeat 0 (N.to_nat (fits_pad (N.of_nat (List.length data)))).

(** NUNIQ (hpx_cells_to_fits_ivoa): one buffer per depth, filled in iteration order, written in depth order *)
Definition nuniq_cards (w d : N) : list (list N) :=
  [kw_record (s2l "MOCVERS ") (s2l "'2.0'"); kw_record (s2l "MOCDIM  ") (s2l "'SPACE'");
   kw_record (s2l "ORDERING") (s2l "'NUNIQ'"); kw_record (s2l "COORDSYS") (s2l "'C'");
   kw_record (s2l "MOCTOOL ") (s2l "'CDS MOC Rust lib'"); kw_record (s2l "MOCORD_S") (adec d);
   kw_record (s2l "MOCORDER") (adec d); kw_record (s2l "TFORM1  ") (tform_of w);
   kw_record (s2l "TTYPE1  ") (s2l "'UNIQ'")].

Definition fits_write_nuniq (w d : N) (cells : list cell) : list N :=
  let nb := N.to_nat (w / 8) in
  let data := flat_map (fun dd => flat_map (fun c : cell => if fst c =? dd then be_bytes nb (uniq_hpx (fst c) (snd c)) else []) cells)
                       (anseq 0 (S (N.to_nat d))) in
  primary_hdu ++ hdr_block (mand_cards w (N.of_nat (List.length cells)) ++ nuniq_cards w d ++ [pad80 (s2l "END")])
  ++ data ++ repeat 0 (N.to_nat (fits_pad (N.of_nat (List.length data)))).

(** ---------- reader: records ---------- *)
Inductive ferr := FIo | FUnexpectedKeyword | FValueIndicatorNotFound | FUnexpectedValue | FUintValueNotFound
                | FStringValueNotFound | FWrongUintValue | FMissingKeyword | FUncompatibleKeywordContent
                | FUnexpectedDepth | FCustom | FFuel.

(** u8::is_ascii_whitespace: space, \t, \n, form feed, \r *)
Definition is_ascii_ws (c : N) : bool := (c =? 32) || (c =? 9) || (c =? 10) || (c =? 12) || (c =? 13).
Fixpoint trim_start (s : list N) : list N :=
  match s with c :: t => if is_ascii_ws c then trim_start t else s | [] => [] end.
Definition trim_end (s : list N) : list N := rev (trim_start (rev s)).

Definition starts_with (p s : list N) : bool := list_eqb (firstn (List.length p) s) p.

Definition check_kw (rec kw : list N) : option ferr :=
  if starts_with kw rec then None else Some FUnexpectedKeyword.
Definition check_ind (rec : list N) : option ferr :=
  if list_eqb (firstn 2 (skipn 8 rec)) [61; 32] then None else Some FValueIndicatorNotFound.
Definition value_of (rec : list N) : list N := trim_start (skipn 10 rec).
Definition check_val (rec v : list N) : option ferr :=
  if starts_with v (value_of rec) then None else Some FUnexpectedValue.

Definition check_kv (rec kw v : list N) : option ferr :=
  match check_kw rec kw with Some e => Some e | None =>
  match check_ind rec with Some e => Some e | None => check_val rec v end end.

(** get_str_val_no_quote: 'text' with the closing quote present; the text is trimmed at its END only *)
Fixpoint until_quote (s : list N) : option (list N) :=
  match s with
  | [] => None
  | c :: t => if c =? 39 then Some [] else match until_quote t with Some a => Some (c :: a) | None => None end
  end.
Definition str_val (rec : list N) : option (list N) :=
  match value_of rec with
  | 39 :: t => match until_quote t with Some a => Some (trim_end a) | None => None end
  | _ => None
  end.

(** parse_uint_val::<uN>: the leading digits of the left-trimmed value *)
Definition uint_val (bits : N) (rec : list N) : sum ferr N :=
  let (ds, _) := span_digits (value_of rec) in
  match ds with
  | [] => Datatypes.inl FUintValueNotFound
  | _ => if dval ds <? 2 ^ bits then Datatypes.inr (dval ds) else Datatypes.inl FWrongUintValue
  end.

Definition check_kw_uint (bits : N) (rec kw : list N) : sum ferr N :=
  match check_kw rec kw with Some e => Datatypes.inl e | None =>
  match check_ind rec with Some e => Datatypes.inl e | None => uint_val bits rec end end.

(** ---------- reader: the MOC keywords ---------- *)
(** index in MocKeywordsMap, value *)
Inductive kwval := KEnum (n : N) | KStr | KDepth (d : N) | KNside (n : N).

Definition enum_val (rec : list N) (choices : list (list N)) : sum ferr kwval :=
  match str_val rec with
  | None => Datatypes.inl FStringValueNotFound
  | Some v =>
    (fix find (cs : list (list N)) (i : N) : sum ferr kwval :=
       match cs with
       | [] => Datatypes.inl FUnexpectedValue
       | c :: r => if list_eqb v c then Datatypes.inr (KEnum i) else find r (i + 1)
       end) choices 0
  end.
Definition string_val (rec : list N) : sum ferr kwval :=
  match str_val rec with None => Datatypes.inl FStringValueNotFound | Some _ => Datatypes.inr KStr end.
Definition depth_val (rec : list N) : sum ferr kwval :=
  match uint_val 8 rec with Datatypes.inl e => Datatypes.inl e | Datatypes.inr d => Datatypes.inr (KDepth d) end.

(** is_moc_kw: None = not a MOC keyword; Some (index, parsed value or error) *)
Definition is_moc_kw (rec : list N) : option (N * (sum ferr kwval)) :=
  let k := firstn 8 rec in
  if list_eqb k (s2l "MOCVERS ") then Some (0, enum_val rec [s2l "1.1"; s2l "2.0"])
  else if list_eqb k (s2l "MOCDIM  ") then Some (1, enum_val rec [s2l "TIME"; s2l "SPACE"; s2l "TIME.SPACE"; s2l "FREQUENCY"; s2l "FREQUENCY.SPACE"])
  else if list_eqb k (s2l "ORDERING") then Some (2, enum_val rec [s2l "NUNIQ"; s2l "RANGE"; s2l "RANGE29"; s2l "NESTED"; s2l "RING"])
  else if list_eqb k (s2l "COORDSYS") then Some (3, enum_val rec [s2l "C"])
  else if list_eqb k (s2l "TIMESYS ") then Some (4, enum_val rec [s2l "TCB"; s2l "JD"])
  else if list_eqb k (s2l "MOCID   ") then Some (5, string_val rec)
  else if list_eqb k (s2l "MOCTOOL ") then Some (6, string_val rec)
  else if list_eqb k (s2l "MOCTYPE ") then Some (7, enum_val rec [s2l "IMAGE"; s2l "CATALOG"])
  else if list_eqb k (s2l "MOCORD_S") then Some (8, depth_val rec)
  else if list_eqb k (s2l "MOCORD_1") then Some (8, depth_val rec)
  else if list_eqb k (s2l "TORDER  ") then Some (9, depth_val rec)
  else if list_eqb k (s2l "MOCORD_T") then Some (9, depth_val rec)
  else if list_eqb k (s2l "MOCORD_F") then Some (16, depth_val rec)
  else if list_eqb k (s2l "MOCORDER") then Some (10, depth_val rec)
  else if list_eqb k (s2l "PIXTYPE ") then Some (11, enum_val rec [s2l "HEALPIX"])
  else if list_eqb k (s2l "TFORM1  ") then Some (12, enum_val rec [s2l "1B"; s2l "1I"; s2l "1J"; s2l "1K"; s2l "2K"])
  else if list_eqb k (s2l "TTYPE1  ") then Some (13, string_val rec)
  else if list_eqb k (s2l "NSIDE   ") then Some (14, match uint_val 32 rec with Datatypes.inl e => Datatypes.inl e | Datatypes.inr n => Datatypes.inr (KNside n) end)
  else if list_eqb k (s2l "INDXSCHM") then Some (15, enum_val rec [s2l "IMPLICIT"; s2l "EXPLICIT"])
  else None.

Definition kwmap := list (N * kwval).
Fixpoint kw_get (m : kwmap) (i : N) : option kwval :=
  match m with [] => None | (j, v) :: t => if j =? i then Some v else kw_get t i end.
(** insert, the first occurrence wins *)
Definition kw_insert (m : kwmap) (i : N) (v : kwval) : kwmap :=
  match kw_get m i with Some _ => m | None => m ++ [(i, v)] end.

(** the keyword loop over the cards of one block: Datatypes.inl error | Datatypes.inr (map, END seen) *)
Fixpoint kw_cards (cs : list (list N)) (m : kwmap) : sum ferr (kwmap * bool)%type :=
  match cs with
  | [] => Datatypes.inr (m, false)
  | rec :: t =>
    match is_moc_kw rec with
    | Some (_, Datatypes.inl e) => Datatypes.inl e
    | Some (i, Datatypes.inr v) => kw_cards t (kw_insert m i v)
    | None => if list_eqb (firstn 4 rec) (s2l "END ") then Datatypes.inr (m, true) else kw_cards t m
    end
  end.

(** ---------- reader: blocks ---------- *)
Fixpoint chunks (k : nat) (b : list N) : list (list N) :=
  match k with O => [] | S k' => firstn 80 b :: chunks k' (skipn 80 b) end.

Definition read_block (b : list N) : option (list (list N) * list N) :=
  if (List.length b <? 2880)%nat then None else Some (chunks 36 (firstn 2880 b), skipn 2880 b).

Definition contains_end (cs : list (list N)) : bool :=
  existsb (fun rec => list_eqb (firstn 4 rec) (s2l "END ")) cs.

Fixpoint skip_to_end (fuel : nat) (b : list N) : sum ferr (list N) :=
  match fuel with
  | O => Datatypes.inl FFuel
  | S f => match read_block b with
           | None => Datatypes.inl FIo
           | Some (cs, rest) => if contains_end cs then Datatypes.inr rest else skip_to_end f rest
           end
  end.

Definition consume_primary (b : list N) : sum ferr (list N) :=
  match read_block b with
  | None => Datatypes.inl FIo
  | Some (cs, rest) =>
    match check_kv (nth 0 cs []) (s2l "SIMPLE ") (s2l "T") with Some e => Datatypes.inl e | None =>
    match check_kv (nth 2 cs []) (s2l "NAXIS ") (s2l "0") with Some e => Datatypes.inl e | None =>
    if contains_end (skipn 3 cs) then Datatypes.inr rest else skip_to_end (S (List.length rest)) rest
    end end
  end.

Fixpoint kw_blocks (fuel : nat) (cs : list (list N)) (rest : list N) (m : kwmap) : sum ferr (kwmap * list N)%type :=
  match kw_cards cs m with
  | Datatypes.inl e => Datatypes.inl e
  | Datatypes.inr (m', true) => Datatypes.inr (m', rest)
  | Datatypes.inr (m', false) =>
    match fuel with
    | O => Datatypes.inl FFuel
    | S f => match read_block rest with
             | None => Datatypes.inl FIo
             | Some (cs', rest') => kw_blocks f cs' rest' m'
             end
    end
  end.

(** ---------- reader: dispatch ---------- *)
Inductive leaf := LSNuniq | LSRange | LTRange | LFRange | LSTRange | LST29.

Record hdr := { h_leaf : leaf; h_nbytes : N; h_nelems : N; h_d1 : N; h_d2 : N; h_map : kwmap }.

Definition by_ordering (m : kwmap) (nuniq range range29 : sum ferr leaf) : sum ferr leaf :=
  match kw_get m 2 with
  | Some (KEnum 0) => nuniq
  | Some (KEnum 1) => range
  | Some (KEnum 2) => range29
  | _ => Datatypes.inl FMissingKeyword
  end.

Definition depth_at (m : kwmap) (i : N) : option N :=
  match kw_get m i with Some (KDepth d) => Some d | _ => None end.

Definition with_leaf (r : sum ferr leaf) (d1 d2 : N) : sum ferr (leaf * N * N)%type :=
  match r with Datatypes.inl e => Datatypes.inl e | Datatypes.inr lf => Datatypes.inr (lf, d1, d2) end.

Definition disp_space (m : kwmap) : sum ferr (leaf * N * N)%type :=
  match depth_at m 8 with
  | None => Datatypes.inl FMissingKeyword
  | Some d =>
    match kw_get m 3 with
    | None => Datatypes.inl FMissingKeyword                  (* check_coordsys *)
    | Some _ => with_leaf (by_ordering m (Datatypes.inr LSNuniq) (Datatypes.inr LSRange) (Datatypes.inl FUncompatibleKeywordContent)) d 0
    end
  end.
Definition disp_time (m : kwmap) : sum ferr (leaf * N * N)%type :=
  match depth_at m 9 with
  | None => Datatypes.inl FMissingKeyword
  | Some d => with_leaf (by_ordering m (Datatypes.inl FUncompatibleKeywordContent) (Datatypes.inr LTRange) (Datatypes.inl FUncompatibleKeywordContent)) d 0
  end.
Definition disp_st (m : kwmap) : sum ferr (leaf * N * N)%type :=
  match depth_at m 9 with
  | None => Datatypes.inl FMissingKeyword
  | Some dt =>
    match depth_at m 8 with
    | None => Datatypes.inl FMissingKeyword
    | Some ds => with_leaf (by_ordering m (Datatypes.inl FUncompatibleKeywordContent) (Datatypes.inr LSTRange) (Datatypes.inl FUncompatibleKeywordContent)) dt ds
    end
  end.
Definition disp_freq (m : kwmap) : sum ferr (leaf * N * N)%type :=
  match depth_at m 16 with
  | None => Datatypes.inl FMissingKeyword
  | Some d => with_leaf (by_ordering m (Datatypes.inl FUncompatibleKeywordContent) (Datatypes.inr LFRange) (Datatypes.inl FUncompatibleKeywordContent)) d 0
  end.

(** MOCVERS = 2.0 *)
Definition dispatch_v2 (m : kwmap) : sum ferr (leaf * N * N)%type :=
  match kw_get m 1 with
  | Some (KEnum 1) => disp_space m
  | Some (KEnum 0) => disp_time m
  | Some (KEnum 2) => disp_st m
  | Some (KEnum 3) => disp_freq m
  | _ => Datatypes.inl FMissingKeyword                         (* absent, or FREQUENCY.SPACE *)
  end.

(** v1: S-MOC, or pre-v2 ST-MOC *)
Definition st29_depths (m : kwmap) (d : N) : sum ferr (leaf * N * N)%type :=
  match depth_at m 9, depth_at m 8 with
  | None, Some ds => Datatypes.inr (LST29, (2 * d) mod 256, ds)
  | Some dt, None => Datatypes.inr (LST29, (2 * dt) mod 256, d)
  | Some dt, Some ds => Datatypes.inr (LST29, (2 * dt) mod 256, ds)
  | None, None => Datatypes.inl FMissingKeyword
  end.
Definition dispatch_v1 (m : kwmap) : sum ferr (leaf * N * N)%type :=
  match depth_at m 10 with
  | None => Datatypes.inl FMissingKeyword
  | Some d =>
    match by_ordering m (Datatypes.inr LSNuniq) (Datatypes.inr LSRange) (Datatypes.inr LST29) with
    | Datatypes.inl e => Datatypes.inl e
    | Datatypes.inr LST29 => st29_depths m d
    | Datatypes.inr lf => Datatypes.inr (lf, d, 0)
    end
  end.

Definition is_v2 (m : kwmap) : bool :=
  match kw_get m 0 with Some (KEnum 1) => true | _ => false end.
Definition dispatch (m : kwmap) : sum ferr (leaf * N * N)%type :=
  if is_v2 m then dispatch_v2 m else dispatch_v1 m.

(** the TFORM1 x NAXIS1 test of the loaders: the index width *)
Definition width_of (lf : leaf) (m : kwmap) (nbytes : N) : sum ferr N :=
  match kw_get m 12 with
  | None => Datatypes.inl FMissingKeyword
  | Some (KEnum t) =>
    match lf with
    | LST29 => if (t =? 3) && (nbytes =? 8) then Datatypes.inr 64 else Datatypes.inl FUncompatibleKeywordContent
    | _ => if (t =? 1) && (nbytes =? 2) then Datatypes.inr 16
           else if (t =? 2) && (nbytes =? 4) then Datatypes.inr 32
           else if (t =? 3) && (nbytes =? 8) then Datatypes.inr 64
           else Datatypes.inl FUncompatibleKeywordContent
    end
  | Some _ => Datatypes.inl FUncompatibleKeywordContent
  end.

(** ---------- reader: data ---------- *)
(** RangeMocIterFromFits: pairs while the count is not exhausted and two whole values can be read *)
Fixpoint read_ranges (fuel : nat) (nb : nat) (n : N) (data : list N) : list range :=
  match fuel with
  | O => []
  | S f => if (n =? 0) || (List.length data <? nb + nb)%nat then []
           else (be_value (firstn nb data), be_value (firstn nb (skipn nb data)))
                :: read_ranges f nb (n - 1) (skipn (nb + nb) data)
  end.

Definition cell_low (q : qty) (c : cell) (c' : cell) : bool := flat_leb q (ECell (fst c) (snd c)) (ECell (fst c') (snd c')).
Fixpoint insert_c (c : cell) (l : list cell) : list cell :=
  match l with [] => [c] | y :: t => if cell_low Hpx c y then c :: l else y :: insert_c c t end.

(** from_fits_nuniq *)
Fixpoint read_nuniq (fuel : nat) (w : N) (nb : nat) (n : N) (dmax : N) (data : list N) (acc : list cell) : sum ferr (list cell) :=
  match fuel with
  | O => Datatypes.inl FFuel
  | S f =>
    if n =? 0 then Datatypes.inr acc
    else if (List.length data <? nb)%nat then Datatypes.inl FIo
    else
      let u := be_value (firstn nb data) in
      let rest := skipn nb data in
      if u =? 0 then read_nuniq f w nb (n - 1) dmax rest acc
      else if u <? 4 then Datatypes.inl FCustom
      else let c := from_uniq_hpx u in
           if dmax <? fst c then Datatypes.inl FUnexpectedDepth
           else if n_cells Hpx (fst c) <=? snd c then Datatypes.inl FCustom
           else read_nuniq f w nb (n - 1) dmax rest (acc ++ [c])
  end.

(** ---------- the reader ---------- *)
Inductive fdata := DRanges (l : list range) | DCells (l : list cell) | DSt (X : stmoc) | DSt29.
Inductive fres := FOk (lf : leaf) (w d1 d2 : N) (dt : fdata) | FErr (e : ferr).

Definition fits_read (b : list N) : fres :=
  match consume_primary b with
  | Datatypes.inl e => FErr e
  | Datatypes.inr b1 =>
    match read_block b1 with
    | None => FErr FIo
    | Some (cs, rest) =>
      match check_kv (nth 0 cs []) (s2l "XTENSION") (s2l "'BINTABLE'") with Some e => FErr e | None =>
      match check_kv (nth 1 cs []) (s2l "BITPIX  ") (s2l "8") with Some e => FErr e | None =>
      match check_kv (nth 2 cs []) (s2l "NAXIS  ") (s2l "2") with Some e => FErr e | None =>
      match check_kw_uint 8 (nth 3 cs []) (s2l "NAXIS1  ") with Datatypes.inl e => FErr e | Datatypes.inr nbytes =>
      match check_kw_uint 64 (nth 4 cs []) (s2l "NAXIS2 ") with Datatypes.inl e => FErr e | Datatypes.inr nelems =>
      match check_kv (nth 5 cs []) (s2l "PCOUNT  ") (s2l "0") with Some e => FErr e | None =>
      match check_kv (nth 6 cs []) (s2l "GCOUNT  ") (s2l "1") with Some e => FErr e | None =>
      match check_kv (nth 7 cs []) (s2l "TFIELDS ") (s2l "1") with Some e => FErr e | None =>
      match kw_blocks (S (List.length rest)) (skipn 8 cs) rest [] with
      | Datatypes.inl e => FErr e
      | Datatypes.inr (m, data) =>
        match dispatch m with
        | Datatypes.inl e => FErr e
        | Datatypes.inr (lf, d1, d2) =>
          match width_of lf m nbytes with
          | Datatypes.inl e => FErr e
          | Datatypes.inr w =>
            let nb := N.to_nat (w / 8) in
            match lf with
            | LSNuniq =>
              let dmax := N.min d1 (max_depth Hpx w) in
              match read_nuniq (S (List.length data)) w nb nelems dmax data [] with
              | Datatypes.inl e => FErr e
              | Datatypes.inr cells => FOk lf w dmax 0 (DCells (fold_right insert_c [] cells))
              end
            | LSRange | LTRange | LFRange => FOk lf w d1 0 (DRanges (read_ranges (List.length data) nb (nelems / 2) data))
            | LSTRange =>
              (* RangeMoc2DIterFromFits: elements from the rows; when the file holds fewer rows than declared
                 the read error makes `next` return None and the element in progress is lost *)
              let rows := read_ranges (List.length data) nb (nelems / 2) data in
              let els := decode2 (2 ^ (w - 1)) rows in
              FOk lf w d1 d2 (DSt (if N.of_nat (List.length rows) <? nelems / 2 then removelast els else els))
            | LST29 => FOk lf w d1 d2 DSt29
            end
          end
        end
      end end end end end end end end end
    end
  end.

(** ---------- the multi-order-map reader (src/deser/fits/multiordermap.rs MultiOrderMapIterator::open + rows) ----------
    twelve mandatory cards (the last four: TTYPE1 = 'UNIQ', TFORM1 = 'K', TTYPE2 = 'PROBDENSITY', TFORM2 = 'D'),
    the same keyword loop, then PIXTYPE present, ORDERING = NUNIQ, COORDSYS present, MOCORDER <= 29,
    NAXIS1 - 16 bytes skipped per row (at most 65535), NAXIS2 rows (uniq, density bits); a row that cannot be
    read entirely is an I/O error; uniq < 4, a depth above MOCORDER, an index outside its depth or a NaN density is rejected. *)
(** the 64 bits of a binary64 NaN: exponent all ones, non-zero fraction *)
Definition is_nan_bits (x : N) : bool := ((x / 2 ^ 52) mod 2048 =? 2047) && negb (x mod 2 ^ 52 =? 0).

Fixpoint mom_rows (fuel : nat) (nskip : nat) (n : N) (dmax : N) (data : list N) (acc : list (N * N)) : sum ferr (list (N * N)) :=
  match fuel with
  | O => Datatypes.inl FFuel
  | S f =>
    if n =? 0 then Datatypes.inr acc
    else if (List.length data <? 16 + nskip)%nat then Datatypes.inl FIo
    else
      let u := be_value (firstn 8 data) in
      let dens := be_value (firstn 8 (skipn 8 data)) in
      let rest := skipn (16 + nskip) data in
      if u <? 4 then Datatypes.inl FCustom
      else let c := from_uniq_hpx u in
           if (dmax <? fst c) || (n_cells Hpx (fst c) <=? snd c) then Datatypes.inl FCustom
           else if is_nan_bits dens then Datatypes.inl FCustom
           else mom_rows f nskip (n - 1) dmax rest (acc ++ [(u, dens)])
  end.

Inductive momres := MomOk (depth : N) (rows : list (N * N)) | MomErr (e : ferr).

Definition mom_read (b : list N) : momres :=
  match consume_primary b with
  | Datatypes.inl e => MomErr e
  | Datatypes.inr b1 =>
    match read_block b1 with
    | None => MomErr FIo
    | Some (cs, rest) =>
      match check_kv (nth 0 cs []) (s2l "XTENSION") (s2l "'BINTABLE'") with Some e => MomErr e | None =>
      match check_kv (nth 1 cs []) (s2l "BITPIX  ") (s2l "8") with Some e => MomErr e | None =>
      match check_kv (nth 2 cs []) (s2l "NAXIS  ") (s2l "2") with Some e => MomErr e | None =>
      match check_kw_uint 64 (nth 3 cs []) (s2l "NAXIS1  ") with Datatypes.inl e => MomErr e | Datatypes.inr nbytes =>
      match check_kw_uint 64 (nth 4 cs []) (s2l "NAXIS2 ") with Datatypes.inl e => MomErr e | Datatypes.inr nrows =>
      match check_kv (nth 5 cs []) (s2l "PCOUNT  ") (s2l "0") with Some e => MomErr e | None =>
      match check_kv (nth 6 cs []) (s2l "GCOUNT  ") (s2l "1") with Some e => MomErr e | None =>
      match check_kw_uint 64 (nth 7 cs []) (s2l "TFIELDS ") with Datatypes.inl e => MomErr e | Datatypes.inr _ =>
      match check_kv (nth 8 cs []) (s2l "TTYPE1 ") (s2l "'UNIQ    '") with Some e => MomErr e | None =>
      match check_kv (nth 9 cs []) (s2l "TFORM1 ") (s2l "'K       '") with Some e => MomErr e | None =>
      match check_kv (nth 10 cs []) (s2l "TTYPE2 ") (s2l "'PROBDENSITY'") with Some e => MomErr e | None =>
      match check_kv (nth 11 cs []) (s2l "TFORM2 ") (s2l "'D       '") with Some e => MomErr e | None =>
      match kw_blocks (S (List.length rest)) (skipn 12 cs) rest [] with
      | Datatypes.inl e => MomErr e
      | Datatypes.inr (m, data) =>
        match kw_get m 11 with None => MomErr FMissingKeyword | Some _ =>                 (* check_pixtype *)
        match kw_get m 2 with
        | None => MomErr FMissingKeyword
        | Some (KEnum 0) =>
          match kw_get m 3 with None => MomErr FMissingKeyword | Some _ =>                 (* check_coordsys *)
          match depth_at m 10 with
          | None => MomErr FMissingKeyword
          | Some d =>
            if 29 <? d then MomErr FUnexpectedDepth
            else if (nbytes <? 16) || (65535 <? nbytes - 16) then MomErr FCustom
            else match mom_rows (S (List.length data)) (N.to_nat (nbytes - 16)) nrows d data [] with
                 | Datatypes.inl e => MomErr e
                 | Datatypes.inr rows => MomOk d rows
                 end
          end end
        | Some _ => MomErr FUnexpectedValue                                                  (* check_ordering *)
        end end
      end end end end end end end end end end end end end
    end
  end.

(** ---------- the sky-map reader, up to the pixel values (src/deser/fits/skymap.rs from_fits_skymap_internal) ----------
    ten mandatory cards (TTYPE1: any string; TFORM1 in D, 1D, E, 1E, 1024E), the keyword loop, PIXTYPE
    present, INDXSCHM = IMPLICIT, depth = MOCORDER or log2 NSIDE (a power of two in 1..2^29), depth <= 29,
    NAXIS2 x pack = 12 x 4^depth, NAXIS1 >= first column and NAXIS1 - first column <= 65535,
    ORDERING NESTED or RING; then NAXIS2 rows of NAXIS1 bytes must be readable.  The pixel values (floating
    point) and what the selection makes of them are outside this model: the verdict is Ok or the error. *)
Fixpoint log2_pow2 (fuel : nat) (x : N) : option N :=
  match fuel with
  | O => None
  | S f => if x =? 1 then Some 0 else if x mod 2 =? 0 then match log2_pow2 f (x / 2) with Some k => Some (k + 1) | None => None end else None
  end.

Inductive skyres := SkyOk (depth : N) (is_f64 : bool) (n_pack : N) (nested : bool) | SkyErr (e : ferr).

Definition sky_read (b : list N) : skyres :=
  match consume_primary b with
  | Datatypes.inl e => SkyErr e
  | Datatypes.inr b1 =>
    match read_block b1 with
    | None => SkyErr FIo
    | Some (cs, rest) =>
      match check_kv (nth 0 cs []) (s2l "XTENSION") (s2l "'BINTABLE'") with Some e => SkyErr e | None =>
      match check_kv (nth 1 cs []) (s2l "BITPIX  ") (s2l "8") with Some e => SkyErr e | None =>
      match check_kv (nth 2 cs []) (s2l "NAXIS  ") (s2l "2") with Some e => SkyErr e | None =>
      match check_kw_uint 64 (nth 3 cs []) (s2l "NAXIS1  ") with Datatypes.inl e => SkyErr e | Datatypes.inr nbytes =>
      match check_kw_uint 64 (nth 4 cs []) (s2l "NAXIS2 ") with Datatypes.inl e => SkyErr e | Datatypes.inr nrows =>
      match check_kv (nth 5 cs []) (s2l "PCOUNT  ") (s2l "0") with Some e => SkyErr e | None =>
      match check_kv (nth 6 cs []) (s2l "GCOUNT  ") (s2l "1") with Some e => SkyErr e | None =>
      match check_kw_uint 64 (nth 7 cs []) (s2l "TFIELDS ") with Datatypes.inl e => SkyErr e | Datatypes.inr _ =>
      (* check_keyword_and_get_str_val: keyword, value indicator, quoted string *)
      match check_kw (nth 8 cs []) (s2l "TTYPE1 ") with Some e => SkyErr e | None =>
      match check_ind (nth 8 cs []) with Some e => SkyErr e | None =>
      match str_val (nth 8 cs []) with None => SkyErr FStringValueNotFound | Some _ =>
      match check_kw (nth 9 cs []) (s2l "TFORM1 ") with Some e => SkyErr e | None =>
      match check_ind (nth 9 cs []) with Some e => SkyErr e | None =>
      match str_val (nth 9 cs []) with None => SkyErr FStringValueNotFound | Some tf =>
      let form := if list_eqb tf (s2l "D") || list_eqb tf (s2l "1D") then Some (true, 1)
                  else if list_eqb tf (s2l "E") || list_eqb tf (s2l "1E") then Some (false, 1)
                  else if list_eqb tf (s2l "1024E") then Some (false, 1024) else None in
      match form with None => SkyErr FUnexpectedValue | Some (is_f64, n_pack) =>
      match kw_blocks (S (List.length rest)) (skipn 10 cs) rest [] with
      | Datatypes.inl e => SkyErr e
      | Datatypes.inr (m, data) =>
        match kw_get m 11 with None => SkyErr FMissingKeyword | Some _ =>
        (* check_index_schema(IMPLICIT) *)
        match kw_get m 15 with
        | Some (KEnum 0) =>
        let depth_r : sum ferr N :=
          match depth_at m 10 with
          | Some d => Datatypes.inr d
          | None => match kw_get m 14 with
                    | Some (KNside ns) => if (0 <? ns) && (ns <=? 2 ^ 29) then
                                            match log2_pow2 40 ns with Some k => Datatypes.inr k | None => Datatypes.inl FCustom end
                                          else Datatypes.inl FCustom
                    | _ => Datatypes.inl FMissingKeyword
                    end
          end in
        match depth_r with Datatypes.inl e => SkyErr e | Datatypes.inr d =>
        if 29 <? d then SkyErr FUnexpectedDepth
        else if negb ((nrows * n_pack <? 2 ^ 64) && (nrows * n_pack =? 12 * 4 ^ d)) then SkyErr FCustom
        else let first := (if is_f64 then 8 else 4) * n_pack in
             if (nbytes <? first) || (65535 <? nbytes - first) then SkyErr FCustom
             else match kw_get m 2 with
                  | None => SkyErr FMissingKeyword
                  | Some (KEnum o) =>
                    if (o =? 3) || (o =? 4) then
                      if N.of_nat (List.length data) <? nrows * nbytes then SkyErr FIo else SkyOk d is_f64 n_pack (o =? 3)
                    else SkyErr FUnexpectedValue
                  | Some _ => SkyErr FUnexpectedValue
                  end
        end
        | Some (KEnum _) => SkyErr FUnexpectedValue
        | _ => SkyErr FMissingKeyword
        end end
      end end end end end end end end end end end end end end end end
    end
  end.
