(** Model/Mom.v — the weighted sum of a multi-order map over a MOC (src/mom/mod.rs):
      sum_values_in_moc / sum_values_in_hpxmoc :  Σ value × cell_fraction(depth, ipix)
      retain_values_with_weights_in_hpxmoc     :  the cells with a positive covered fraction,
                                                  each with (value, cell_area × fraction).
    Keys are decoded as the code does (Hpx::from_uniq_hpx, resp. Q::from_zuniq — the models of
    Repr.v).  The covered fraction of a cell is the exact rational  width(M ∩ cell) / size(cell)
    ([Query.width], characterised by C03_fraction_zero/one).  The weighted sum is returned as the
    exact integer numerator over the common denominator 2^S (S = shift of depth 0); the theorem
    [mom_num_exact] states, in Q, that this is Σ value × fraction — no rounding in the model. *)
From Coq Require Import List NArith ZArith QArith Lia.
From MOC.Base Require Import RangeSet.
From MOC.Model Require Import Qty Query Repr.
Import ListNotations.
Open Scope N_scope.

(** a decoded map entry: (shift of the cell's depth, index at that depth, value) *)
Definition entry := (N * N * Z)%type.

Definition cell_lo (sh i : N) : N := i * 2 ^ sh.
Definition cell_hi (sh i : N) : N := (i + 1) * 2 ^ sh.
Definition cell_w (M : list range) (sh i : N) : N := width M (cell_lo sh i) (cell_hi sh i).

(** numerator of Σ v × w/2^sh over the denominator 2^S *)
Definition term (S : N) (M : list range) (e : entry) : Z :=
  let '(sh, i, v) := e in (v * Z.of_N (cell_w M sh i) * 2 ^ Z.of_N (S - sh))%Z.
Definition mom_num (S : N) (M : list range) (mom : list entry) : Z :=
  fold_left (fun acc e => (acc + term S M e)%Z) mom 0%Z.

(** the filter: entries with a positive fraction, in order, each with its (width, shift) *)
Definition mom_filter (M : list range) (mom : list entry) : list (Z * N * N) :=
  flat_map (fun e : entry => let '(sh, i, v) := e in
     let w := cell_w M sh i in if w =? 0 then [] else [(v, w, sh)]) mom.

(** decoding of the keys *)
Definition decode_hpx (w : N) (kv : N * Z) : entry :=
  let '(d, i) := from_uniq_hpx (fst kv) in (shift Hpx w d, i, snd kv).
Definition decode_zuniq (q : qty) (w : N) (kv : N * Z) : entry :=
  let '(d, i) := from_zuniq q w (fst kv) in (shift q w d, i, snd kv).

Definition mom_sum_hpx (w : N) (M : list range) (kvs : list (N * Z)) : Z :=
  mom_num (shift Hpx w 0) M (map (decode_hpx w) kvs).
Definition mom_sum_zuniq (q : qty) (w : N) (M : list range) (kvs : list (N * Z)) : Z :=
  mom_num (shift q w 0) M (map (decode_zuniq q w) kvs).
Definition mom_filter_hpx (w : N) (M : list range) (kvs : list (N * Z)) : list (Z * N * N) :=
  mom_filter M (map (decode_hpx w) kvs).

(** decimal printing support for the oracle (numerators exceed 64 bits) *)
Definition divmod10 (n : N) : N * N := N.div_eucl n 10.

(** ---------- theorems ---------- *)
Definition n2p (n : N) : positive := match n with N0 => 1%positive | Npos p => p end.
Definition pow2Q (k : N) : Q := inject_Z (2 ^ Z.of_N k).
(** the exact covered fraction of a cell *)
Definition frac (M : list range) (sh i : N) : Q := Z.of_N (cell_w M sh i) # n2p (2 ^ sh).
Definition termQ (M : list range) (e : entry) : Q := let '(sh, i, v) := e in (inject_Z v * frac M sh i)%Q.
Definition sumQ (M : list range) (mom : list entry) : Q := fold_right (fun e acc => (termQ M e + acc)%Q) 0%Q mom.

Lemma pos_pow2 sh : Z.pos (n2p (2 ^ sh)) = (2 ^ Z.of_N sh)%Z.
Proof.
  assert (H : 2 ^ sh <> 0) by (apply N.pow_nonzero; lia).
  destruct (2 ^ sh) as [|p] eqn:E; [congruence|]. cbn [n2p].
  change (Z.pos p) with (Z.of_N (N.pos p)). rewrite <- E. rewrite N2Z.inj_pow. reflexivity.
Qed.

Lemma term_exact S M e : fst (fst e) <= S ->
  (inject_Z (term S M e) == termQ M e * pow2Q S)%Q.
Proof.
  destruct e as [[sh i] v]. cbn [fst]. intros Hle. unfold term, termQ, frac, pow2Q.
  unfold Qeq, Qmult, inject_Z. cbn [Qnum Qden].
  rewrite Pos.mul_1_l, Pos.mul_1_r, pos_pow2, Z.mul_1_r.
  assert (E : (2 ^ Z.of_N S = 2 ^ Z.of_N (S - sh) * 2 ^ Z.of_N sh)%Z).
  { rewrite <- Z.pow_add_r by lia. f_equal. lia. }
  rewrite E. ring.
Qed.

Lemma fold_num_shift S M mom : forall acc,
  fold_left (fun a e => (a + term S M e)%Z) mom acc = (acc + mom_num S M mom)%Z.
Proof.
  unfold mom_num. induction mom as [|e t IH]; intros acc; cbn [fold_left]; [lia|].
  rewrite IH. rewrite (IH (0 + term S M e)%Z). lia.
Qed.

(** the integer the model returns IS Σ value × covered-fraction, scaled by 2^S *)
Theorem mom_num_exact S M mom : Forall (fun e : entry => fst (fst e) <= S) mom ->
  (inject_Z (mom_num S M mom) == sumQ M mom * pow2Q S)%Q.
Proof.
  induction mom as [|e t IH]; intros HF.
  - unfold mom_num, sumQ. cbn. reflexivity.
  - inversion HF as [|? ? He Ht]; subst. unfold mom_num. cbn [fold_left fold_right sumQ].
    rewrite fold_num_shift. rewrite Z.add_0_l. rewrite inject_Z_plus. rewrite (term_exact S M e He). rewrite (IH Ht).
    fold (sumQ M t). ring.
Qed.

(** the fraction is 0 exactly when nothing of the cell is covered, 1 exactly when all of it is,
    and always inside [0,1] *)
Lemma cell_nonempty sh i : cell_lo sh i < cell_hi sh i.
Proof. unfold cell_lo, cell_hi. pose proof (pow2_pos sh). nia. Qed.

Theorem frac_zero_iff M sh i : Canon M ->
  ((frac M sh i == 0)%Q <-> forall x, cell_lo sh i <= x < cell_hi sh i -> ~ cov M x).
Proof.
  intros HC. unfold frac, Qeq. cbn [Qnum Qden]. rewrite Z.mul_1_r, Z.mul_0_l.
  rewrite <- (width_zero_iff M _ _ HC (cell_nonempty sh i)). unfold cell_w. lia.
Qed.

Theorem frac_one_iff M sh i : Canon M ->
  ((frac M sh i == 1)%Q <-> forall x, cell_lo sh i <= x < cell_hi sh i -> cov M x).
Proof.
  intros HC. unfold frac, Qeq. cbn [Qnum Qden]. rewrite Z.mul_1_r, Z.mul_1_l, pos_pow2.
  rewrite <- (width_full_iff M _ _ HC (cell_nonempty sh i)). unfold cell_w.
  assert (E : cell_hi sh i - cell_lo sh i = 2 ^ sh) by (unfold cell_lo, cell_hi; lia).
  rewrite E. change 2%Z with (Z.of_N 2). rewrite <- N2Z.inj_pow. lia.
Qed.

Theorem frac_bounds M sh i : Canon M -> (0 <= frac M sh i <= 1)%Q.
Proof.
  intros HC. unfold frac, Qle. cbn [Qnum Qden]. rewrite Z.mul_1_r, Z.mul_1_l, Z.mul_0_l, pos_pow2.
  pose proof (width_le M 0 (cell_lo sh i) (cell_hi sh i) HC) as H.
  assert (E : cell_hi sh i - N.max (cell_lo sh i) 0 = 2 ^ sh) by (unfold cell_lo, cell_hi; lia).
  pose proof (cell_nonempty sh i). rewrite E in H. unfold cell_w.
  change 2%Z with (Z.of_N 2). rewrite <- N2Z.inj_pow. lia.
Qed.

(** the filter keeps exactly the entries with a positive fraction, in order *)
Theorem mom_filter_spec M mom v w sh :
  In (v, w, sh) (mom_filter M mom) <->
  exists i, In (sh, i, v) mom /\ w = cell_w M sh i /\ w <> 0.
Proof.
  unfold mom_filter. rewrite in_flat_map. split.
  - intros [[[sh' i] v'] [Hin H]]. destruct (N.eqb_spec (cell_w M sh' i) 0) as [E|E]; [destruct H|].
    destruct H as [H|[]]. inversion H; subst. exists i. auto.
  - intros (i & Hin & -> & Hne). exists (sh, i, v). split; [exact Hin|].
    destruct (N.eqb_spec (cell_w M sh i) 0); [contradiction|left; reflexivity].
Qed.

(** the keys are decoded to the cell they encode *)
Theorem decode_hpx_roundtrip w d i v : i < 12 * 4 ^ d ->
  decode_hpx w (uniq_hpx d i, v) = (shift Hpx w d, i, v).
Proof. intros H. unfold decode_hpx. cbn [fst snd]. rewrite (uniq_hpx_roundtrip d i H). reflexivity. Qed.

Example mom_example :
  (* M = cell 0/1 of a 64-bit S-MOC; map = {1/4 -> 1, 2/4 -> 1}: 1/4 is in 0/1, 2/4 is in 0/0 *)
  let M := [(1 * 2 ^ 58, 2 * 2 ^ 58)] in
  mom_sum_hpx 64 M [(uniq_hpx 1 4, 1%Z); (uniq_hpx 2 4, 1%Z)] = (2 ^ 58)%Z.
Proof. vm_compute. reflexivity. Qed.
