(** Model/SetQuery.v — (F, entry level) `mocset query` and `mocset union` of
    crates/set/src/{query,union}.rs: the region is built with 64-bit indices, a copy
    converted to the 32-bit storage width is compared with the MOCs stored at depth <= 13
    (u32 ranges), the 64-bit region with the MOCs stored at depth > 13; an entry is
    considered when it is valid (or deprecated, on request).
    [narrow] is ConvertFromU64Iterator (shift of BOTH bounds = floor).  The code as it
    stood narrowed the region directly ([matches_floor], refuted below: D18); the repaired
    code first degrades the region to the storage depth 13 ([region32]).
    Predicates on ranges (intersects / contains / contains_val) are those of Model/Query.v
    (characterised by the covered sets in C03). *)
From Coq Require Import List NArith Lia Bool.
From MOC.Base Require Import RangeSet.
From MOC.Model Require Import Qty Query Build Repr.
Import ListNotations.
Open Scope N_scope.

Definition K : N := 32.                         (* 64 - 32 = shift Hpx 64 13 *)

Definition narrow (l : list range) : list range :=
  map (fun r => (fst r / 2 ^ K, snd r / 2 ^ K)) l.
Definition region32 (R : list range) : list range := narrow (degrade K R).

Inductive qstatus := QRemoved | QDeprecated | QValid.
Inductive mode := Intersect | Included.

(** a stored MOC: depth and ranges in ITS OWN frame (u32 when depth <= 13, u64 otherwise) *)
Record sentry := { s_st : qstatus; s_id : N; s_depth : N; s_rng : list range }.

Definition is32 (e : sentry) : bool := s_depth e <=? 13.
(** denotation of a stored MOC in the 64-bit frame *)
Definition den (e : sentry) : list range := if is32 e then scale K (s_rng e) else s_rng e.

Definition selected (dep : bool) (e : sentry) : bool :=
  match s_st e with QValid => true | QDeprecated => dep | QRemoved => false end.

Definition test (m : mode) (S R : list range) : bool :=
  match m with Intersect => intersects S R | Included => contains S R end.

Definition matches (m : mode) (R : list range) (e : sentry) : bool :=
  if is32 e then test m (s_rng e) (region32 R) else test m (s_rng e) R.
Definition matches_floor (m : mode) (R : list range) (e : sentry) : bool :=
  if is32 e then test m (s_rng e) (narrow R) else test m (s_rng e) R.

Definition query (m : mode) (dep : bool) (R : list range) (ents : list sentry) : list N :=
  map s_id (filter (fun e => selected dep e && matches m R e) ents).

Definition matches_pos (x : N) (e : sentry) : bool :=
  if is32 e then contains_val (s_rng e) (x / 2 ^ K) else contains_val (s_rng e) x.
Definition query_pos (dep : bool) (x : N) (ents : list sentry) : list N :=
  map s_id (filter (fun e => selected dep e && matches_pos x e) ents).

(** union: the selected MOCs pushed into a 64-bit range builder of the requested depth *)
Definition union_of (d : N) (sel : list sentry) : list range :=
  build_ranges Hpx 64 d (flat_map den sel).
Definition union_query (m : mode) (dep : bool) (R : list range) (d : N) (ents : list sentry) : list range :=
  union_of d (filter (fun e => selected dep e && matches m R e) ents).
Definition union_pos (dep : bool) (x : N) (d : N) (ents : list sentry) : list range :=
  union_of d (filter (fun e => selected dep e && matches_pos x e) ents).
Definition union_ids (ids : list N) (d : N) (ents : list sentry) : list range :=
  union_of d (filter (fun e => existsb (N.eqb (s_id e)) ids &&
                               match s_st e with QRemoved => false | _ => true end) ents).

(** the property's semantic relation *)
Definition Sem (m : mode) (R : list range) (e : sentry) : Prop :=
  match m with
  | Intersect => exists x, cov R x /\ cov (den e) x
  | Included => forall x, cov R x -> cov (den e) x
  end.

(** well-formed stored entry *)
Definition WfEntry (e : sentry) : Prop :=
  if is32 e then ValidMoc Hpx 32 (s_depth e) (s_rng e) else ValidMoc Hpx 64 (s_depth e) (s_rng e).

(** ---------- narrowing an aligned canonical list is exact ---------- *)
Lemma Kpos : 0 < 2 ^ K. Proof. apply pow2_pos. Qed.

Lemma mult_div_mul x : mult2k K x -> x / 2 ^ K * 2 ^ K = x.
Proof.
  unfold mult2k. intros H. pose proof (N.div_mod x (2 ^ K) ltac:(pose proof Kpos; lia)). lia.
Qed.

Lemma narrow_cov D y : Aligned K D -> (cov (narrow D) y <-> cov D (y * 2 ^ K)).
Proof.
  intros HA. unfold Aligned, AllB in HA. rewrite Forall_forall in HA. pose proof Kpos as HP.
  unfold narrow, cov. split.
  - intros [r [Hin [H1 H2]]]. apply in_map_iff in Hin. destruct Hin as [[a b] [<- Hin]].
    destruct (HA _ Hin) as [Aa Ab]. cbn [fst snd] in *.
    exists (a, b). split; [exact Hin|]. unfold inr. cbn [fst snd].
    rewrite <- (mult_div_mul a Aa), <- (mult_div_mul b Ab). split; [nia|].
    apply N.mul_lt_mono_pos_r; assumption.
  - intros [[a b] [Hin [H1 H2]]]. destruct (HA _ Hin) as [Aa Ab]. cbn [fst snd] in *.
    exists (a / 2 ^ K, b / 2 ^ K). split; [apply in_map_iff; exists (a, b); split; [reflexivity|exact Hin]|].
    unfold inr. cbn [fst snd]. rewrite <- (mult_div_mul a Aa) in H1. rewrite <- (mult_div_mul b Ab) in H2.
    split; [nia|]. apply (N.mul_lt_mono_pos_r (2 ^ K)); assumption.
Qed.

Lemma narrow_chain D : forall lo, Aligned K D -> chain lo D -> chain (lo / 2 ^ K) (narrow D).
Proof.
  pose proof Kpos as HP.
  induction D as [|[a b] t IH]; intros lo HA Hc; [exact I|].
  inversion HA as [|? ? [Aa Ab] At]; subst. cbn [fst snd] in *.
  destruct Hc as (H1 & H2 & H3). cbn [narrow map fst snd chain]. repeat split.
  - apply N.div_lt_upper_bound; [lia|]. rewrite N.mul_comm, (mult_div_mul a Aa). exact H1.
  - apply (N.mul_lt_mono_pos_r (2 ^ K)); [exact HP|]. rewrite (mult_div_mul a Aa), (mult_div_mul b Ab). exact H2.
  - apply IH; assumption.
Qed.

Lemma narrow_canon D : Aligned K D -> Canon D -> Canon (narrow D).
Proof.
  pose proof Kpos as HP. destruct D as [|[a b] t]; intros HA Hc; [exact I|].
  inversion HA as [|? ? [Aa Ab] At]; subst. cbn [fst snd] in *.
  destruct Hc as (H1 & H2 & H3). unfold Canon. cbn [narrow map fst snd sorted_from]. repeat split.
  - apply N.le_0_l.
  - apply (N.mul_lt_mono_pos_r (2 ^ K)); [exact HP|]. rewrite (mult_div_mul a Aa), (mult_div_mul b Ab). exact H2.
  - apply narrow_chain; assumption.
Qed.

Lemma region32_canon R : Canon (region32 R).
Proof. apply narrow_canon; [apply degrade_aligned|apply degrade_canon]. Qed.

Lemma region32_cov R y : Canon R -> (cov (region32 R) y <-> exists x, cov R x /\ x / 2 ^ K = y).
Proof.
  intros HR. unfold region32. rewrite narrow_cov by apply degrade_aligned.
  rewrite degrade_cov by (apply canon_nonempty; exact HR).
  pose proof Kpos as HP. rewrite N.div_mul by lia. reflexivity.
Qed.

(** ---------- the query decides exactly the property's relation ---------- *)
Theorem matches_exact m R e : Canon R -> WfEntry e -> (matches m R e = true <-> Sem m R e).
Proof.
  intros HR HW. unfold matches, WfEntry, Sem, den in *. destruct (is32 e).
  - destruct HW as [_ [HS _] _]. pose proof (region32_canon R) as HC.
    destruct m; cbn [test].
    + rewrite (intersects_spec _ _ HS HC). split.
      * intros [y [Hy1 Hy2]]. apply region32_cov in Hy2; [|exact HR]. destruct Hy2 as [x [Hx <-]].
        exists x. split; [exact Hx|]. apply scale_cov. exact Hy1.
      * intros [x [Hx1 Hx2]]. apply scale_cov in Hx2. exists (x / 2 ^ K). split; [exact Hx2|].
        apply region32_cov; [exact HR|]. exists x. split; [exact Hx1|reflexivity].
    + rewrite (contains_spec _ _ HS HC). split.
      * intros H x Hx. apply scale_cov. apply H. apply region32_cov; [exact HR|]. exists x. split; [exact Hx|reflexivity].
      * intros H y Hy. apply region32_cov in Hy; [|exact HR]. destruct Hy as [x [Hx <-]].
        apply scale_cov. apply H. exact Hx.
  - destruct HW as [_ [HS _] _]. destruct m; cbn [test].
    + rewrite (intersects_spec _ _ HS HR). split; intros [x [H1 H2]]; exists x; tauto.
    + apply (contains_spec _ _ HS HR).
Qed.

Theorem matches_pos_exact x e : WfEntry e -> (matches_pos x e = true <-> cov (den e) x).
Proof.
  intros _. unfold matches_pos, den. destruct (is32 e).
  - rewrite contains_val_spec, scale_cov. reflexivity.
  - apply contains_val_spec.
Qed.

Theorem query_exact m dep R ents id : Canon R -> Forall WfEntry ents ->
  (In id (query m dep R ents) <->
   exists e, In e ents /\ s_id e = id /\ selected dep e = true /\ Sem m R e).
Proof.
  intros HR HW. rewrite Forall_forall in HW. unfold query. rewrite in_map_iff. split.
  - intros [e [<- Hin]]. apply filter_In in Hin. destruct Hin as [Hin Hb]. apply andb_true_iff in Hb.
    destruct Hb as [Hs Hm]. exists e. repeat split; try assumption. apply matches_exact; auto.
  - intros [e [Hin [<- [Hs Hm]]]]. exists e. split; [reflexivity|]. apply filter_In. split; [exact Hin|].
    apply andb_true_iff. split; [exact Hs|]. apply matches_exact; auto.
Qed.

Theorem query_pos_exact dep x ents id : Forall WfEntry ents ->
  (In id (query_pos dep x ents) <->
   exists e, In e ents /\ s_id e = id /\ selected dep e = true /\ cov (den e) x).
Proof.
  intros HW. rewrite Forall_forall in HW. unfold query_pos. rewrite in_map_iff. split.
  - intros [e [<- Hin]]. apply filter_In in Hin. destruct Hin as [Hin Hb]. apply andb_true_iff in Hb.
    destruct Hb as [Hs Hm]. exists e. repeat split; try assumption. apply matches_pos_exact; auto.
  - intros [e [Hin [<- [Hs Hm]]]]. exists e. split; [reflexivity|]. apply filter_In. split; [exact Hin|].
    apply andb_true_iff. split; [exact Hs|]. apply matches_pos_exact; auto.
Qed.

(** the answer does not depend on the order of evaluation of the entries (threads):
    it is the image of a per-entry predicate *)
Theorem query_permutation m dep R ents ents' id : Permutation.Permutation ents ents' ->
  (In id (query m dep R ents) <-> In id (query m dep R ents')).
Proof.
  intros HP. unfold query. rewrite !in_map_iff.
  split; intros [e [E Hin]]; exists e; (split; [exact E|]); apply filter_In in Hin; apply filter_In;
    (split; [|tauto]); [apply (Permutation.Permutation_in _ HP)|apply (Permutation.Permutation_in _ (Permutation.Permutation_sym HP))]; tauto.
Qed.

(** ---------- union ---------- *)
Lemma den_nonempty e : WfEntry e -> NonEmptyR (den e).
Proof.
  unfold WfEntry, den. destruct (is32 e); intros [_ [HC _] _].
  - apply canon_nonempty. apply scale_canon. exact HC.
  - apply canon_nonempty. exact HC.
Qed.

Lemma flat_map_nonempty sel : Forall WfEntry sel -> NonEmptyR (flat_map den sel).
Proof.
  induction sel as [|e t IH]; intros H; [constructor|]. inversion H; subst. cbn [flat_map].
  apply nonempty_app; [apply den_nonempty; assumption|apply IH; assumption].
Qed.

Lemma cov_flat_map sel x : cov (flat_map den sel) x <-> exists e, In e sel /\ cov (den e) x.
Proof.
  induction sel as [|e t IH]; cbn [flat_map].
  - split; [intros H; destruct (cov_nil _ H)|intros [e [[] _]]].
  - rewrite cov_app, IH. split.
    + intros [H|[e' [Hin H]]]; [exists e; split; [left; reflexivity|exact H]|exists e'; split; [right; exact Hin|exact H]].
    + intros [e' [[<-|Hin] H]]; [left; exact H|right; exists e'; split; assumption].
Qed.

(** the union covers exactly the depth-d cells meeting one of the selected MOCs *)
Theorem union_of_exact d sel x : Forall WfEntry sel ->
  (cov (union_of d sel) x <->
   exists e y, In e sel /\ cov (den e) y /\ y / 2 ^ shift Hpx 64 d = x / 2 ^ shift Hpx 64 d).
Proof.
  intros HW. unfold union_of. rewrite build_covers by (apply flat_map_nonempty; exact HW). split.
  - intros [y [Hy E]]. apply cov_flat_map in Hy. destruct Hy as [e [Hin Hc]]. exists e, y. tauto.
  - intros [e [y [Hin [Hc E]]]]. exists y. split; [|exact E]. apply cov_flat_map. exists e. tauto.
Qed.

Theorem union_query_exact m dep R d ents x : Canon R -> Forall WfEntry ents ->
  (cov (union_query m dep R d ents) x <->
   exists e y, In e ents /\ selected dep e = true /\ Sem m R e /\ cov (den e) y /\
               y / 2 ^ shift Hpx 64 d = x / 2 ^ shift Hpx 64 d).
Proof.
  intros HR HW. unfold union_query.
  assert (HW' : Forall WfEntry (filter (fun e => selected dep e && matches m R e) ents)).
  { rewrite Forall_forall in *. intros e He. apply filter_In in He. apply HW. tauto. }
  rewrite (union_of_exact d _ x HW'). rewrite Forall_forall in HW. split.
  - intros [e [y [Hin [Hc E]]]]. apply filter_In in Hin. destruct Hin as [Hin Hb].
    apply andb_true_iff in Hb. destruct Hb as [Hs Hm]. exists e, y. repeat split; try assumption.
    apply matches_exact; auto.
  - intros [e [y [Hin [Hs [Hm [Hc E]]]]]]. exists e, y. repeat split; try assumption.
    apply filter_In. split; [exact Hin|]. apply andb_true_iff. split; [exact Hs|]. apply matches_exact; auto.
Qed.

(** ---------- the unrepaired narrowing (floor of both bounds) is wrong: D18 ---------- *)
Definition d18_region : list range := [(21 * 2 ^ 30, 22 * 2 ^ 30)].          (* cell 14/21 *)
Definition d18_entry : sentry := {| s_st := QValid; s_id := 7; s_depth := 13; s_rng := [(5, 6)] |}.  (* cell 13/5 *)

Theorem matches_floor_refuted :
  Canon d18_region /\ WfEntry d18_entry /\ Sem Intersect d18_region d18_entry /\
  Sem Included d18_region d18_entry /\
  matches_floor Intersect d18_region d18_entry = false /\
  matches Intersect d18_region d18_entry = true /\ matches Included d18_region d18_entry = true.
Proof.
  assert (HC : Canon d18_region) by (apply canonb_spec; vm_compute; reflexivity).
  assert (HW : WfEntry d18_entry) by (apply valid_mocb_spec; vm_compute; reflexivity).
  assert (M0 : matches_floor Intersect d18_region d18_entry = false) by (vm_compute; reflexivity).
  assert (M1 : matches Intersect d18_region d18_entry = true) by (vm_compute; reflexivity).
  assert (M2 : matches Included d18_region d18_entry = true) by (vm_compute; reflexivity).
  split; [exact HC|]. split; [exact HW|].
  split; [apply (matches_exact Intersect _ _ HC HW); exact M1|].
  split; [apply (matches_exact Included _ _ HC HW); exact M2|].
  split; [exact M0|]. split; [exact M1|exact M2].
Qed.
