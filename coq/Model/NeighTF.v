(** Model/NeighTF.v — theorems about the Time / Frequency expansion and contraction of
    Model/Neigh.v: the neighbours of a depth-d cell are the previous and the next cell. *)
From Coq Require Import List NArith Lia Bool.
From MOC.Base Require Import RangeSet.
From MOC.Model Require Import Qty Query Build Neigh.
Import ListNotations.
Open Scope N_scope.

Section TF.
Variables (k ncm : N) (l : list range).
Let u := 2 ^ k.
Hypothesis Hc : Canon l.
Hypothesis Hb : Bounded ncm l.
Hypothesis Ha : Aligned k l.
Hypothesis Hn : mult2k k ncm.

Lemma u_pos : 0 < u. Proof. apply pow2_pos. Qed.

Lemma range_facts r : In r l ->
  fst r < snd r /\ snd r <= ncm /\ fst r + u <= snd r /\ (0 < fst r -> u <= fst r) /\ (snd r < ncm -> snd r + u <= ncm).
Proof.
  intros Hin. unfold Bounded in Hb. rewrite Forall_forall in Hb. unfold Aligned, AllB in Ha. rewrite Forall_forall in Ha.
  destruct (Ha _ Hin) as [A1 A2]. pose proof (Hb _ Hin) as B.
  pose proof (canon_in_nonempty l 0 r Hc Hin) as NE.
  repeat split; try assumption.
  - apply (mult_gap k _ _ A1 A2 NE).
  - intros H. pose proof (mult_gap k 0 (fst r) (mult2k_0 k) A1 H). lia.
  - intros H. apply (mult_gap k _ _ A2 Hn H).
Qed.

Definition fexp (r : range) : range :=
  (if 0 <? fst r then fst r - u else fst r, if snd r <? ncm then snd r + u else snd r).
Definition fcon (r : range) : range :=
  (if 0 <? fst r then fst r + u else fst r, if snd r <? ncm then snd r - u else snd r).

Lemma fexp_range r x : In r l ->
  (inr (fexp r) x <-> x < ncm /\ (inr r x \/ inr r (x + u) \/ (u <= x /\ inr r (x - u)))).
Proof.
  intros Hin. destruct (range_facts r Hin) as (F1 & F2 & F3 & F4 & F5). pose proof u_pos as UP.
  unfold fexp, inr. cbn [fst snd].
  destruct (N.ltb_spec 0 (fst r)) as [P|P]; destruct (N.ltb_spec (snd r) ncm) as [Q|Q];
    try specialize (F4 P); try specialize (F5 Q); lia.
Qed.

Theorem tf_expanded_exact x :
  cov (tf_expanded u ncm l) x <-> x < ncm /\ (cov l x \/ cov l (x + u) \/ (u <= x /\ cov l (x - u))).
Proof.
  unfold tf_expanded. rewrite canon_of_cov. unfold cov at 1. split.
  - intros [r' [Hin Hx]]. apply in_map_iff in Hin. destruct Hin as [r [<- Hin]].
    apply (fexp_range r x Hin) in Hx. destruct Hx as [H0 [H|[H|[H1 H]]]]; (split; [exact H0|]).
    + left. exists r. tauto.
    + right. left. exists r. tauto.
    + right. right. split; [exact H1|]. exists r. tauto.
  - intros [H0 [[r [Hin H]]|[[r [Hin H]]|[H1 [r [Hin H]]]]]]; exists (fexp r);
      (split; [apply in_map_iff; exists r; split; [reflexivity|exact Hin]|]); apply (fexp_range r x Hin); tauto.
Qed.

Lemma sep r r' : In r l -> In r' l -> r = r' \/ snd r + u <= fst r' \/ snd r' + u <= fst r.
Proof.
  intros H1 H2. destruct (canon_separated l 0 Hc r r' H1 H2) as [E|[E|E]]; [left; exact E| |].
  - right. left. unfold Aligned, AllB in Ha. rewrite Forall_forall in Ha.
    apply (mult_gap k _ _ (proj2 (Ha _ H1)) (proj1 (Ha _ H2)) E).
  - right. right. unfold Aligned, AllB in Ha. rewrite Forall_forall in Ha.
    apply (mult_gap k _ _ (proj2 (Ha _ H2)) (proj1 (Ha _ H1)) E).
Qed.

Theorem tf_contracted_exact x :
  cov (tf_contracted u ncm l) x <->
  cov l x /\ (x + u < ncm -> cov l (x + u)) /\ (u <= x -> cov l (x - u)).
Proof.
  pose proof u_pos as UP. unfold tf_contracted. rewrite cov_filter_nonempty. unfold cov at 1. split.
  - intros [r' [Hin Hx]]. apply in_map_iff in Hin. destruct Hin as [r [<- Hin]].
    destruct (range_facts r Hin) as (F1 & F2 & F3 & F4 & F5).
    unfold inr in Hx. cbn [fst snd] in Hx.
    assert (X : inr r x /\ (x + u < ncm -> inr r (x + u)) /\ (u <= x -> inr r (x - u))).
    { unfold inr. destruct (N.ltb_spec 0 (fst r)) as [P|P]; destruct (N.ltb_spec (snd r) ncm) as [Q|Q];
        try specialize (F4 P); try specialize (F5 Q); lia. }
    destruct X as (X1 & X2 & X3). split; [exists r; tauto|]. split; intros H; exists r; tauto.
  - intros [[r [Hin Hx]] [Hup Hdn]]. destruct (range_facts r Hin) as (F1 & F2 & F3 & F4 & F5).
    exists ((if 0 <? fst r then fst r + u else fst r), (if snd r <? ncm then snd r - u else snd r)).
    split; [apply in_map_iff; exists r; split; [reflexivity|exact Hin]|].
    unfold inr in *. cbn [fst snd]. split.
    + destruct (N.ltb_spec 0 (fst r)) as [P|P]; [|lia]. specialize (F4 P).
      destruct (N.le_gt_cases (fst r + u) x) as [L|L]; [exact L|exfalso].
      destruct (Hdn ltac:(lia)) as [r' [Hin' Hx']]. unfold inr in Hx'.
      destruct (range_facts r' Hin') as (G1 & G2 & G3 & G4 & G5).
      destruct (sep r r' Hin Hin') as [E|[E|E]]; [subst r'; lia|lia|lia].
    + destruct (N.ltb_spec (snd r) ncm) as [Q|Q]; [|lia]. specialize (F5 Q).
      destruct (N.le_gt_cases (snd r - u) x) as [L|L]; [exfalso|exact L].
      destruct (Hup ltac:(lia)) as [r' [Hin' Hx']]. unfold inr in Hx'.
      destruct (range_facts r' Hin') as (G1 & G2 & G3 & G4 & G5).
      destruct (sep r r' Hin Hin') as [E|[E|E]]; [subst r'; lia|lia|lia].
Qed.

(** contraction = complement of the expansion of the complement (the property's definition) *)
Theorem tf_contracted_is_dual x : x < ncm ->
  (cov (tf_contracted u ncm l) x <->
   ~ (~ cov l x \/ (x + u < ncm /\ ~ cov l (x + u)) \/ (u <= x /\ ~ cov l (x - u)))).
Proof.
  intros Hx. rewrite tf_contracted_exact.
  destruct (covb l x) eqn:E1; [apply covb_spec in E1|assert (N1 : ~ cov l x) by (rewrite <- covb_spec; congruence)];
  destruct (covb l (x + u)) eqn:E2; [apply covb_spec in E2| |apply covb_spec in E2|];
  try (assert (N2 : ~ cov l (x + u)) by (rewrite <- covb_spec; congruence));
  destruct (covb l (x - u)) eqn:E3; try (apply covb_spec in E3);
  try (assert (N3 : ~ cov l (x - u)) by (rewrite <- covb_spec; congruence)); tauto.
Qed.

End TF.

(** D08: the contraction of the code before the repair shrinks a range on the side where it
    touches the bound of the domain, where the complement has nothing to expand from *)
Theorem tf_contracted_d08_refuted :
  let l := [(0, 5)] in
  Canon l /\ Bounded 8 l /\ Aligned 0 l /\
  tf_contracted_d08 (2 ^ 0) l = [(1, 4)] /\ tf_contracted (2 ^ 0) 8 l = [(0, 4)] /\
  cov l 0 /\ cov l 1 /\ ~ cov (tf_contracted_d08 (2 ^ 0) l) 0.
Proof.
  cbv zeta. split; [apply canonb_spec; reflexivity|]. split; [apply boundedb_spec; reflexivity|].
  split; [apply alignedb_spec; reflexivity|]. split; [reflexivity|]. split; [reflexivity|].
  split; [apply covb_spec; reflexivity|]. split; [apply covb_spec; reflexivity|].
  rewrite <- covb_spec. vm_compute. discriminate.
Qed.
