(** Model/Neigh.v — expansion, contraction, borders, splitting, hole filling (C17).
    (S) Specification on the FLAT depth-d cell set of a space MOC, parametric in the
    neighbour function [nb] (Section); the HEALPix nested adjacency [nb8] / [nb4] is defined
    independently of cdshealpix from the (face, x, y) coordinates and the standard face
    tables (DESIGN 9.1) and is validated exhaustively against cdshealpix by the harness
    (assumption A-hpx).  Verified checkers for [split_into_joint_mocs] and [fill_holes].
    (F) Time / Frequency [expanded] / [contracted] as the code computes them on ranges. *)
From Coq Require Import List NArith ZArith Lia Bool.
From MOC.Base Require Import RangeSet.
From MOC.Model Require Import Qty Query Build.
Import ListNotations.
Open Scope N_scope.

(** ---------- flat cells of an aligned range list ---------- *)
Fixpoint nseq (a : N) (n : nat) : list N :=
  match n with O => [] | S n' => a :: nseq (a + 1) n' end.

Lemma in_nseq n : forall a x, In x (nseq a n) <-> a <= x < a + N.of_nat n.
Proof.
  induction n as [|n IH]; intros a x; cbn [nseq].
  - split; [intros []|lia].
  - cbn [In]. rewrite IH. lia.
Qed.

Definition cells_of (sh : N) (l : list range) : list N :=
  flat_map (fun r => nseq (fst r / 2 ^ sh) (N.to_nat (snd r / 2 ^ sh - fst r / 2 ^ sh))) l.

Lemma in_cells_of sh l c : Aligned sh l -> (In c (cells_of sh l) <-> cov l (c * 2 ^ sh)).
Proof.
  intros HA. unfold Aligned, AllB in HA. rewrite Forall_forall in HA.
  pose proof (pow2_pos sh) as HP. unfold cells_of. rewrite in_flat_map. unfold cov, inr.
  assert (DM : forall x, mult2k sh x -> x / 2 ^ sh * 2 ^ sh = x).
  { intros x Hx. unfold mult2k in Hx. pose proof (N.div_mod x (2 ^ sh) ltac:(lia)). lia. }
  split; intros [[a b] [Hin H]]; exists (a, b); (split; [exact Hin|]); destruct (HA _ Hin) as [Aa Ab];
    cbn [fst snd] in *.
  - apply in_nseq in H. rewrite <- (DM a Aa), <- (DM b Ab). nia.
  - apply in_nseq. rewrite <- (DM a Aa) in H. rewrite <- (DM b Ab) in H.
    assert (a / 2 ^ sh <= c) by nia. assert (c < b / 2 ^ sh) by nia. lia.
Qed.

Definition memb (c : N) (S : list N) : bool := existsb (N.eqb c) S.
Lemma memb_spec c S : memb c S = true <-> In c S.
Proof.
  unfold memb. rewrite existsb_exists. split.
  - intros [x [Hin E]]. apply N.eqb_eq in E. subst. exact Hin.
  - intros H. exists c. split; [exact H|apply N.eqb_refl].
Qed.
Lemma memb_false c S : memb c S = false <-> ~ In c S.
Proof. rewrite <- memb_spec. destruct (memb c S); split; congruence. Qed.

Definition subsetb (A B : list N) : bool := forallb (fun a => memb a B) A.
Lemma subsetb_spec A B : subsetb A B = true <-> (forall a, In a A -> In a B).
Proof. unfold subsetb. rewrite forallb_forall. split; intros H a Ha; apply memb_spec; auto; apply H; exact Ha. Qed.

Section Adj.
Variable nb : N -> list N.          (* neighbours of a depth-d cell, at depth d *)

(** ---------- expansion on flat sets, lifted to MOCs ---------- *)
Definition expand_cells (S : list N) : list N := S ++ flat_map nb S.

Lemma in_expand_cells S c : In c (expand_cells S) <-> In c S \/ exists c', In c' S /\ In c (nb c').
Proof. unfold expand_cells. rewrite in_app_iff, in_flat_map. reflexivity. Qed.

Definition cellin (sh : N) (l : list range) (c : N) : Prop := cov l (c * 2 ^ sh).

Definition expanded_spec (w d : N) (l : list range) : list range :=
  build_cells Hpx w d (expand_cells (cells_of (shift Hpx w d) l)).
Definition contracted_spec (w d : N) (l : list range) : list range :=
  compl (n_cells_max Hpx w) (expanded_spec w d (compl (n_cells_max Hpx w) l)).
Definition ext_border_spec (w d : N) (l : list range) : list range :=
  minus (n_cells_max Hpx w) (expanded_spec w d l) l.
Definition int_border_spec (w d : N) (l : list range) : list range :=
  minus (n_cells_max Hpx w) l (contracted_spec w d l).

(** the expanded MOC is M plus exactly the depth-d cells that are neighbours of a cell of M *)
Theorem expanded_exact w d l x : ValidMoc Hpx w d l ->
  (cov (expanded_spec w d l) x <->
   let c := x / 2 ^ shift Hpx w d in
   cellin (shift Hpx w d) l c \/ exists c', cellin (shift Hpx w d) l c' /\ In c (nb c')).
Proof.
  intros [_ _ HA]. unfold expanded_spec. rewrite build_cells_covers. cbv zeta. unfold cellin. split.
  - intros [c [Hin <-]]. apply in_expand_cells in Hin. destruct Hin as [H|[c' [H1 H2]]].
    + left. apply in_cells_of; assumption.
    + right. exists c'. split; [apply in_cells_of; assumption|exact H2].
  - intros H. exists (x / 2 ^ shift Hpx w d). split; [|reflexivity]. apply in_expand_cells.
    destruct H as [H|[c' [H1 H2]]].
    + left. apply in_cells_of; assumption.
    + right. exists c'. split; [apply in_cells_of; assumption|exact H2].
Qed.

(** ---------- connectivity: reachability inside a part ---------- *)
Inductive Reach (P : list N) (a : N) : N -> Prop :=
| reach_refl : In a P -> Reach P a a
| reach_step b c : Reach P a b -> In c (nb b) -> In c P -> Reach P a c.

Definition addnew (P acc : list N) (c : N) : list N :=
  if memb c P && negb (memb c acc) then acc ++ [c] else acc.
Definition step (P S : list N) : list N := fold_left (addnew P) (flat_map nb S) S.
Fixpoint iter (n : nat) (P S : list N) : list N :=
  match n with O => S | S n' => iter n' P (step P S) end.
Definition closedb (P S : list N) : bool :=
  forallb (fun c => forallb (fun n => negb (memb n P) || memb n S) (nb c)) S.

Inductive tri := Yes | No | Unknown.
Definition connectedb (P : list N) : tri :=
  match P with
  | [] => No
  | c0 :: _ =>
      let S := iter (length P) P [c0] in
      if closedb P S then (if subsetb P S then Yes else No) else Unknown
  end.

(** every cell of the part is reachable from its first cell *)
Definition Connected (P : list N) : Prop :=
  match P with [] => False | c0 :: _ => forall b, In b P -> Reach P c0 b end.

Lemma fold_addnew_inv P (Q : N -> Prop) cand : forall acc,
  (forall x, In x acc -> Q x) -> (forall c, In c cand -> In c P -> Q c) ->
  forall x, In x (fold_left (addnew P) cand acc) -> Q x.
Proof.
  induction cand as [|c t IH]; intros acc Hacc Hc x Hx; cbn [fold_left] in Hx; [auto|].
  apply (IH (addnew P acc c)); [| |exact Hx].
  - intros y Hy. unfold addnew in Hy. destruct (memb c P && negb (memb c acc)) eqn:E; [|auto].
    apply in_app_or in Hy. destruct Hy as [Hy|[<-|[]]]; [auto|].
    apply andb_true_iff in E. destruct E as [E _]. apply memb_spec in E. apply Hc; [left; reflexivity|exact E].
  - intros c' Hc' Hp. apply Hc; [right; exact Hc'|exact Hp].
Qed.

Lemma fold_addnew_incl P cand : forall acc x, In x acc -> In x (fold_left (addnew P) cand acc).
Proof.
  induction cand as [|c t IH]; intros acc x Hx; cbn [fold_left]; [exact Hx|].
  apply IH. unfold addnew. destruct (memb c P && negb (memb c acc)); [apply in_or_app; left|]; exact Hx.
Qed.

Lemma step_sound P a S : (forall x, In x S -> Reach P a x) -> forall x, In x (step P S) -> Reach P a x.
Proof.
  intros HS x Hx. unfold step in Hx. revert x Hx. apply fold_addnew_inv; [exact HS|].
  intros c Hc Hp. apply in_flat_map in Hc. destruct Hc as [b [Hb Hn]].
  eapply reach_step; [apply HS; exact Hb|exact Hn|exact Hp].
Qed.

Lemma iter_sound P a n : forall S, (forall x, In x S -> Reach P a x) ->
  forall x, In x (iter n P S) -> Reach P a x.
Proof.
  induction n as [|n IH]; intros S HS x Hx; cbn [iter] in Hx; [auto|].
  apply (IH (step P S)); [apply step_sound; exact HS|exact Hx].
Qed.

Lemma step_incl P S x : In x S -> In x (step P S).
Proof. intros H. unfold step. apply fold_addnew_incl. exact H. Qed.
Lemma iter_incl P n : forall S x, In x S -> In x (iter n P S).
Proof. induction n as [|n IH]; intros S x H; cbn [iter]; [exact H|]. apply IH. apply step_incl. exact H. Qed.

Lemma closed_complete P S a : closedb P S = true -> In a S -> forall b, Reach P a b -> In b S.
Proof.
  intros HC Ha b HR. induction HR as [_|b c _ IH Hn Hp]; [exact Ha|].
  unfold closedb in HC. rewrite forallb_forall in HC. specialize (HC b IH).
  rewrite forallb_forall in HC. specialize (HC c Hn). apply orb_true_iff in HC.
  destruct HC as [HC|HC]; [|apply memb_spec; exact HC].
  apply negb_true_iff in HC. apply memb_false in HC. contradiction.
Qed.

Theorem connectedb_yes P : connectedb P = Yes -> Connected P.
Proof.
  destruct P as [|c0 P']; [discriminate|]. unfold connectedb, Connected.
  set (P := c0 :: P'). set (S := iter (length P) P [c0]).
  destruct (closedb P S); [|discriminate]. destruct (subsetb P S) eqn:Hs; [|discriminate].
  intros _ b Hb. rewrite subsetb_spec in Hs. specialize (Hs b Hb).
  apply (iter_sound P c0 (length P) [c0]); [|exact Hs].
  intros x [<-|[]]. apply reach_refl. left. reflexivity.
Qed.

Theorem connectedb_no P : connectedb P = No -> ~ Connected P.
Proof.
  destruct P as [|c0 P']; [intros _ H; exact H|]. unfold connectedb, Connected.
  set (P := c0 :: P'). set (S := iter (length P) P [c0]).
  destruct (closedb P S) eqn:HC; [|discriminate]. destruct (subsetb P S) eqn:Hs; [discriminate|].
  intros _ H. assert (X : subsetb P S = true); [|congruence].
  apply subsetb_spec. intros b Hb. apply (closed_complete P S c0 HC); [|apply H; exact Hb].
  apply iter_incl. left. reflexivity.
Qed.

(** ---------- the split checker ---------- *)
Definition disjointb (A B : list N) : bool := forallb (fun a => negb (memb a B)) A.
Definition nonadjb (A B : list N) : bool :=
  forallb (fun a => forallb (fun n => negb (memb n B)) (nb a)) A.

Fixpoint pairwiseb (f : list N -> list N -> bool) (l : list (list N)) : bool :=
  match l with
  | [] => true
  | p :: t => forallb (fun p' => f p p' && f p' p) t && pairwiseb f t
  end.

Definition split_okb (M : list N) (parts : list (list N)) : tri :=
  if negb (forallb (fun p => match p with [] => false | _ => true end) parts) then No
  else if negb (forallb (fun p => subsetb p M) parts) then No
  else if negb (subsetb M (concat parts)) then No
  else if negb (pairwiseb disjointb parts) then No
  else if negb (pairwiseb nonadjb parts) then No
  else if existsb (fun p => match connectedb p with No => true | _ => false end) parts then No
  else if forallb (fun p => match connectedb p with Yes => true | _ => false end) parts then Yes
  else Unknown.

Fixpoint Pairwise (R : list N -> list N -> Prop) (l : list (list N)) : Prop :=
  match l with [] => True | p :: t => (forall p', In p' t -> R p p' /\ R p' p) /\ Pairwise R t end.

Definition Disjoint (A B : list N) : Prop := forall a, In a A -> ~ In a B.
Definition NonAdjacent (A B : list N) : Prop := forall a n, In a A -> In n (nb a) -> ~ In n B.

Record SplitOK (M : list N) (parts : list (list N)) : Prop :=
  { so_nonempty : forall p, In p parts -> p <> [];
    so_union : forall c, In c M <-> exists p, In p parts /\ In c p;
    so_disjoint : Pairwise Disjoint parts;
    so_nonadjacent : Pairwise NonAdjacent parts;
    so_connected : forall p, In p parts -> Connected p }.

Lemma disjointb_spec A B : disjointb A B = true <-> Disjoint A B.
Proof.
  unfold disjointb, Disjoint. rewrite forallb_forall. split; intros H a Ha.
  - apply memb_false. apply negb_true_iff. apply H. exact Ha.
  - apply negb_true_iff. apply memb_false. apply H. exact Ha.
Qed.
Lemma nonadjb_spec A B : nonadjb A B = true <-> NonAdjacent A B.
Proof.
  unfold nonadjb, NonAdjacent. rewrite forallb_forall. split.
  - intros H a n Ha Hn. specialize (H a Ha). rewrite forallb_forall in H.
    apply memb_false. apply negb_true_iff. apply H. exact Hn.
  - intros H a Ha. apply forallb_forall. intros n Hn. apply negb_true_iff. apply memb_false. apply (H a n Ha Hn).
Qed.
Lemma pairwiseb_spec f R l : (forall a b, f a b = true <-> R a b) ->
  (pairwiseb f l = true <-> Pairwise R l).
Proof.
  intros HfR. induction l as [|p t IH]; cbn [pairwiseb Pairwise]; [tauto|].
  rewrite andb_true_iff, forallb_forall, IH. split; intros [H1 H2]; (split; [|exact H2]); intros p' Hp'.
  - specialize (H1 p' Hp'). apply andb_true_iff in H1. rewrite <- !HfR. exact H1.
  - apply andb_true_iff. rewrite !HfR. apply H1. exact Hp'.
Qed.

Theorem split_okb_yes M parts : split_okb M parts = Yes -> SplitOK M parts.
Proof.
  unfold split_okb.
  destruct (forallb (fun p => match p with [] => false | _ => true end) parts) eqn:E1; cbn [negb]; [|discriminate].
  destruct (forallb (fun p => subsetb p M) parts) eqn:E2; cbn [negb]; [|discriminate].
  destruct (subsetb M (concat parts)) eqn:E3; cbn [negb]; [|discriminate].
  destruct (pairwiseb disjointb parts) eqn:E4; cbn [negb]; [|discriminate].
  destruct (pairwiseb nonadjb parts) eqn:E5; cbn [negb]; [|discriminate].
  destruct (existsb _ parts) eqn:E6; [discriminate|].
  destruct (forallb (fun p => match connectedb p with Yes => true | _ => false end) parts) eqn:E7; [|discriminate].
  intros _. rewrite forallb_forall in E1, E2, E7. rewrite subsetb_spec in E3. constructor.
  - intros p Hp E. specialize (E1 p Hp). rewrite E in E1. discriminate.
  - intros c. split.
    + intros Hc. specialize (E3 c Hc). apply in_concat in E3. destruct E3 as [p [Hp Hc']]. exists p. tauto.
    + intros [p [Hp Hc]]. specialize (E2 p Hp). rewrite subsetb_spec in E2. apply E2. exact Hc.
  - apply (pairwiseb_spec disjointb Disjoint); [apply disjointb_spec|exact E4].
  - apply (pairwiseb_spec nonadjb NonAdjacent); [apply nonadjb_spec|exact E5].
  - intros p Hp. specialize (E7 p Hp). apply connectedb_yes. destruct (connectedb p); try discriminate. reflexivity.
Qed.

Theorem split_okb_no M parts : split_okb M parts = No -> ~ SplitOK M parts.
Proof.
  unfold split_okb. intros H [S1 S2 S3 S4 S5].
  destruct (forallb (fun p => match p with [] => false | _ => true end) parts) eqn:E1; cbn [negb] in H.
  2:{ assert (X : forallb (fun p => match p with [] => false | _ => true end) parts = true); [|congruence].
      apply forallb_forall. intros p Hp. specialize (S1 p Hp). destruct p; [congruence|reflexivity]. }
  destruct (forallb (fun p => subsetb p M) parts) eqn:E2; cbn [negb] in H.
  2:{ assert (X : forallb (fun p => subsetb p M) parts = true); [|congruence].
      apply forallb_forall. intros p Hp. apply subsetb_spec. intros c Hc. apply S2. exists p. tauto. }
  destruct (subsetb M (concat parts)) eqn:E3; cbn [negb] in H.
  2:{ assert (X : subsetb M (concat parts) = true); [|congruence].
      apply subsetb_spec. intros c Hc. apply S2 in Hc. destruct Hc as [p [Hp Hc]]. apply in_concat. exists p. tauto. }
  destruct (pairwiseb disjointb parts) eqn:E4; cbn [negb] in H.
  2:{ assert (X : pairwiseb disjointb parts = true); [|congruence].
      apply (pairwiseb_spec disjointb Disjoint); [apply disjointb_spec|exact S3]. }
  destruct (pairwiseb nonadjb parts) eqn:E5; cbn [negb] in H.
  2:{ assert (X : pairwiseb nonadjb parts = true); [|congruence].
      apply (pairwiseb_spec nonadjb NonAdjacent); [apply nonadjb_spec|exact S4]. }
  destruct (existsb _ parts) eqn:E6.
  - apply existsb_exists in E6. destruct E6 as [p [Hp Hc]].
    destruct (connectedb p) eqn:Ec; try discriminate. apply (connectedb_no p Ec). apply S5. exact Hp.
  - destruct (forallb (fun p => match connectedb p with Yes => true | _ => false end) parts); discriminate.
Qed.

(** ---------- hole filling: the result only adds whole connected components of the complement ---------- *)
Definition fill_okb (M out : list N) : bool :=
  subsetb M out && forallb (fun c => memb c M || forallb (fun n => memb n out) (nb c)) out.

Definition FillOK (M out : list N) : Prop :=
  (forall c, In c M -> In c out) /\
  (forall c n, In c out -> ~ In c M -> In n (nb c) -> In n out).

Theorem fill_okb_spec M out : fill_okb M out = true <-> FillOK M out.
Proof.
  unfold fill_okb, FillOK. rewrite andb_true_iff, subsetb_spec, forallb_forall. split; intros [H1 H2]; (split; [exact H1|]).
  - intros c n Hc HnM Hn. specialize (H2 c Hc). apply orb_true_iff in H2. destruct H2 as [H2|H2].
    + apply memb_spec in H2. contradiction.
    + rewrite forallb_forall in H2. apply memb_spec. apply H2. exact Hn.
  - intros c Hc. apply orb_true_iff. destruct (memb c M) eqn:E; [left; reflexivity|right].
    apply forallb_forall. intros n Hn. apply memb_spec. apply (H2 c n Hc); [apply memb_false; exact E|exact Hn].
Qed.

(** path in the complement of M *)
Inductive ReachC (M : list N) (a : N) : N -> Prop :=
| rc_refl : ReachC M a a
| rc_step b c : ReachC M a b -> In c (nb b) -> ~ In c M -> ReachC M a c.

(** an added cell brings its whole connected component of the complement with it *)
Theorem fill_adds_whole_components M out : FillOK M out ->
  forall a b, In a out -> ~ In a M -> ReachC M a b -> In b out /\ ~ In b M.
Proof.
  intros [H1 H2] a b Ha HaM HR. induction HR as [|b c _ [IH1 IH2] Hn HcM]; [tauto|].
  split; [apply (H2 b c IH1 IH2 Hn)|exact HcM].
Qed.

End Adj.

(** ---------- HEALPix nested adjacency from (face, x, y) coordinates ---------- *)
Fixpoint deint (n : nat) (h : N) : N * N :=
  match n with
  | O => (0, 0)
  | S n' => let (x, y) := deint n' (h / 4) in (2 * x + h mod 2, 2 * y + (h / 2) mod 2)
  end.
Fixpoint inter (n : nat) (x y : N) : N :=
  match n with
  | O => 0
  | S n' => 4 * inter n' (x / 2) (y / 2) + 2 * (y mod 2) + x mod 2
  end.

Definition XOFF : list Z := [-1; -1; 0; 1; 1; 1; 0; -1]%Z.
Definition YOFF : list Z := [0; 1; 1; 1; 0; -1; -1; -1]%Z.
Definition FACE : list (list Z) :=
  [ [8; 9; 10; 11; -1; -1; -1; -1; 10; 11; 8; 9];
    [5; 6; 7; 4; 8; 9; 10; 11; 9; 10; 11; 8];
    [-1; -1; -1; -1; 5; 6; 7; 4; -1; -1; -1; -1];
    [4; 5; 6; 7; 11; 8; 9; 10; 11; 8; 9; 10];
    [0; 1; 2; 3; 4; 5; 6; 7; 8; 9; 10; 11];
    [1; 2; 3; 0; 0; 1; 2; 3; 5; 6; 7; 4];
    [-1; -1; -1; -1; 7; 4; 5; 6; -1; -1; -1; -1];
    [3; 0; 1; 2; 3; 0; 1; 2; 4; 5; 6; 7];
    [2; 3; 0; 1; -1; -1; -1; -1; 0; 1; 2; 3] ]%Z.
Definition SWAP : list (list N) :=
  [ [0; 0; 3]; [0; 0; 6]; [0; 0; 0]; [0; 0; 5]; [0; 0; 0]; [5; 0; 0]; [0; 0; 0]; [6; 0; 0]; [3; 0; 0] ].

(** neighbour of cell [h] (depth [d]) in direction [m] (0..7), if any *)
Definition neighbour (d : nat) (h : N) (m : nat) : option N :=
  let ns := (2 ^ Z.of_nat d)%Z in
  let face := h / 4 ^ N.of_nat d in
  let (x, y) := deint d (h mod 4 ^ N.of_nat d) in
  let x1 := (Z.of_N x + nth m XOFF 0)%Z in
  let y1 := (Z.of_N y + nth m YOFF 0)%Z in
  let '(x2, nbx) := if (x1 <? 0)%Z then ((x1 + ns)%Z, 3%nat) else if (x1 >=? ns)%Z then ((x1 - ns)%Z, 5%nat) else (x1, 4%nat) in
  let '(y2, nbn) := if (y1 <? 0)%Z then ((y1 + ns)%Z, (nbx - 3)%nat) else if (y1 >=? ns)%Z then ((y1 - ns)%Z, (nbx + 3)%nat) else (y1, nbx) in
  let f := nth (N.to_nat face) (nth nbn FACE []) (-1)%Z in
  if (f <? 0)%Z then None
  else
    let b := nth (N.to_nat (face / 4)) (nth nbn SWAP []) 0 in
    let x3 := if N.testbit b 0 then (ns - 1 - x2)%Z else x2 in
    let y3 := if N.testbit b 1 then (ns - 1 - y2)%Z else y2 in
    let '(x4, y4) := if N.testbit b 2 then (y3, x3) else (x3, y3) in
    Some (Z.to_N f * 4 ^ N.of_nat d + inter d (Z.to_N x4) (Z.to_N y4)).

Fixpoint dedup (l : list N) : list N :=
  match l with [] => [] | a :: t => if memb a t then dedup t else a :: dedup t end.

Definition nb_dirs (dirs : list nat) (d : nat) (h : N) : list N :=
  dedup (filter (fun n => negb (n =? h))
           (flat_map (fun m => match neighbour d h m with Some n => [n] | None => [] end) dirs)).
Definition nb8 (d : nat) (h : N) : list N := nb_dirs [0; 1; 2; 3; 4; 5; 6; 7]%nat d h.
Definition nb4 (d : nat) (h : N) : list N := nb_dirs [0; 2; 4; 6]%nat d h.

(** symmetry and range of the adjacency at the depths explored by the correspondence run
    (finite sweeps by computation) *)
Definition all_cells (d : nat) : list N := nseq 0 (N.to_nat (12 * 4 ^ N.of_nat d)).
Definition symb (nb : N -> list N) (cells : list N) : bool :=
  forallb (fun a => forallb (fun b => memb a (nb b) && memb b cells) (nb a)) cells.

Lemma nb8_symmetric_shallow : forall d, (d <= 3)%nat -> symb (nb8 d) (all_cells d) = true.
Proof. intros d Hd. do 4 (destruct d as [|d]; [vm_compute; reflexivity|]). lia. Qed.
Lemma nb4_symmetric_shallow : forall d, (d <= 3)%nat -> symb (nb4 d) (all_cells d) = true.
Proof. intros d Hd. do 4 (destruct d as [|d]; [vm_compute; reflexivity|]). lia. Qed.

(** ---------- Time / Frequency: expansion and contraction on ranges, as the code does ---------- *)
Definition tf_expanded (u ncm : N) (l : list range) : list range :=
  canon_of (map (fun r => (if 0 <? fst r then fst r - u else fst r,
                           if snd r <? ncm then snd r + u else snd r)) l).
Definition tf_contracted (u ncm : N) (l : list range) : list range :=
  filter (fun r => fst r <? snd r)
    (map (fun r => (if 0 <? fst r then fst r + u else fst r,
                    if snd r <? ncm then snd r - u else snd r)) l).
(** the code before the repair (D08): both sides are shrunk even at the domain bounds *)
Definition tf_contracted_d08 (u : N) (l : list range) : list range :=
  flat_map (fun r => if 2 * u <? snd r - fst r then [(fst r + u, snd r - u)] else []) l.
