(** Model/LazyUnary.v — (F) the streaming complement and degradation of
    src/moc/range/op/{not,degrade}.rs as state machines over a sorted stream.
    NotRangeIter: state = (pending range [curr], [start] of the next gap, remaining input);
    [::new] inspects the first one or two ranges; [next] returns the pending range and
    computes the following gap; [size_hint] = (lower + cur, Some(upper + cur + 1)).
    DegradeRangeIter: the pending range absorbs the following degraded ranges while they
    overlap or touch it ([cr.end = nr.end]).
    Theorems: on valid operands both yield exactly the specification ([compl], [degrade]);
    the size hint of the complement is sound at every state (and the inverted [cur] of the code
    before the repair, D02, is refuted). *)
From Coq Require Import List NArith Arith Lia Bool.
From MOC.Base Require Import RangeSet.
From MOC.Model Require Import LazyOps.
Import ListNotations.
Open Scope N_scope.

(** ---------- not ---------- *)
(** everything the iterator yields from the state (curr, start, rest) *)
Fixpoint not_run (ncm : N) (curr : option range) (start : N) (rest : list range) : list range :=
  match curr with
  | None => []
  | Some c =>
      c :: match rest with
           | r :: t => not_run ncm (Some (start, fst r)) (snd r) t
           | [] => if start =? ncm then [] else [(start, ncm)]
           end
  end.

Definition not_new (ncm : N) (l : list range) : list range :=
  match l with
  | [] => not_run ncm (Some (0, ncm)) ncm []
  | r :: t =>
      if fst r =? 0 then
        if snd r =? ncm then []
        else match t with
             | r2 :: t2 => not_run ncm (Some (snd r, fst r2)) (snd r2) t2
             | [] => not_run ncm (Some (snd r, ncm)) ncm []
             end
      else not_run ncm (Some (0, fst r)) (snd r) t
  end.

(** from a state whose pending range ends before [start], the rest is the complement from [start] *)
Lemma not_run_compl ncm : forall rest c start, chain start rest -> Bounded ncm rest -> start <= ncm ->
  not_run ncm (Some c) start rest = c :: compl_from start ncm rest.
Proof.
  induction rest as [|[a b] t IH]; intros c start Hc Hb Hs; cbn [not_run compl_from].
  - destruct (N.eqb_spec start ncm) as [->|Hne]; [rewrite N.ltb_irrefl; reflexivity|].
    destruct (N.ltb_spec start ncm); [reflexivity|lia].
  - cbn [chain fst snd] in Hc. destruct Hc as (H1 & H2 & H3). inversion Hb as [|? ? Hab Hb']; subst. cbn [snd] in Hab.
    destruct (N.ltb_spec start a); [|lia]. cbn [fst snd]. f_equal. apply IH; [exact H3|exact Hb'|lia].
Qed.

Theorem not_new_eq_spec ncm l : Valid ncm l -> 0 < ncm -> not_new ncm l = compl ncm l.
Proof.
  intros [Hc Hb] Hn. unfold not_new, compl. destruct l as [|[a b] t].
  - cbn [not_run compl_from]. rewrite N.eqb_refl. destruct (N.ltb_spec 0 ncm); [reflexivity|lia].
  - cbn [Canon sorted_from fst snd] in Hc. destruct Hc as (_ & H2 & H3). inversion Hb as [|? ? Hab Hb']; subst. cbn [snd] in Hab.
    cbn [fst snd compl_from]. destruct (N.eqb_spec a 0) as [->|Ha].
    + rewrite N.ltb_irrefl. destruct (N.eqb_spec b ncm) as [->|Hbn].
      * (* the whole domain: nothing can follow *)
        destruct t as [|[a2 b2] t2]; [cbn; rewrite N.ltb_irrefl; reflexivity|].
        exfalso. cbn [chain fst snd] in H3. inversion Hb' as [|? ? Hab2 _]; subst. cbn in Hab2. lia.
      * destruct t as [|[a2 b2] t2].
        -- cbn [not_run compl_from]. rewrite N.eqb_refl. destruct (N.ltb_spec b ncm); [reflexivity|lia].
        -- cbn [chain fst snd] in H3. destruct H3 as (K1 & K2 & K3). inversion Hb' as [|? ? Hab2 Hb2]; subst. cbn [snd] in Hab2.
           cbn [compl_from fst snd]. destruct (N.ltb_spec b a2); [|lia].
           apply not_run_compl; [exact K3|exact Hb2|lia].
    + destruct (N.ltb_spec 0 a); [|lia]. apply not_run_compl; [exact H3|exact Hb'|lia].
Qed.

(** size hint at a state: with [n] = number of ranges not yet pulled from the source and
    [cur] = 1 when a range is pending, the code advertises (n + cur, Some(n + cur + 1)) *)
Definition not_hint (curr : option range) (rest : list range) : nat * nat :=
  let cur := match curr with Some _ => 1%nat | None => 0%nat end in
  ((length rest + cur)%nat, (length rest + cur + 1)%nat).

Theorem not_size_hint_sound ncm : forall rest curr start,
  (curr = None -> rest = []) ->                          (* the iterator is finished when nothing is pending *)
  (fst (not_hint curr rest) <= length (not_run ncm curr start rest) <= snd (not_hint curr rest))%nat.
Proof.
  intros rest curr start Hfin. destruct curr as [c|]; [|rewrite (Hfin eq_refl); cbn; lia].
  clear Hfin. revert c start. induction rest as [|r t IH]; intros c start; unfold not_hint; cbv zeta; cbn [not_run length fst snd].
  - destruct (start =? ncm); cbn [length]; lia.
  - specialize (IH (start, fst r) (snd r)). unfold not_hint in IH. cbv zeta in IH. cbn [fst snd length] in IH.
    unfold range in *. destruct IH as [I1 I2]. split; [apply le_n_S in I1|apply le_n_S in I2]; lia.
Qed.

(** D02: the hint of the code before the repair counted the pending range when there was NONE
    and forgot it when there was one: not([5..10]) advertised an upper bound of 1 and yielded 2 *)
Lemma not_hint_d02_refuted :
  let ncm := 16 in let l := [(5, 10)] in
  not_new ncm l = [(0, 5); (10, 16)] /\
  (* state after ::new : pending (0,5), nothing left in the source; inverted cur = 0 *)
  length (not_run ncm (Some (0, 5)) 10 []) = 2%nat /\ (0 + 0 + 1 = 1)%nat.
Proof. repeat split; reflexivity. Qed.

(** ---------- degrade ---------- *)
Definition degr (sh : N) (r : range) : range := (down sh (fst r), up sh (snd r)).

Fixpoint deg_s (sh : N) (cur : range) (l : list range) : list range :=
  match l with
  | [] => [cur]
  | r :: t => let nr := degr sh r in
              if snd cur <? fst nr then cur :: deg_s sh nr t
              else deg_s sh (fst cur, snd nr) t                  (* cr.end = nr.end *)
  end.
Definition deg_new (sh : N) (l : list range) : list range :=
  match l with [] => [] | r :: t => deg_s sh (degr sh r) t end.

Lemma down_mono k a b : a <= b -> down k a <= down k b.
Proof. intros H. unfold down. pose proof (pow2_pos k). apply N.mul_le_mono_r. apply N.div_le_mono; lia. Qed.
Lemma up_mono k a b : a <= b -> up k a <= up k b.
Proof. intros H. unfold up. pose proof (pow2_pos k). apply N.mul_le_mono_r. apply N.div_le_mono; lia. Qed.
Lemma down_of_mult k m x : mult2k k m -> m <= x -> m <= down k x.
Proof.
  intros Hm Hx. destruct (down_spec k x) as (D1 & D2 & D3).
  destruct (N.le_gt_cases m (down k x)) as [L|L]; [exact L|exfalso].
  pose proof (mult_gap k _ _ D3 Hm L). lia.
Qed.

Lemma deg_s_spec sh : forall l cur ec,
  fst cur < snd cur -> mult2k sh (fst cur) -> fst cur <= ec -> snd cur = up sh ec -> chain ec l ->
  sorted_from (fst cur) (deg_s sh cur l) /\
  forall x, cov (deg_s sh cur l) x <-> inr cur x \/ cov (map (degr sh) l) x.
Proof.
  induction l as [|[s e] t IH]; intros cur ec Hc Hm Hle He Hch; cbn [deg_s map].
  - split; [cbn; repeat split; [lia|exact Hc]|]. intros x. rewrite cov_cons.
    split; [intros [H|H]; [left; exact H|destruct (cov_nil _ H)]|intros [H|H]; [left; exact H|destruct (cov_nil _ H)]].
  - cbn [chain fst snd] in Hch. destruct Hch as (H1 & H2 & H3).
    cbv zeta. change (degr sh (s, e)) with (down sh s, up sh e). cbn [fst snd].
    destruct (down_spec sh s) as (D1 & D2 & D3). destruct (up_spec sh e) as (U1 & U2 & U3).
    assert (Hne : down sh s < up sh e) by lia.
    assert (Hge : fst cur <= down sh s) by (apply down_of_mult; [exact Hm|lia]).
    assert (Hup : snd cur <= up sh e) by (rewrite He; apply up_mono; lia).
    destruct (N.ltb_spec (snd cur) (down sh s)) as [C|C].
    + destruct (IH (down sh s, up sh e) e) as [S Cv]; cbn [fst snd]; try assumption; try reflexivity; [lia|].
      cbn [fst snd] in S. split.
      * cbn [sorted_from]. split; [lia|]. split; [exact Hc|]. apply chain_sorted_succ. apply (sorted_from_weaken _ (down sh s)); [lia|exact S].
      * intros x. rewrite !cov_cons, Cv. unfold degr. cbn [fst snd]. tauto.
    + destruct (IH (fst cur, up sh e) e) as [S Cv]; cbn [fst snd]; try assumption; try reflexivity; [lia|lia|].
      cbn [fst snd] in S. split; [exact S|].
      intros x. rewrite Cv, cov_cons. unfold inr, degr. cbn [fst snd]. split.
      * intros [H|H]; [|tauto]. destruct (N.lt_ge_cases x (snd cur)) as [L|L]; [left; lia|right; left; lia].
      * intros [H|[H|H]]; [left; lia|left; lia|right; exact H].
Qed.

Theorem deg_new_eq_spec sh l : Canon l -> deg_new sh l = degrade sh l.
Proof.
  intros Hc. unfold deg_new. destruct l as [|[s e] t].
  - reflexivity.
  - cbn [Canon sorted_from fst snd] in Hc. destruct Hc as (_ & H2 & H3).
    destruct (down_spec sh s) as (D1 & D2 & D3). destruct (up_spec sh e) as (U1 & U2 & U3).
    destruct (deg_s_spec sh t (degr sh (s, e)) e) as [S Cv]; unfold degr; cbn [fst snd]; try assumption; try reflexivity; [lia|lia|].
    apply canon_unique; [apply (sorted_from_weaken _ (down sh s)); [lia|exact S]|apply degrade_canon|].
    intros x. unfold degrade. rewrite canon_of_cov. fold (degr sh). rewrite Cv. cbn [map]. rewrite cov_cons. unfold degr at 1. cbn [fst snd]. reflexivity.
Qed.
