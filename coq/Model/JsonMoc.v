(** Model/JsonMoc.v — the JSON chain for a MOC: cells (normal form, C05) -> to_json_aladin ->
    serde_json subset parser -> from_json_aladin_internal -> ranges() gives back the depth and the
    ranges of every valid MOC, for every fold width and every white-space prefix. *)
From Coq Require Import List NArith Arith Lia Bool Permutation Sorted.
From MOC.Base Require Import RangeSet.
From MOC.Model Require Import Qty Query Build Repr Adapters AsciiCodec AsciiProofs AsciiMoc JsonCodec JsonProofs.
Import ListNotations.
Open Scope N_scope.

Lemma erange_of_cell q w c : erange q w (of_cell c) = crange q w c.
Proof. reflexivity. Qed.

Lemma eranges_of_cells q w cells : map (erange q w) (map of_cell cells) = map (crange q w) cells.
Proof. rewrite map_map. apply map_ext. intros c. apply erange_of_cell. Qed.

Section JsonMocRoundTrip.
  Variable sortf : qty -> list aelem -> list aelem.
  Hypothesis sortf_perm : forall q l, Permutation (sortf q l) l.
  Hypothesis sortf_sorted : forall q l, Sorted (fun a b => flat_leb q a b = true) (sortf q l).

  Theorem json_cells_roundtrip q w d l cells fold prefix :
    okw w -> allws prefix -> d <= max_depth q w -> Canon l -> NormalCells q w d l cells ->
    exists l', from_json sortf q w (to_json d fold prefix cells) = JRRes (AOk (d, l')) /\
               ranges_of_elems q w l' = l.
  Proof.
    intros Hw Hp Hd Hc [N1 N2 N3 _].
    set (es := map of_cell cells).
    assert (Hasc : asc 0 (map (erange q w) es)) by (unfold es; rewrite eranges_of_cells; exact N2).
    assert (Hwf : Forall (elem_wf q d) es).
    { unfold es. rewrite Forall_map. eapply Forall_impl; [|exact N1]. intros c [H1 H2]. split; [exact H1|exact H2]. }
    pose proof (asc_disj q w es 0 Hasc) as Hdis.
    pose proof (json_roundtrip sortf sortf_perm q w d fold prefix cells Hw Hp Hd Hwf Hdis) as RT. fold es in RT.
    set (l' := sortf q (regroup d es)) in *.
    assert (Hperm : Permutation l' es).
    { eapply Permutation_trans; [apply sortf_perm|apply regroup_perm].
      eapply Forall_impl; [|exact Hwf]. intros x [Hx _]. exact Hx. }
    exists l'. split; [exact RT|].
    assert (S3 : asc 0 (map (erange q w) l')).
    { apply sorted_adj_asc.
      - apply Forall_forall. intros x Hx. rewrite Forall_forall in Hwf.
        destruct (Hwf x (Permutation_in _ Hperm Hx)) as [H1 H2]. split; [lia|exact H2].
      - apply sortf_sorted.
      - apply Disj_adj. apply (Disj_perm q w es); [apply Permutation_sym; exact Hperm|exact Hdis].
      - destruct l'; [exact I|lia]. }
    destruct (ranges_of_elems_spec q w _ S3) as [C1 C2].
    apply canon_unique; [exact C1|exact Hc|].
    intros x. rewrite C2, <- N3, <- eranges_of_cells. fold es.
    apply cov_perm. apply Permutation_map. exact Hperm.
  Qed.
End JsonMocRoundTrip.
