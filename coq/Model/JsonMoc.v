(** Model/JsonMoc.v — the JSON chain for a MOC: cells (normal form, C05) -> to_json_aladin ->
    serde_json subset parser -> from_json_aladin_internal -> ranges() gives back the depth and the
    ranges of every valid MOC, for every fold width and every white-space prefix. *)
From Coq Require Import List NArith Arith Lia Bool Permutation Sorted.
From MOC.Base Require Import RangeSet.
From MOC.Model Require Import Qty Query Build Repr Adapters AsciiCodec AsciiProofs AsciiMoc JsonCodec JsonProofs.
Import ListNotations.
Open Scope N_scope.

Lemma erange_of_cell q w c : erange q w (of_cell c) = crange q w c.
Proof. reflexivity. Qed.

Lemma eranges_of_cells q w cells : map (erange q w) (map of_cell cells) = map (crange q w) cells.
Proof. rewrite map_map. apply map_ext. intros c. apply erange_of_cell. Qed.

Section JsonMocRoundTrip.
  Variable sortf : qty -> list aelem -> list aelem.
  Hypothesis sortf_perm : forall q l, Permutation (sortf q l) l.
  Hypothesis sortf_sorted : forall q l, Sorted (fun a b => flat_leb q a b = true) (sortf q l).

  Theorem json_cells_roundtrip q w d l cells fold prefix :
    okw w -> allws prefix -> d <= max_depth q w -> Canon l -> NormalCells q w d l cells ->
    exists l', from_json sortf q w (to_json d fold prefix cells) = JRRes (AOk (d, l')) /\
               ranges_of_elems q w l' = l.
  Proof.
    intros Hw Hp Hd Hc [N1 N2 N3 _].
    set (es := map of_cell cells).
    assert (Hasc : asc 0 (map (erange q w) es)) by (unfold es; rewrite eranges_of_cells; exact N2).
    assert (Hwf : Forall (elem_wf q d) es).
    { unfold es. rewrite Forall_map. eapply Forall_impl; [|exact N1]. intros c [H1 H2]. split; [exact H1|exact H2]. }
    pose proof (asc_disj q w es 0 Hasc) as Hdis.
    pose proof (json_roundtrip sortf sortf_perm q w d fold prefix cells Hw Hp Hd Hwf Hdis) as RT. fold es in RT.
    set (l' := sortf q (regroup d es)) in *.
    assert (Hperm : Permutation l' es).
    { eapply Permutation_trans; [apply sortf_perm|apply regroup_perm].
      eapply Forall_impl; [|exact Hwf]. intros x [Hx _]. exact Hx. }
    exists l'. split; [exact RT|].
    assert (S3 : asc 0 (map (erange q w) l')).
    { apply sorted_adj_asc.
      - apply Forall_forall. intros x Hx. rewrite Forall_forall in Hwf.
        destruct (Hwf x (Permutation_in _ Hperm Hx)) as [H1 H2]. split; [lia|exact H2].
      - apply sortf_sorted.
      - apply Disj_adj. apply (Disj_perm q w es); [apply Permutation_sym; exact Hperm|exact Hdis].
      - destruct l'; [exact I|lia]. }
    destruct (ranges_of_elems_spec q w _ S3) as [C1 C2].
    apply canon_unique; [exact C1|exact Hc|].
    intros x. rewrite C2, <- N3, <- eranges_of_cells. fold es.
    apply cov_perm. apply Permutation_map. exact Hperm.
  Qed.
End JsonMocRoundTrip.

(** ---------- whatever the characters read, an accepted JSON document is a valid cell list ---------- *)
Section JsonSound.
  Variable sortf : qty -> list aelem -> list aelem.
  Hypothesis sortf_perm : forall q l, Permutation (sortf q l) l.
  Hypothesis sortf_sorted : forall q l, Sorted (fun a b => flat_leb q a b = true) (sortf q l).
  Variable q : qty.
  Variable w : N.

  Definition jwf (x : aelem) : Prop := adepth x <= max_depth q w /\ elem_ok q x.

  Lemma jcells_sound m : forall ds dm l_acc dm' l',
    jcells q m ds dm l_acc = AOk (dm', l') ->
    dm <= max_depth q w -> Forall (fun d => d <= max_depth q w) ds ->
    Forall (fun x => jwf x /\ adepth x <= dm) l_acc ->
    dm' <= max_depth q w /\ Forall (fun x => jwf x /\ adepth x <= dm') l'.
  Proof.
    induction ds as [|d ds IH]; intros dm l_acc dm' l' H Hdm Hds Hacc.
    - cbn [jcells] in H. inversion H; subst. split; assumption.
    - inversion Hds as [|? ? Hd Hds']; subst. cbn [jcells] in H.
      destruct (jlookup (adec d) m) as [[n|s|l|l]|]; try (apply (IH _ _ _ _ H Hdm Hds' Hacc)).
      destruct (forallb (fun v => v <? n_cells q d) (nums_of l)) eqn:E; [|discriminate].
      apply (IH _ _ _ _ H); [lia|exact Hds'|].
      apply Forall_app. split.
      + eapply Forall_impl; [|exact Hacc]. intros x [Hx1 Hx2]. split; [exact Hx1|lia].
      + rewrite Forall_map. apply Forall_forall. intros v Hv.
        rewrite forallb_forall in E. specialize (E v Hv). apply N.ltb_lt in E.
        split; [split; [exact Hd|exact E]|cbn [adepth]; lia].
  Qed.

  Lemma json_value_sound v dm l : json_value_1d sortf q w v = AOk (dm, l) ->
    dm <= max_depth q w /\ Forall (elem_wf q dm) l /\ asc 0 (map (erange q w) l).
  Proof.
    unfold json_value_1d. destruct v as [n|st|a|m]; try discriminate.
    destruct (jcells q m (anseq 0 (S (N.to_nat (max_depth q w)))) 0 []) as [[dm0 l0]|e] eqn:C; [|discriminate].
    destruct (adj_ok q w (sortf q l0)) eqn:A; [|discriminate].
    intros H. inversion H; subst; clear H.
    destruct (jcells_sound m _ _ _ _ _ C (N.le_0_l _)) as [H1 H2].
    { apply Forall_forall. intros d Hd. apply nseq_in in Hd. lia. }
    { constructor. }
    assert (H3 : Forall (fun x => jwf x /\ adepth x <= dm) (sortf q l0)).
    { apply Forall_forall. intros x Hx. rewrite Forall_forall in H2. apply H2.
      eapply Permutation_in; [apply sortf_perm|exact Hx]. }
    split; [exact H1|]. split.
    - eapply Forall_impl; [|exact H3]. intros x [[_ Hx2] Hx3]. split; assumption.
    - apply sorted_adj_asc; [|apply sortf_sorted|exact A|].
      + eapply Forall_impl; [|exact H3]. intros x [Hx _]. exact Hx.
      + destruct (sortf q l0); [exact I|lia].
  Qed.

  Theorem json_reader_sound s dm l : from_json sortf q w s = JRRes (AOk (dm, l)) ->
    dm <= max_depth q w /\ Forall (elem_wf q dm) l /\ asc 0 (map (erange q w) l).
  Proof.
    unfold from_json. destruct (jparse s) as [| |v]; try discriminate.
    intros H. inversion H as [H']. exact (json_value_sound v dm l H').
  Qed.
End JsonSound.

(** the 2-D reader: every element of an accepted document has two valid, non-empty sides of depth <= the
    returned depths <= MAX_DEPTH *)
Section JsonSound2.
  Variable sortf : qty -> list aelem -> list aelem.
  Hypothesis sortf_perm : forall q l, Permutation (sortf q l) l.
  Hypothesis sortf_sorted : forall q l, Sorted (fun a b => flat_leb q a b = true) (sortf q l).
  Variables (q1 : qty) (w1 : N) (q2 : qty) (w2 : N) (p1 p2 : N).

  Definition side_ok (q : qty) (w d : N) (l : list aelem) : Prop :=
    l <> [] /\ Forall (elem_wf q d) l /\ asc 0 (map (erange q w) l).
  Definition st_elem_ok (d1 d2 : N) (e : st_elem) : Prop := side_ok q1 w1 d1 (fst e) /\ side_ok q2 w2 d2 (snd e).

  Lemma elem_wf_mono q d d' x : d <= d' -> elem_wf q d x -> elem_wf q d' x.
  Proof. intros H [A B]. split; [lia|exact B]. Qed.

  Lemma j2loop_sound : forall es d1 d2 l_acc d1' d2' l,
    j2loop sortf q1 w1 q2 w2 p1 p2 es d1 d2 l_acc = J2Ok d1' d2' l ->
    d1 <= max_depth q1 w1 -> d2 <= max_depth q2 w2 -> Forall (st_elem_ok d1 d2) l_acc ->
    d1' <= max_depth q1 w1 /\ d2' <= max_depth q2 w2 /\ Forall (st_elem_ok d1' d2') l.
  Proof.
    induction es as [|v es IH]; intros d1 d2 l_acc d1' d2' l H Hd1 Hd2 Hacc.
    - cbn [j2loop] in H. inversion H; subst. auto.
    - cbn [j2loop] in H. destruct v as [n|s|a|m]; try discriminate.
      destruct (jlookup [p1] m) as [a|]; [|discriminate]. destruct (jlookup [p2] m) as [b|]; [|discriminate].
      destruct (json_value_1d sortf q1 w1 a) as [[dl el]|e1] eqn:E1; [|discriminate].
      destruct (json_value_1d sortf q2 w2 b) as [[dr er]|e2] eqn:E2; [|discriminate].
      destruct (json_value_sound sortf sortf_perm sortf_sorted q1 w1 a dl el E1) as [A1 [A2 A3]].
      destruct (json_value_sound sortf sortf_perm sortf_sorted q2 w2 b dr er E2) as [B1 [B2 B3]].
      apply (IH _ _ _ _ _ _ H); [lia|lia|].
      assert (Hmono : Forall (st_elem_ok (N.max d1 dl) (N.max d2 dr)) l_acc).
      { eapply Forall_impl; [|exact Hacc]. intros e [[X1 [X2 X3]] [Y1 [Y2 Y3]]].
        split; (split; [assumption|split; [|assumption]]).
        - eapply Forall_impl; [|exact X2]. intros x. apply elem_wf_mono. lia.
        - eapply Forall_impl; [|exact Y2]. intros x. apply elem_wf_mono. lia. }
      destruct el as [|x1 r1]; [exact Hmono|]. destruct er as [|x2 r2]; [exact Hmono|].
      apply Forall_app. split; [exact Hmono|]. constructor; [|constructor].
      split; cbn [fst snd]; (split; [discriminate|split; [|assumption]]).
      + eapply Forall_impl; [|exact A2]. intros x. apply elem_wf_mono. lia.
      + eapply Forall_impl; [|exact B2]. intros x. apply elem_wf_mono. lia.
  Qed.

  Theorem st_json_reader_sound s d1 d2 l : st_from_json sortf q1 w1 q2 w2 p1 p2 s = J2Ok d1 d2 l ->
    d1 <= max_depth q1 w1 /\ d2 <= max_depth q2 w2 /\ Forall (st_elem_ok d1 d2) l.
  Proof.
    unfold st_from_json. destruct (jparse s) as [| |v]; try discriminate.
    destruct v as [n|st|es|m]; try discriminate.
    intros H. apply (j2loop_sound _ _ _ _ _ _ _ H); [apply N.le_0_l|apply N.le_0_l|constructor].
  Qed.
End JsonSound2.
