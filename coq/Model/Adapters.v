(** Model/Adapters.v — (F) the representation adapters of src/moc/adapters.rs:
      CellOrCellRangeMOCIteratorFromCells: consecutive cells of the SAME depth with consecutive indices
        are gathered into a cell range (depth, first, first + n) — a single cell when n = 1;
      the inverse (a cell range expands into its cells);
      RangeMOCIteratorFromCells: the ranges of consecutive cells are fused while they touch
        (curr.end == next.start).
    Theorems: expanding the cell ranges gives back exactly the cell list (for ANY cell list); the
    fused ranges of a cell list whose ranges are ascending / disjoint (touching allowed) form the
    canonical list of the union. *)
From Coq Require Import List NArith Arith Lia Bool.
From MOC.Base Require Import RangeSet.
From MOC.Model Require Import Qty Query Build Repr Neigh LazyOps.
Import ListNotations.
Open Scope N_scope.

Definition cellrange := (N * N * N)%type.          (* depth, first index, number of cells *)

Fixpoint group (d i n : N) (l : list cell) : list cellrange :=
  match l with
  | [] => [(d, i, n)]
  | (d', i') :: t => if (d' =? d) && (i + n =? i') then group d i (n + 1) t else (d, i, n) :: group d' i' 1 t
  end.
Definition cellranges (l : list cell) : list cellrange :=
  match l with [] => [] | (d, i) :: t => group d i 1 t end.

Definition expand (r : cellrange) : list cell :=
  let '(d, i, n) := r in map (fun k => (d, k)) (nseq i (N.to_nat n)).
Definition cells_of_cellranges (l : list cellrange) : list cell := flat_map expand l.

Lemma nseq_app a n m : nseq a (n + m) = nseq a n ++ nseq (a + N.of_nat n) m.
Proof.
  revert a. induction n as [|n IH]; intros a; cbn [nseq Nat.add app]; [f_equal; lia|].
  rewrite IH. f_equal. f_equal. f_equal. lia.
Qed.

Lemma group_expand : forall l d i n, 0 < n ->
  cells_of_cellranges (group d i n l) = map (fun k => (d, k)) (nseq i (N.to_nat n)) ++ l.
Proof.
  induction l as [|[d' i'] t IH]; intros d i n Hn; cbn [group].
  - unfold cells_of_cellranges. cbn [flat_map expand]. rewrite !app_nil_r. reflexivity.
  - destruct ((d' =? d) && (i + n =? i')) eqn:Q.
    + apply andb_true_iff in Q. destruct Q as [Q1 Q2]. apply N.eqb_eq in Q1. apply N.eqb_eq in Q2. subst d' i'.
      rewrite (IH d i (n + 1) ltac:(lia)). replace (N.to_nat (n + 1)) with (N.to_nat n + 1)%nat by lia.
      rewrite nseq_app, map_app, <- app_assoc. cbn [nseq map app]. rewrite N2Nat.id. reflexivity.
    + unfold cells_of_cellranges in *. cbn [flat_map expand]. rewrite (IH d' i' 1 ltac:(lia)). cbn [N.to_nat Pos.to_nat Pos.iter_op nseq map app]. reflexivity.
Qed.

(** lossless: expanding the gathered cell ranges gives back the cell list, whatever it is *)
Theorem cellranges_roundtrip l : cells_of_cellranges (cellranges l) = l.
Proof.
  destruct l as [|[d i] t]; [reflexivity|]. unfold cellranges. rewrite (group_expand t d i 1 ltac:(lia)). reflexivity.
Qed.

(** every gathered cell range is non-empty and the cell ranges are not fusable further *)
Theorem cellranges_nonempty l : Forall (fun r : cellrange => 0 < snd r) (cellranges l).
Proof.
  destruct l as [|[d i] t]; [constructor|]. unfold cellranges.
  assert (G : forall l d i n, 0 < n -> Forall (fun r : cellrange => 0 < snd r) (group d i n l)).
  { induction l as [|[d' i'] l IH]; intros d0 i0 n Hn; cbn [group]; [constructor; [exact Hn|constructor]|].
    destruct ((d' =? d0) && (i0 + n =? i')); [apply IH; lia|constructor; [exact Hn|apply IH; lia]]. }
  apply G. lia.
Qed.

(** ---------- cells -> ranges ---------- *)
Fixpoint fuse_r (cur : range) (l : list range) : list range :=
  match l with
  | [] => [cur]
  | r :: t => if snd cur =? fst r then fuse_r (fst cur, snd r) t else cur :: fuse_r r t
  end.
Definition ranges_of_cells (q : qty) (w : N) (l : list cell) : list range :=
  match map (crange q w) l with [] => [] | r :: t => fuse_r r t end.

Lemma fuse_r_spec : forall l cur, fst cur < snd cur -> asc (snd cur) l ->
  sorted_from (fst cur) (fuse_r cur l) /\ forall x, cov (fuse_r cur l) x <-> inr cur x \/ cov l x.
Proof.
  induction l as [|r t IH]; intros cur Hc Ha; cbn [fuse_r].
  - split; [cbn; repeat split; [lia|exact Hc]|]. intros x. rewrite cov_cons. split; [intros [H|H]; [left; exact H|destruct (cov_nil _ H)]|intros [H|H]; [left; exact H|destruct (cov_nil _ H)]].
  - cbn [asc] in Ha. destruct Ha as (A1 & A2 & A3). destruct (N.eqb_spec (snd cur) (fst r)) as [E|E].
    + destruct (IH (fst cur, snd r) ltac:(cbn; lia) A3) as [S C]. cbn [fst snd] in *. split; [exact S|].
      intros x. rewrite C, cov_cons. unfold inr. cbn [fst snd]. split.
      * intros [H|H]; [|right; right; exact H]. destruct (N.lt_ge_cases x (snd cur)); [left; lia|right; left; lia].
      * intros [H|[H|H]]; [left; lia|left; lia|right; exact H].
    + destruct (IH r A2 A3) as [S C]. split.
      * cbn [sorted_from]. split; [lia|]. split; [exact Hc|]. apply chain_sorted_succ. apply (sorted_from_weaken _ (fst r)); [lia|exact S].
      * intros x. rewrite !cov_cons, C. tauto.
Qed.

Theorem ranges_of_cells_spec q w l : asc 0 (map (crange q w) l) ->
  Canon (ranges_of_cells q w l) /\ forall x, cov (ranges_of_cells q w l) x <-> cov (map (crange q w) l) x.
Proof.
  unfold ranges_of_cells. destruct (map (crange q w) l) as [|r t]; intros Ha; [split; [exact I|intros; reflexivity]|].
  cbn [asc] in Ha. destruct Ha as (A1 & A2 & A3). destruct (fuse_r_spec t r A2 A3) as [S C].
  split; [apply (sorted_from_weaken _ (fst r)); [lia|exact S]|]. intros x. rewrite C, cov_cons. reflexivity.
Qed.

(** on the normal form of a MOC the adapter gives back the MOC's ranges *)
Theorem ranges_of_normal_cells q w d l cells : Canon l -> NormalCells q w d l cells -> ranges_of_cells q w cells = l.
Proof.
  intros Hc [_ Ha Hcov _]. destruct (ranges_of_cells_spec q w cells Ha) as [C Cv].
  apply canon_unique; [exact C|exact Hc|]. intros x. rewrite Cv. apply Hcov.
Qed.

Example adapters_example :
  cellranges [(2, 3); (1, 1); (1, 2); (1, 3); (1, 4); (2, 20); (2, 21); (3, 100)] = [(2, 3, 1); (1, 1, 4); (2, 20, 2); (3, 100, 1)] /\
  ranges_of_cells Hpx 64 [(2, 3); (1, 1); (1, 2); (1, 3); (1, 4); (2, 20)] = [(3 * 2 ^ 54, 21 * 2 ^ 54)].
Proof. split; vm_compute; reflexivity. Qed.
