(** Model/FitsStProofs.v — whole-file round trip of the space-time FITS codec (Model/FitsCodec.v):
    fits_read (fits_write_st w dt ds X) = FOk LSTRange w dt ds (DSt X)
    for every supported width, both depths below 256, every space-time MOC whose elements have
    non-empty parts and indices below the most significant bit.  The two depth cards are handled
    symbolically, the other cards by computation. *)
From Coq Require Import List NArith Arith Lia Bool String Ascii.
From MOC.Base Require Import RangeSet.
From MOC.Model Require Import Qty Query Build Repr Serial ST STSerial AsciiCodec AsciiProofs AsciiStreamProofs FitsCodec FitsProofs.
Import ListNotations.
Open Scope N_scope.
Open Scope list_scope.

Arguments N.add : simpl never.
Arguments N.mul : simpl never.
Arguments N.sub : simpl never.
Arguments N.div : simpl never.
Arguments N.pow : simpl never.
Arguments N.eqb : simpl never.
Arguments N.leb : simpl never.
Arguments N.ltb : simpl never.

(** a depth card is read back, whatever the depth below 256 *)
Lemma depth_card kw d : List.length kw = 8%nat -> d < 256 ->
  depth_val (kw_record kw (adec d)) = Datatypes.inr (KDepth d).
Proof.
  intros Hk Hd. unfold depth_val, kw_record, pad80.
  set (p := Nat.sub 80 (List.length (kw ++ [61; 32] ++ adec d))).
  replace ((kw ++ [61; 32] ++ adec d) ++ repeat 32 p) with ((kw ++ [61; 32]) ++ repeat 32 0 ++ adec d ++ repeat 32 p)
    by (cbn [repeat app]; rewrite <- !app_assoc; reflexivity).
  rewrite (uint_val_field 8 d 0 p); [reflexivity|change (2 ^ 8) with 256; exact Hd|lia|].
  rewrite app_length, Hk. reflexivity.
Qed.

Lemma is_moc_kw_ord_s rec : firstn 8 rec = s2l "MOCORD_S" -> is_moc_kw rec = Some (8, depth_val rec).
Proof. intros K. unfold is_moc_kw. cbv zeta. rewrite K. vm_compute. reflexivity. Qed.
Lemma is_moc_kw_ord_t rec : firstn 8 rec = s2l "MOCORD_T" -> is_moc_kw rec = Some (9, depth_val rec).
Proof. intros K. unfold is_moc_kw. cbv zeta. rewrite K. vm_compute. reflexivity. Qed.

Lemma ord_s_card d : d < 256 -> is_moc_kw (kw_record (s2l "MOCORD_S") (adec d)) = Some (8, Datatypes.inr (KDepth d)).
Proof. intros Hd. rewrite is_moc_kw_ord_s by reflexivity. rewrite depth_card; [reflexivity|reflexivity|exact Hd]. Qed.
Lemma ord_t_card d : d < 256 -> is_moc_kw (kw_record (s2l "MOCORD_T") (adec d)) = Some (9, Datatypes.inr (KDepth d)).
Proof. intros Hd. rewrite is_moc_kw_ord_t by reflexivity. rewrite depth_card; [reflexivity|reflexivity|exact Hd]. Qed.

Ltac closed_card :=
  match goal with |- context [is_moc_kw ?c] =>
    let v := eval vm_compute in (is_moc_kw c) in
    replace (is_moc_kw c) with v by (vm_compute; reflexivity)
  end.

(** the keyword loop on the space-time tail *)
Lemma st_tail_loop w dt ds k : okw w -> dt < 256 -> ds < 256 ->
  exists m, kw_cards (st_cards w dt ds ++ [pad80 (s2l "END")] ++ repeat blank k) [] = Datatypes.inr (m, true) /\
            dispatch m = Datatypes.inr (LSTRange, dt, ds) /\ width_of LSTRange m (w / 8) = Datatypes.inr w.
Proof.
  intros Hw Ht Hs.
  destruct Hw as [->|[->| ->]]; unfold st_cards; cbn [app kw_cards];
    rewrite (ord_s_card ds Hs), (ord_t_card dt Ht);
    repeat closed_card; cbn [kw_cards kw_insert kw_get app];
    repeat closed_card;
    eexists; (split; [vm_compute; reflexivity|split; vm_compute; reflexivity]).
Qed.

Lemma st_cards_len w dt ds : okw w -> Forall (fun c => List.length c = 80%nat) (st_cards w dt ds ++ [pad80 (s2l "END")]).
Proof.
  intros Hw. pose proof (adec_length dt). pose proof (adec_length ds).
  unfold st_cards. destruct Hw as [->|[->| ->]];
    repeat constructor; try (apply kw_record_length; [reflexivity|cbn [List.length]; lia]); reflexivity.
Qed.

Lemma mand_cards_len w nrows : Forall (fun c => List.length c = 80%nat) (mand_cards w nrows).
Proof. unfold mand_cards. repeat constructor; try (apply mand_record_length; reflexivity). Qed.

Definition mand_ok (w : N) : bool :=
  let c := mand_cards w 0 in
  match check_kv (nth 0 c []) (s2l "XTENSION") (s2l "'BINTABLE'"), check_kv (nth 1 c []) (s2l "BITPIX  ") (s2l "8"),
        check_kv (nth 2 c []) (s2l "NAXIS  ") (s2l "2"), check_kw_uint 8 (nth 3 c []) (s2l "NAXIS1  "),
        check_kv (nth 5 c []) (s2l "PCOUNT  ") (s2l "0"), check_kv (nth 6 c []) (s2l "GCOUNT  ") (s2l "1"),
        check_kv (nth 7 c []) (s2l "TFIELDS ") (s2l "1") with
  | None, None, None, Datatypes.inr nb, None, None, None => nb =? w / 8
  | _, _, _, _, _, _, _ => false
  end.
Lemma mand_ok_all w : okw w -> mand_ok w = true.
Proof. intros [->|[->| ->]]; vm_compute; reflexivity. Qed.

(** the rows of a valid space-time MOC fit the width *)
Lemma encode2_inwidth w X : okw w -> Enc_ok (2 ^ (w - 1)) X -> InWidth (N.to_nat (w / 8)) (encode2 (2 ^ (w - 1)) X).
Proof.
  intros Hw HX.
  assert (P : 256 ^ N.of_nat (N.to_nat (w / 8)) = 2 ^ (w - 1) + 2 ^ (w - 1)) by (destruct Hw as [->|[->| ->]]; vm_compute; reflexivity).
  unfold InWidth, encode2. apply Forall_forall. intros r Hr. apply in_flat_map in Hr. destruct Hr as [e [He Hr]].
  unfold Enc_ok in HX. rewrite Forall_forall in HX. destruct (HX e He) as (_ & _ & BT & BS).
  apply in_app_or in Hr. destruct Hr as [Hr|Hr].
  - apply in_map_iff in Hr. destruct Hr as [r0 [<- H0]]. unfold Below in BT. rewrite Forall_forall in BT.
    destruct (BT r0 H0) as [B1 B2]. unfold flag. cbn [fst snd]. rewrite P. lia.
  - unfold Below in BS. rewrite Forall_forall in BS. destruct (BS r Hr) as [B1 B2]. rewrite P. lia.
Qed.

Theorem fits_st_file_roundtrip w dt ds X : okw w -> dt < 256 -> ds < 256 -> Enc_ok (2 ^ (w - 1)) X ->
  2 * N.of_nat (List.length (encode2 (2 ^ (w - 1)) X)) < 2 ^ 64 ->
  fits_read (fits_write_st w dt ds X) = FOk LSTRange w dt ds (DSt X).
Proof.
  intros Hw Ht Hs HX Hn.
  unfold fits_write_st. cbn zeta.
  set (rows := encode2 (2 ^ (w - 1)) X) in *.
  set (nb := N.to_nat (w / 8)).
  set (data := encode_rows nb rows).
  set (pad := repeat 0 (N.to_nat (fits_pad (N.of_nat (List.length data))))).
  set (nrows := 2 * N.of_nat (List.length rows)) in *.
  unfold fits_read. rewrite <- ?app_assoc. rewrite primary_ok.
  pose proof (st_cards_len w dt ds Hw) as TL.
  assert (TN : List.length (st_cards w dt ds ++ [pad80 (s2l "END")]) = 10%nat) by reflexivity.
  replace (mand_cards w nrows ++ st_cards w dt ds ++ [pad80 (s2l "END")]) with (mand_cards w nrows ++ (st_cards w dt ds ++ [pad80 (s2l "END")])) by reflexivity.
  rewrite read_block_hdr.
  2:{ apply Forall_app. split; [apply mand_cards_len|exact TL]. }
  2:{ rewrite app_length, TN. cbn [mand_cards List.length]. lia. }
  pose proof (mand_ok_all w Hw) as HF. unfold mand_ok in HF. cbn zeta in HF.
  set (tail := st_cards w dt ds ++ [pad80 (s2l "END")]) in *.
  assert (N8 : forall k, (k < 8)%nat -> k <> 4%nat -> forall Y, nth k ((mand_cards w nrows ++ tail) ++ Y) [] = nth k (mand_cards w 0) []).
  { intros k Hk H4 Y. do 8 (destruct k as [|k]; [try reflexivity; try congruence|]). lia. }
  rewrite !N8 by lia.
  assert (N4 : forall Y, nth 4 ((mand_cards w nrows ++ tail) ++ Y) [] = mand_record (s2l "NAXIS2  ") nrows) by reflexivity.
  rewrite N4.
  destruct (check_kv (nth 0 (mand_cards w 0) []) (s2l "XTENSION") (s2l "'BINTABLE'")); [discriminate|].
  destruct (check_kv (nth 1 (mand_cards w 0) []) (s2l "BITPIX  ") (s2l "8")); [discriminate|].
  destruct (check_kv (nth 2 (mand_cards w 0) []) (s2l "NAXIS  ") (s2l "2")); [discriminate|].
  destruct (check_kw_uint 8 (nth 3 (mand_cards w 0) []) (s2l "NAXIS1  ")) as [e|nbytes]; [discriminate|].
  rewrite (naxis2_card nrows Hn).
  destruct (check_kv (nth 5 (mand_cards w 0) []) (s2l "PCOUNT  ") (s2l "0")); [discriminate|].
  destruct (check_kv (nth 6 (mand_cards w 0) []) (s2l "GCOUNT  ") (s2l "1")); [discriminate|].
  destruct (check_kv (nth 7 (mand_cards w 0) []) (s2l "TFIELDS ") (s2l "1")); [discriminate|].
  apply N.eqb_eq in HF. subst nbytes.
  assert (SK : skipn 8 ((mand_cards w nrows ++ tail) ++ repeat blank (36 - List.length (mand_cards w nrows ++ tail)))
               = st_cards w dt ds ++ [pad80 (s2l "END")] ++ repeat blank 18).
  { unfold tail. reflexivity. }
  rewrite SK.
  destruct (st_tail_loop w dt ds 18 Hw Ht Hs) as [m [K1 [K2 K3]]].
  cbn [kw_blocks]. rewrite K1, K2, K3.
  assert (RR : read_ranges (List.length (data ++ pad)) nb (nrows / 2) (data ++ pad) = rows).
  { unfold nrows. rewrite N.mul_comm, N.div_mul by lia.
    apply read_ranges_rows; [| apply encode2_inwidth; assumption | | right; reflexivity].
    - unfold nb. destruct Hw as [->|[->| ->]]; vm_compute; lia.
    - rewrite app_length. unfold data. rewrite encode_rows_len.
      assert (0 < nb)%nat by (unfold nb; destruct Hw as [->|[->| ->]]; vm_compute; lia). nia. }
  fold nb. rewrite RR.
  assert (E : (N.of_nat (List.length rows) <? nrows / 2) = false).
  { unfold nrows. rewrite N.mul_comm, N.div_mul by lia. apply N.ltb_irrefl. }
  rewrite E. unfold rows. rewrite (st_rows_roundtrip (2 ^ (w - 1)) X HX). reflexivity.
Qed.
