(** Model/FitsStProofs.v — whole-file round trip of the space-time FITS codec (Model/FitsCodec.v):
    fits_read (fits_write_st w dt ds X) = FOk LSTRange w dt ds (DSt X)
    for every supported width, both depths below 256, every space-time MOC whose elements have
    non-empty parts and indices below the most significant bit.  The two depth cards are handled
    symbolically, the other cards by computation. *)
From Coq Require Import List NArith Arith Lia Bool String Ascii Permutation.
From MOC.Base Require Import RangeSet.
From MOC.Model Require Import Qty Query Build Repr Serial ST STSerial AsciiCodec AsciiProofs AsciiStreamProofs FitsCodec FitsProofs.
Import ListNotations.
Open Scope N_scope.
Open Scope list_scope.

Arguments N.add : simpl never.
Arguments N.mul : simpl never.
Arguments N.sub : simpl never.
Arguments N.div : simpl never.
Arguments N.pow : simpl never.
Arguments N.eqb : simpl never.
Arguments N.leb : simpl never.
Arguments N.ltb : simpl never.

(** a depth card is read back, whatever the depth below 256 *)
Lemma depth_card kw d : List.length kw = 8%nat -> d < 256 ->
  depth_val (kw_record kw (adec d)) = Datatypes.inr (KDepth d).
Proof.
  intros Hk Hd. unfold depth_val, kw_record, pad80.
  set (p := Nat.sub 80 (List.length (kw ++ [61; 32] ++ adec d))).
  replace ((kw ++ [61; 32] ++ adec d) ++ repeat 32 p) with ((kw ++ [61; 32]) ++ repeat 32 0 ++ adec d ++ repeat 32 p)
    by (cbn [repeat app]; rewrite <- !app_assoc; reflexivity).
  rewrite (uint_val_field 8 d 0 p); [reflexivity|change (2 ^ 8) with 256; exact Hd|lia|].
  rewrite app_length, Hk. reflexivity.
Qed.

Lemma is_moc_kw_ord_s rec : firstn 8 rec = s2l "MOCORD_S" -> is_moc_kw rec = Some (8, depth_val rec).
Proof. intros K. unfold is_moc_kw. cbv zeta. rewrite K. vm_compute. reflexivity. Qed.
Lemma is_moc_kw_ord_t rec : firstn 8 rec = s2l "MOCORD_T" -> is_moc_kw rec = Some (9, depth_val rec).
Proof. intros K. unfold is_moc_kw. cbv zeta. rewrite K. vm_compute. reflexivity. Qed.

Lemma ord_s_card d : d < 256 -> is_moc_kw (kw_record (s2l "MOCORD_S") (adec d)) = Some (8, Datatypes.inr (KDepth d)).
Proof. intros Hd. rewrite is_moc_kw_ord_s by reflexivity. rewrite depth_card; [reflexivity|reflexivity|exact Hd]. Qed.
Lemma ord_t_card d : d < 256 -> is_moc_kw (kw_record (s2l "MOCORD_T") (adec d)) = Some (9, Datatypes.inr (KDepth d)).
Proof. intros Hd. rewrite is_moc_kw_ord_t by reflexivity. rewrite depth_card; [reflexivity|reflexivity|exact Hd]. Qed.

Ltac closed_card :=
  match goal with |- context [is_moc_kw ?c] =>
    let v := eval vm_compute in (is_moc_kw c) in
    replace (is_moc_kw c) with v by (vm_compute; reflexivity)
  end.

(** the keyword loop on the space-time tail *)
Lemma st_tail_loop w dt ds k : okw w -> dt < 256 -> ds < 256 ->
  exists m, kw_cards (st_cards w dt ds ++ [pad80 (s2l "END")] ++ repeat blank k) [] = Datatypes.inr (m, true) /\
            dispatch m = Datatypes.inr (LSTRange, dt, ds) /\ width_of LSTRange m (w / 8) = Datatypes.inr w.
Proof.
  intros Hw Ht Hs.
  destruct Hw as [->|[->| ->]]; unfold st_cards; cbn [app kw_cards];
    rewrite (ord_s_card ds Hs), (ord_t_card dt Ht);
    repeat closed_card; cbn [kw_cards kw_insert kw_get app];
    repeat closed_card;
    eexists; (split; [vm_compute; reflexivity|split; vm_compute; reflexivity]).
Qed.

Lemma st_cards_len w dt ds : okw w -> Forall (fun c => List.length c = 80%nat) (st_cards w dt ds ++ [pad80 (s2l "END")]).
Proof.
  intros Hw. pose proof (adec_length dt). pose proof (adec_length ds).
  unfold st_cards. destruct Hw as [->|[->| ->]];
    repeat constructor; try (apply kw_record_length; [reflexivity|cbn [List.length]; lia]); reflexivity.
Qed.

Lemma mand_cards_len w nrows : Forall (fun c => List.length c = 80%nat) (mand_cards w nrows).
Proof. unfold mand_cards. repeat constructor; try (apply mand_record_length; reflexivity). Qed.

Definition mand_ok (w : N) : bool :=
  let c := mand_cards w 0 in
  match check_kv (nth 0 c []) (s2l "XTENSION") (s2l "'BINTABLE'"), check_kv (nth 1 c []) (s2l "BITPIX  ") (s2l "8"),
        check_kv (nth 2 c []) (s2l "NAXIS  ") (s2l "2"), check_kw_uint 8 (nth 3 c []) (s2l "NAXIS1  "),
        check_kv (nth 5 c []) (s2l "PCOUNT  ") (s2l "0"), check_kv (nth 6 c []) (s2l "GCOUNT  ") (s2l "1"),
        check_kv (nth 7 c []) (s2l "TFIELDS ") (s2l "1") with
  | None, None, None, Datatypes.inr nb, None, None, None => nb =? w / 8
  | _, _, _, _, _, _, _ => false
  end.
Lemma mand_ok_all w : okw w -> mand_ok w = true.
Proof. intros [->|[->| ->]]; vm_compute; reflexivity. Qed.

(** the rows of a valid space-time MOC fit the width *)
Lemma encode2_inwidth w X : okw w -> Enc_ok (2 ^ (w - 1)) X -> InWidth (N.to_nat (w / 8)) (encode2 (2 ^ (w - 1)) X).
Proof.
  intros Hw HX.
  assert (P : 256 ^ N.of_nat (N.to_nat (w / 8)) = 2 ^ (w - 1) + 2 ^ (w - 1)) by (destruct Hw as [->|[->| ->]]; vm_compute; reflexivity).
  unfold InWidth, encode2. apply Forall_forall. intros r Hr. apply in_flat_map in Hr. destruct Hr as [e [He Hr]].
  unfold Enc_ok in HX. rewrite Forall_forall in HX. destruct (HX e He) as (_ & _ & BT & BS).
  apply in_app_or in Hr. destruct Hr as [Hr|Hr].
  - apply in_map_iff in Hr. destruct Hr as [r0 [<- H0]]. unfold Below in BT. rewrite Forall_forall in BT.
    destruct (BT r0 H0) as [B1 B2]. unfold flag. cbn [fst snd]. rewrite P. lia.
  - unfold Below in BS. rewrite Forall_forall in BS. destruct (BS r Hr) as [B1 B2]. rewrite P. lia.
Qed.

Theorem fits_st_file_roundtrip w dt ds X : okw w -> dt < 256 -> ds < 256 -> Enc_ok (2 ^ (w - 1)) X ->
  2 * N.of_nat (List.length (encode2 (2 ^ (w - 1)) X)) < 2 ^ 64 ->
  fits_read (fits_write_st w dt ds X) = FOk LSTRange w dt ds (DSt X).
Proof.
  intros Hw Ht Hs HX Hn.
  unfold fits_write_st. cbn zeta.
  set (rows := encode2 (2 ^ (w - 1)) X) in *.
  set (nb := N.to_nat (w / 8)).
  set (data := encode_rows nb rows).
  set (pad := repeat 0 (N.to_nat (fits_pad (N.of_nat (List.length data))))).
  set (nrows := 2 * N.of_nat (List.length rows)) in *.
  unfold fits_read. rewrite <- ?app_assoc. rewrite primary_ok.
  pose proof (st_cards_len w dt ds Hw) as TL.
  assert (TN : List.length (st_cards w dt ds ++ [pad80 (s2l "END")]) = 10%nat) by reflexivity.
  replace (mand_cards w nrows ++ st_cards w dt ds ++ [pad80 (s2l "END")]) with (mand_cards w nrows ++ (st_cards w dt ds ++ [pad80 (s2l "END")])) by reflexivity.
  rewrite read_block_hdr.
  2:{ apply Forall_app. split; [apply mand_cards_len|exact TL]. }
  2:{ rewrite app_length, TN. cbn [mand_cards List.length]. lia. }
  pose proof (mand_ok_all w Hw) as HF. unfold mand_ok in HF. cbn zeta in HF.
  set (tail := st_cards w dt ds ++ [pad80 (s2l "END")]) in *.
  assert (N8 : forall k, (k < 8)%nat -> k <> 4%nat -> forall Y, nth k ((mand_cards w nrows ++ tail) ++ Y) [] = nth k (mand_cards w 0) []).
  { intros k Hk H4 Y. do 8 (destruct k as [|k]; [try reflexivity; try congruence|]). lia. }
  rewrite !N8 by lia.
  assert (N4 : forall Y, nth 4 ((mand_cards w nrows ++ tail) ++ Y) [] = mand_record (s2l "NAXIS2  ") nrows) by reflexivity.
  rewrite N4.
  destruct (check_kv (nth 0 (mand_cards w 0) []) (s2l "XTENSION") (s2l "'BINTABLE'")); [discriminate|].
  destruct (check_kv (nth 1 (mand_cards w 0) []) (s2l "BITPIX  ") (s2l "8")); [discriminate|].
  destruct (check_kv (nth 2 (mand_cards w 0) []) (s2l "NAXIS  ") (s2l "2")); [discriminate|].
  destruct (check_kw_uint 8 (nth 3 (mand_cards w 0) []) (s2l "NAXIS1  ")) as [e|nbytes]; [discriminate|].
  rewrite (naxis2_card nrows Hn).
  destruct (check_kv (nth 5 (mand_cards w 0) []) (s2l "PCOUNT  ") (s2l "0")); [discriminate|].
  destruct (check_kv (nth 6 (mand_cards w 0) []) (s2l "GCOUNT  ") (s2l "1")); [discriminate|].
  destruct (check_kv (nth 7 (mand_cards w 0) []) (s2l "TFIELDS ") (s2l "1")); [discriminate|].
  apply N.eqb_eq in HF. subst nbytes.
  assert (SK : skipn 8 ((mand_cards w nrows ++ tail) ++ repeat blank (36 - List.length (mand_cards w nrows ++ tail)))
               = st_cards w dt ds ++ [pad80 (s2l "END")] ++ repeat blank 18).
  { unfold tail. reflexivity. }
  rewrite SK.
  destruct (st_tail_loop w dt ds 18 Hw Ht Hs) as [m [K1 [K2 K3]]].
  cbn [kw_blocks]. rewrite K1, K2, K3.
  assert (RR : read_ranges (List.length (data ++ pad)) nb (nrows / 2) (data ++ pad) = rows).
  { unfold nrows. rewrite N.mul_comm, N.div_mul by lia.
    apply read_ranges_rows; [| apply encode2_inwidth; assumption | | right; reflexivity].
    - unfold nb. destruct Hw as [->|[->| ->]]; vm_compute; lia.
    - rewrite app_length. unfold data. rewrite encode_rows_len.
      assert (0 < nb)%nat by (unfold nb; destruct Hw as [->|[->| ->]]; vm_compute; lia). nia. }
  fold nb. rewrite RR.
  assert (E : (N.of_nat (List.length rows) <? nrows / 2) = false).
  { unfold nrows. rewrite N.mul_comm, N.div_mul by lia. apply N.ltb_irrefl. }
  rewrite E. unfold rows. rewrite (st_rows_roundtrip (2 ^ (w - 1)) X HX). reflexivity.
Qed.

(** ---------- NUNIQ ---------- *)
Lemma is_moc_kw_order rec : firstn 8 rec = s2l "MOCORDER" -> is_moc_kw rec = Some (10, depth_val rec).
Proof. intros K. unfold is_moc_kw. cbv zeta. rewrite K. vm_compute. reflexivity. Qed.
Lemma order_card d : d < 256 -> is_moc_kw (kw_record (s2l "MOCORDER") (adec d)) = Some (10, Datatypes.inr (KDepth d)).
Proof. intros Hd. rewrite is_moc_kw_order by reflexivity. rewrite depth_card; [reflexivity|reflexivity|exact Hd]. Qed.

Lemma nuniq_tail_loop w d k : okw w -> d < 256 ->
  exists m, kw_cards (nuniq_cards w d ++ [pad80 (s2l "END")] ++ repeat blank k) [] = Datatypes.inr (m, true) /\
            dispatch m = Datatypes.inr (LSNuniq, d, 0) /\ width_of LSNuniq m (w / 8) = Datatypes.inr w.
Proof.
  intros Hw Hd.
  destruct Hw as [->|[->| ->]]; unfold nuniq_cards; cbn [app kw_cards];
    rewrite (ord_s_card d Hd), (order_card d Hd);
    repeat closed_card; cbn [kw_cards kw_insert kw_get app];
    repeat closed_card;
    eexists; (split; [vm_compute; reflexivity|split; vm_compute; reflexivity]).
Qed.

Definition regroupc (d : N) (cells : list cell) : list cell :=
  flat_map (fun dd => filter (fun c : cell => fst c =? dd) cells) (anseq 0 (S (N.to_nat d))).
Definition ubytes (nb : nat) (c : cell) : list N := be_bytes nb (uniq_hpx (fst c) (snd c)).

Lemma nuniq_data nb cells : forall ds,
  flat_map (fun dd => flat_map (fun c : cell => if fst c =? dd then be_bytes nb (uniq_hpx (fst c) (snd c)) else []) cells) ds
  = flat_map (ubytes nb) (flat_map (fun dd => filter (fun c : cell => fst c =? dd) cells) ds).
Proof.
  induction ds as [|dd ds IH]; [reflexivity|]. cbn [flat_map]. rewrite flat_map_app, IH. f_equal.
  clear IH. induction cells as [|c t IHc]; [reflexivity|]. cbn [flat_map filter].
  destruct (fst c =? dd); cbn [flat_map app]; rewrite IHc; reflexivity.
Qed.

Definition cell_ok (w dmax : N) (c : cell) : Prop := fst c <= dmax /\ snd c < 12 * 4 ^ fst c.

Lemma n_cells_hpx d : n_cells Hpx d = 12 * 4 ^ d.
Proof. unfold n_cells. cbn [nd0 dim]. rewrite four_pow. reflexivity. Qed.

Lemma uniq_lt_width w dmax c : okw w -> dmax <= max_depth Hpx w -> cell_ok w dmax c ->
  uniq_hpx (fst c) (snd c) < 256 ^ N.of_nat (N.to_nat (w / 8)) /\ 4 <= uniq_hpx (fst c) (snd c).
Proof.
  intros Hw Hd [H1 H2]. unfold uniq_hpx.
  assert (P : 4 ^ fst c <= 4 ^ max_depth Hpx w) by (apply N.pow_le_mono_r; lia).
  assert (Q : 16 * 4 ^ max_depth Hpx w <= 256 ^ N.of_nat (N.to_nat (w / 8))) by (destruct Hw as [->|[->| ->]]; vm_compute; discriminate).
  pose proof (N.pow_nonzero 4 (fst c) ltac:(lia)).
  split; lia.
Qed.

Lemma read_nuniq_cells w nb dmax : okw w -> nb = N.to_nat (w / 8) -> dmax <= max_depth Hpx w ->
  forall ucells fuel l_acc pad, Forall (cell_ok w dmax) ucells -> (List.length ucells < fuel)%nat ->
  read_nuniq fuel w nb (N.of_nat (List.length ucells)) dmax (flat_map (ubytes nb) ucells ++ pad) l_acc
  = Datatypes.inr (l_acc ++ ucells).
Proof.
  intros Hw Hnb Hd. subst nb. induction ucells as [|c t IH]; intros fuel l_acc pad Hok Hf.
  - destruct fuel; [cbn [List.length] in Hf; lia|]. cbn [read_nuniq List.length flat_map app]. change (N.of_nat 0 =? 0) with true. cbn iota. rewrite app_nil_r. reflexivity.
  - pose proof (Forall_inv Hok) as Hc. pose proof (Forall_inv_tail Hok) as Ht. cbn beta in Hc.
    destruct fuel as [|fuel]; [cbn [List.length] in Hf; lia|].
    destruct (uniq_lt_width w dmax c Hw Hd Hc) as [U1 U2].
    set (u := uniq_hpx (fst c) (snd c)) in *.
    assert (L : List.length (be_bytes (N.to_nat (w / 8)) u) = N.to_nat (w / 8)) by apply be_bytes_length.
    replace (flat_map (ubytes (N.to_nat (w / 8))) (c :: t) ++ pad)
      with (be_bytes (N.to_nat (w / 8)) u ++ (flat_map (ubytes (N.to_nat (w / 8))) t ++ pad))
      by (cbn [flat_map]; rewrite <- app_assoc; reflexivity).
    cbn [read_nuniq]. cbv zeta.
    match goal with |- context [N.eqb ?x 0] =>
      assert (N0 : N.eqb x 0 = false) by (apply N.eqb_neq; cbn [List.length]; lia); rewrite N0 end.
    match goal with |- context [Nat.ltb ?x (N.to_nat (w / 8))] =>
      assert (Len : Nat.ltb x (N.to_nat (w / 8)) = false) by (apply Nat.ltb_ge; rewrite app_length, L; lia); rewrite Len end.
    rewrite !(firstn_app_exact _ _ _ L), !(skipn_app_exact _ _ _ L).
    rewrite be_roundtrip by exact U1.
    destruct (N.eqb_spec u 0) as [Z|_]; [lia|]. destruct (N.ltb_spec u 4) as [Z|_]; [lia|].
    destruct Hc as [C1 C2].
    unfold u. rewrite (uniq_hpx_roundtrip (fst c) (snd c) C2). cbn [fst snd].
    destruct (N.ltb_spec dmax (fst c)) as [Z|_]; [lia|].
    rewrite n_cells_hpx. destruct (N.leb_spec (12 * 4 ^ fst c) (snd c)) as [Z|_]; [lia|].
    match goal with |- context [N.sub ?x 1] =>
      replace (N.sub x 1) with (N.of_nat (List.length t)) by (cbn [List.length]; lia) end.
    rewrite IH; [|exact Ht|cbn [List.length] in Hf; lia].
    rewrite <- app_assoc. destruct c. reflexivity.
Qed.

Lemma nuniq_cards_len w d : okw w -> Forall (fun c => List.length c = 80%nat) (nuniq_cards w d ++ [pad80 (s2l "END")]).
Proof.
  intros Hw. pose proof (adec_length d).
  unfold nuniq_cards. destruct Hw as [->|[->| ->]];
    repeat constructor; try (apply kw_record_length; [reflexivity|cbn [List.length]; lia]); reflexivity.
Qed.

Lemma filter_length_le {A} (f : A -> bool) l : (List.length (filter f l) <= List.length l)%nat.
Proof. induction l as [|a t IH]; [cbn; lia|]. cbn [filter]. destruct (f a); cbn [List.length]; lia. Qed.

Section RegroupKey.
  Context {A : Type} (key : A -> N).
  Definition selk (d : N) (es : list A) : list A := filter (fun x => key x =? d) es.

  Lemma selk_notin x es ds : ~ In (key x) ds ->
    flat_map (fun d => selk d (x :: es)) ds = flat_map (fun d => selk d es) ds.
  Proof.
    induction ds as [|d ds IH]; intros H; [reflexivity|].
    cbn [flat_map]. rewrite IH by (intros H'; apply H; right; exact H').
    f_equal. unfold selk. cbn [filter]. destruct (N.eqb_spec (key x) d); [exfalso; apply H; left; auto|reflexivity].
  Qed.

  Lemma selk_nil ds : flat_map (fun d => selk d []) ds = [].
  Proof. induction ds as [|d ds IH]; [reflexivity|]. cbn [flat_map]. rewrite IH. reflexivity. Qed.

  Lemma selk_insert x es : forall ds, NoDup ds -> In (key x) ds ->
    Permutation (flat_map (fun d => selk d (x :: es)) ds) (x :: flat_map (fun d => selk d es) ds).
  Proof.
    induction ds as [|d ds IH]; intros Hnd Hx; [destruct Hx|].
    inversion Hnd as [|? ? Hnot Hnd']; subst. cbn [flat_map].
    destruct (N.eq_dec (key x) d) as [Ed|Nd].
    - subst d. rewrite (selk_notin x es ds Hnot). unfold selk at 1. cbn [filter]. rewrite N.eqb_refl. reflexivity.
    - destruct Hx as [Hx|Hx]; [congruence|].
      unfold selk at 1. cbn [filter]. destruct (N.eqb_spec (key x) d); [congruence|]. fold (selk d es).
      eapply Permutation_trans; [apply Permutation_app_head; apply IH; assumption|].
      apply Permutation_sym, Permutation_middle.
  Qed.

  Lemma regroup_perm_key es : forall ds, NoDup ds -> Forall (fun x => In (key x) ds) es ->
    Permutation (flat_map (fun d => selk d es) ds) es.
  Proof.
    induction es as [|x es IH]; intros ds Hnd Hin.
    - rewrite selk_nil. constructor.
    - inversion Hin as [|? ? Hx Hin']; subst.
      eapply Permutation_trans; [apply selk_insert; assumption|]. constructor. apply IH; assumption.
  Qed.
End RegroupKey.

Lemma regroupc_perm d cells : Forall (fun c : cell => fst c <= d) cells -> Permutation (regroupc d cells) cells.
Proof.
  intros H. unfold regroupc. apply (regroup_perm_key (fun c : cell => fst c)); [apply nseq_nodup|].
  eapply Forall_impl; [|exact H]. intros c Hc. cbn beta in Hc. apply nseq_in. lia.
Qed.

Theorem fits_nuniq_file_roundtrip w d cells : okw w -> d <= max_depth Hpx w -> Forall (cell_ok w d) cells ->
  N.of_nat (List.length cells) < 2 ^ 64 ->
  fits_read (fits_write_nuniq w d cells) = FOk LSNuniq w d 0 (DCells (fold_right insert_c [] (regroupc d cells))).
Proof.
  intros Hw Hd Hok Hn.
  assert (Hd256 : d < 256) by (pose proof (max_depth_255 Hpx w Hw); lia).
  unfold fits_write_nuniq. cbn zeta.
  set (nb := N.to_nat (w / 8)).
  rewrite nuniq_data. fold (regroupc d cells).
  set (ucells := regroupc d cells).
  set (data := flat_map (ubytes nb) ucells).
  set (pad := repeat 0 (N.to_nat (fits_pad (N.of_nat (List.length data))))).
  (* the regrouped cells are the cells: same count, all valid *)
  assert (Uok : Forall (cell_ok w d) ucells).
  { apply Forall_forall. intros c Hc. unfold ucells, regroupc in Hc. apply in_flat_map in Hc. destruct Hc as [dd [_ Hc]].
    apply filter_In in Hc. rewrite Forall_forall in Hok. apply Hok. tauto. }
  assert (Ulen : List.length ucells = List.length cells).
  { apply Permutation_length. apply regroupc_perm. eapply Forall_impl; [|exact Hok]. intros c [Hc _]. exact Hc. }
  unfold fits_read. rewrite <- ?app_assoc. rewrite primary_ok.
  pose proof (nuniq_cards_len w d Hw) as TL.
  assert (TN : List.length (nuniq_cards w d ++ [pad80 (s2l "END")]) = 10%nat) by reflexivity.
  set (nrows := N.of_nat (List.length cells)).
  replace (mand_cards w nrows ++ nuniq_cards w d ++ [pad80 (s2l "END")]) with (mand_cards w nrows ++ (nuniq_cards w d ++ [pad80 (s2l "END")])) by reflexivity.
  rewrite read_block_hdr.
  2:{ apply Forall_app. split; [apply mand_cards_len|exact TL]. }
  2:{ rewrite app_length, TN. cbn [mand_cards List.length]. lia. }
  pose proof (mand_ok_all w Hw) as HF. unfold mand_ok in HF. cbn zeta in HF.
  set (tail := nuniq_cards w d ++ [pad80 (s2l "END")]) in *.
  assert (N8 : forall k, (k < 8)%nat -> k <> 4%nat -> forall Y, nth k ((mand_cards w nrows ++ tail) ++ Y) [] = nth k (mand_cards w 0) []).
  { intros k Hk H4 Y. do 8 (destruct k as [|k]; [try reflexivity; try congruence|]). lia. }
  rewrite !N8 by lia.
  assert (N4 : forall Y, nth 4 ((mand_cards w nrows ++ tail) ++ Y) [] = mand_record (s2l "NAXIS2  ") nrows) by reflexivity.
  rewrite N4.
  destruct (check_kv (nth 0 (mand_cards w 0) []) (s2l "XTENSION") (s2l "'BINTABLE'")); [discriminate|].
  destruct (check_kv (nth 1 (mand_cards w 0) []) (s2l "BITPIX  ") (s2l "8")); [discriminate|].
  destruct (check_kv (nth 2 (mand_cards w 0) []) (s2l "NAXIS  ") (s2l "2")); [discriminate|].
  destruct (check_kw_uint 8 (nth 3 (mand_cards w 0) []) (s2l "NAXIS1  ")) as [e|nbytes]; [discriminate|].
  rewrite (naxis2_card nrows Hn).
  destruct (check_kv (nth 5 (mand_cards w 0) []) (s2l "PCOUNT  ") (s2l "0")); [discriminate|].
  destruct (check_kv (nth 6 (mand_cards w 0) []) (s2l "GCOUNT  ") (s2l "1")); [discriminate|].
  destruct (check_kv (nth 7 (mand_cards w 0) []) (s2l "TFIELDS ") (s2l "1")); [discriminate|].
  apply N.eqb_eq in HF. subst nbytes.
  assert (SK : skipn 8 ((mand_cards w nrows ++ tail) ++ repeat blank (36 - List.length (mand_cards w nrows ++ tail)))
               = nuniq_cards w d ++ [pad80 (s2l "END")] ++ repeat blank 18).
  { unfold tail. reflexivity. }
  rewrite SK.
  destruct (nuniq_tail_loop w d 18 Hw Hd256) as [m [K1 [K2 K3]]].
  cbn [kw_blocks]. rewrite K1, K2, K3.
  rewrite N.min_l by exact Hd.
  fold nb. unfold nrows. rewrite <- Ulen.
  rewrite (read_nuniq_cells w nb d Hw eq_refl Hd ucells _ [] pad Uok).
  - reflexivity.
  - rewrite app_length. unfold data.
    assert (NB : (0 < nb)%nat) by (unfold nb; destruct Hw as [->|[->| ->]]; vm_compute; lia).
    assert (LB : (List.length ucells <= List.length (flat_map (ubytes nb) ucells))%nat).
    { clear - NB. induction ucells as [|c t IH]; [cbn; lia|]. cbn [flat_map List.length]. rewrite app_length. unfold ubytes at 1.
      rewrite be_bytes_length. lia. }
    lia.
Qed.

(** the cells returned are the cells written, sorted by the reader (flat_cmp) *)
Lemma insert_c_perm c l : Permutation (insert_c c l) (c :: l).
Proof.
  induction l as [|y t IH]; cbn [insert_c]; [reflexivity|].
  destruct (cell_low Hpx c y); [reflexivity|].
  eapply Permutation_trans; [apply perm_skip; exact IH|apply perm_swap].
Qed.
Lemma isort_c_perm l : Permutation (fold_right insert_c [] l) l.
Proof.
  induction l as [|x t IH]; [constructor|]. cbn [fold_right].
  eapply Permutation_trans; [apply insert_c_perm|]. constructor. exact IH.
Qed.
Lemma insert_c_sorted c l : Sorted.Sorted (fun a b => cell_low Hpx a b = true) l ->
  Sorted.Sorted (fun a b => cell_low Hpx a b = true) (insert_c c l).
Proof.
  induction l as [|y t IH]; intros H; cbn [insert_c]; [repeat constructor|].
  destruct (cell_low Hpx c y) eqn:E.
  - constructor; [exact H|constructor; exact E].
  - inversion H as [|? ? Hs Hh]; subst. constructor; [apply IH; exact Hs|].
    assert (T : cell_low Hpx y c = true) by (unfold cell_low in *; apply flat_leb_total; exact E).
    destruct t as [|z t]; cbn [insert_c].
    + constructor. exact T.
    + destruct (cell_low Hpx c z); constructor; [exact T|inversion Hh; assumption].
Qed.
Lemma isort_c_sorted l : Sorted.Sorted (fun a b => cell_low Hpx a b = true) (fold_right insert_c [] l).
Proof. induction l as [|x t IH]; [constructor|]. cbn [fold_right]. apply insert_c_sorted. exact IH. Qed.

Theorem nuniq_cells_sorted_permutation d cells : Forall (fun c : cell => fst c <= d) cells ->
  Permutation (fold_right insert_c [] (regroupc d cells)) cells /\
  Sorted.Sorted (fun a b => cell_low Hpx a b = true) (fold_right insert_c [] (regroupc d cells)).
Proof.
  intros H. split; [|apply isort_c_sorted].
  eapply Permutation_trans; [apply isort_c_perm|apply regroupc_perm; exact H].
Qed.
