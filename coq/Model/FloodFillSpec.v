(** Model/FloodFillSpec.v — from the reachability classes computed by the flood fill (FloodFillProofs.v,
    split_components) to the property's definition on the FLAT cell set (Model/Neigh.v, SplitOK):
    when the external edge of a cell is "the depth-dmax neighbours of its sub-cells that are not sub-cells"
    (ext_of nb), the adjacency nb is symmetric and the sub-cells of a cell are connected, the flattened
    components are non-empty, pairwise disjoint, cover exactly the MOC, are pairwise non-adjacent and each
    connected. *)
From Coq Require Import List NArith Arith Lia Bool Permutation Sorted.
From MOC.Model Require Import FloodFill FloodFillProofs.
Import ListNotations.
Open Scope N_scope.

Lemma nseqN_in : forall n a x, In x (nseqN a n) <-> a <= x < a + N.of_nat n.
Proof.
  induction n as [|n IH]; intros a x; cbn [nseqN In].
  - split; [tauto|lia].
  - rewrite IH. split; [intros [H|H]|intros H; destruct (N.eq_dec a x); [left; assumption|right]]; lia.
Qed.

Section Flat.
  Variable nb : N -> list N.
  Variable maxd dmax : N.
  Hypothesis Hmaxd : maxd <= 64.
  Hypothesis Hdmax : dmax <= maxd.

  Definition subs (c : N * N) : list N :=
    let k := 4 ^ (dmax - fst c) in nseqN (snd c * k) (N.to_nat k).
  Definition flatc (comp : list (N * N)) : list N := flat_map subs comp.

  Lemma in_subs c x : In x (subs c) <-> contains dmax c x.
  Proof.
    unfold subs, contains. cbv zeta. rewrite nseqN_in, N2Nat.id.
    set (k := 4 ^ (dmax - fst c)). assert (Hk : k <> 0) by (apply N.pow_nonzero; lia). clearbody k.
    split.
    - intros H. symmetry. remember (snd c * k) as m eqn:Em. apply (N.div_unique x k (snd c) (x - m)); [lia|rewrite (N.mul_comm k), <- Em; lia].
    - intros <-. pose proof (N.div_mod x k Hk) as D. pose proof (N.mod_lt x k Hk) as M.
      remember (x / k) as q. remember (x mod k) as r. rewrite (N.mul_comm k) in D. remember (q * k) as m. lia.
  Qed.

  Lemma subs_nonempty c : subs c <> [].
  Proof.
    unfold subs. cbv zeta. set (k := 4 ^ (dmax - fst c)).
    assert (Hk : k <> 0) by (apply N.pow_nonzero; lia).
    destruct (N.to_nat k) eqn:E; [lia|discriminate].
  Qed.

  Lemma ext_of_spec a x : In x (ext_of nb dmax (fst a) (snd a)) <->
    ~ contains dmax a x /\ exists y, contains dmax a y /\ In x (nb y).
  Proof.
    unfold ext_of. cbv zeta. rewrite filter_In, in_flat_map.
    fold (subs a). set (k := 4 ^ (dmax - fst a)).
    assert (Hin : (snd a * k <=? x) && (x <? (snd a + 1) * k) = true <-> contains dmax a x).
    { rewrite <- in_subs. unfold subs. cbv zeta. fold k. rewrite nseqN_in, N2Nat.id.
      rewrite andb_true_iff, N.leb_le, N.ltb_lt. lia. }
    split.
    - intros [[y [Hy1 Hy2]] Hf]. split.
      + intros Hc. apply Hin in Hc. rewrite Hc in Hf. discriminate.
      + exists y. split; [apply in_subs; exact Hy1|exact Hy2].
    - intros [Hn [y [Hy1 Hy2]]]. split.
      + exists y. split; [apply in_subs; exact Hy1|exact Hy2].
      + apply negb_true_iff. apply not_true_is_false. intros E. apply Hn. apply Hin. exact E.
  Qed.
End Flat.

From MOC.Model Require Import Neigh.

Section FlatSpec.
  Variable nb : N -> list N.
  Variable maxd dmax : N.
  Hypothesis Hmaxd : maxd <= 64.
  Hypothesis Hdmax : dmax <= maxd.
  Notation fcell := ((N * N) * bool)%type.
  Let ext := ext_of nb dmax.
  Let in_subs' := in_subs maxd dmax Hmaxd Hdmax.
  Let ext_spec' := ext_of_spec nb maxd dmax Hmaxd Hdmax.
  Let subs_ne' := subs_nonempty maxd dmax Hmaxd Hdmax.
  Variable D : N -> Prop.                      (* the cells of depth dmax that exist *)
  Hypothesis nb_sym : forall x y, D y -> In x (nb y) -> In y (nb x).
  Hypothesis cell_conn_first : forall c, fst c <= dmax -> (forall x, contains dmax c x -> D x) ->
    Connected nb (subs dmax c).

  Definition CellsOK (cells : list (N * N)) : Prop :=
    Forall (fun c => fst c <= dmax) cells /\ NoDup cells /\
    (forall a b x, In a cells -> In b cells -> a <> b -> contains dmax a x -> ~ contains dmax b x) /\
    (forall c x, In c cells -> contains dmax c x -> D x).

  Lemma Reach_mono P Q a b : (forall x, In x P -> In x Q) -> Reach nb P a b -> Reach nb Q a b.
  Proof. intros H R. induction R as [Ha|b c Hab IH Hc HcP]; [constructor; auto|]. eapply reach_step; eauto. Qed.
  Lemma Reach_trans P a b c : Reach nb P a b -> Reach nb P b c -> Reach nb P a c.
  Proof. intros H1 H2. induction H2 as [Hb|c d Hbc IH Hd HdP]; [exact H1|]. eapply reach_step; eauto. Qed.

  Lemma Reach_in P a b : Reach nb P a b -> In a P /\ In b P.
  Proof. induction 1 as [Ha|b c Hab [IH1 IH2] Hc HcP]; auto. Qed.

  Lemma Reach_sym P a b : (forall x, In x P -> D x) -> Reach nb P a b -> Reach nb P b a.
  Proof.
    intros HD R. induction R as [Ha|b c Hab IH Hc HcP]; [constructor; exact Ha|].
    destruct (Reach_in _ _ _ Hab) as [_ HbP].
    eapply Reach_trans; [|exact IH]. eapply reach_step; [constructor; exact HcP| |exact HbP].
    apply nb_sym; [apply HD; exact HbP|exact Hc].
  Qed.

  Lemma cell_conn c y y' : fst c <= dmax -> (forall x, contains dmax c x -> D x) ->
    In y (subs dmax c) -> In y' (subs dmax c) -> Reach nb (subs dmax c) y y'.
  Proof.
    intros Hc HD Hy Hy'. pose proof (cell_conn_first c Hc HD) as Hcon.
    destruct (subs dmax c) as [|c0 r] eqn:E; [destruct Hy|]. cbn [Connected] in Hcon.
    assert (HDP : forall x, In x (c0 :: r) -> D x) by (intros x Hx; apply HD; apply in_subs'; rewrite E; exact Hx).
    eapply Reach_trans; [apply (Reach_sym _ _ _ HDP); apply Hcon; exact Hy|apply Hcon; exact Hy'].
  Qed.

  Lemma in_flatc comp x : In x (flatc dmax comp) <-> exists c, In c comp /\ contains dmax c x.
  Proof.
    unfold flatc. rewrite in_flat_map. split; intros [c [H1 H2]]; exists c; (split; [exact H1|]); apply in_subs'; exact H2.
  Qed.

  Lemma comp_in (l' : list fcell) b : In b (map fst (filter (fun e => snd e) l')) <-> is_flagged l' b.
  Proof.
    unfold is_flagged. rewrite in_map_iff. split.
    - intros [[c f] [E H]]. apply filter_In in H. cbn [fst snd] in *. destruct H as [H1 H2]. subst. exact H1.
    - intros H. exists (b, true). split; [reflexivity|]. apply filter_In. split; [exact H|reflexivity].
  Qed.
  Lemma rest_in (l' : list fcell) b : In b (map fst (filter (fun e => negb (snd e)) l')) <-> In (b, false) l'.
  Proof.
    rewrite in_map_iff. split.
    - intros [[c f] [E H]]. apply filter_In in H. cbn [fst snd] in *. destruct H as [H1 H2]. subst. destruct f; [discriminate|exact H1].
    - intros H. exists (b, false). split; [reflexivity|]. apply filter_In. split; [exact H|reflexivity].
  Qed.

  Lemma flags_exclusive (l' : list fcell) b : NoDup (map fst l') -> In (b, true) l' -> In (b, false) l' -> False.
  Proof.
    induction l' as [|e r IH]; intros Hn H1 H2; [destruct H1|].
    cbn [map] in Hn. inversion Hn as [|? ? Hx Hr]; subst.
    destruct H1 as [H1|H1], H2 as [H2|H2].
    - congruence.
    - subst e. apply Hx. cbn [fst]. apply (in_map fst) in H2. exact H2.
    - subst e. apply Hx. cbn [fst]. apply (in_map fst) in H1. exact H1.
    - apply IH; assumption.
  Qed.

  Lemma nodup_map_filter (f : fcell -> bool) : forall l' : list fcell, NoDup (map fst l') -> NoDup (map fst (filter f l')).
  Proof.
    induction l' as [|e r IH]; intros H; [constructor|]. cbn [map] in H. inversion H as [|? ? Hx Hr]; subst.
    cbn [filter]. destruct (f e); [|apply IH; exact Hr]. cbn [map]. constructor; [|apply IH; exact Hr].
    intros Hin. apply Hx. apply in_map_iff in Hin. destruct Hin as [y [E Hy]]. apply filter_In in Hy. rewrite <- E. apply in_map. tauto.
  Qed.

  Lemma cells_split (l' : list fcell) b : In b (map fst l') <-> is_flagged l' b \/ In (b, false) l'.
  Proof.
    unfold is_flagged. rewrite in_map_iff. split.
    - intros [[c f] [E H]]. cbn [fst] in E. subst c. destruct f; [left|right]; exact H.
    - intros [H|H]; eexists; (split; [|exact H]); reflexivity.
  Qed.

  Definition NoShare (A B : list (N * N)) : Prop := forall b, In b A -> ~ In b B.
  Definition NonAdj2 (A B : list (N * N)) : Prop :=
    NonAdjacent nb (flatc dmax A) (flatc dmax B) /\ NonAdjacent nb (flatc dmax B) (flatc dmax A).

  Lemma spec_facts cells comps : CellsOK cells -> SplitSpec dmax ext cells comps ->
    (forall comp, In comp comps -> comp <> [] /\ (forall b, In b comp -> In b cells)) /\
    (forall b, In b cells -> exists comp, In comp comps /\ In b comp) /\
    ForallOrdPairs NoShare comps /\
    ForallOrdPairs NonAdj2 comps /\
    (forall comp, In comp comps -> Connected nb (flatc dmax comp)).
  Proof.
    intros Hok HS. induction HS as [|a t l' comps' Hfst Hflag HS' IH].
    - split; [intros comp []|]. split; [intros b []|]. split; [constructor|]. split; [constructor|intros comp []].
    - destruct Hok as [Hdep [Hnd [Hpd Hdom]]].
      set (comp := map fst (filter (fun e => snd e) l')) in *.
      set (rest := map fst (filter (fun e => negb (snd e)) l')) in *.
      assert (Hnd' : NoDup (map fst l')) by (rewrite Hfst; exact Hnd).
      assert (Hrest_sub : forall b, In b rest -> In b (a :: t)).
      { intros b Hb. apply rest_in in Hb. rewrite <- Hfst. apply (in_map fst) in Hb. exact Hb. }
      assert (Hokr : CellsOK rest).
      { split; [|split; [|split]].
        - rewrite Forall_forall in *. intros c Hc. apply Hdep. apply Hrest_sub. exact Hc.
        - apply nodup_map_filter. exact Hnd'.
        - intros x y z Hx Hy. apply Hpd; apply Hrest_sub; assumption.
        - intros c x Hc. apply Hdom. apply Hrest_sub. exact Hc. }
      destruct (IH Hokr) as [I1 [I2 [I3 [I4 I5]]]].
      assert (Hcomp_sub : forall b, In b comp -> In b (a :: t)).
      { intros b Hb. apply comp_in in Hb. apply Hflag in Hb. tauto. }
      assert (Ha_flag : is_flagged l' a).
      { apply Hflag. split; [left; reflexivity|]. constructor. left. reflexivity. }
      assert (Hlater : forall comp', In comp' comps' -> forall b, In b comp' -> In b rest) by (intros comp' Hc b Hb; apply (proj2 (I1 comp' Hc)); exact Hb).
      assert (Hexcl : forall b, In b comp -> In b rest -> False).
      { intros b H1 H2. apply comp_in in H1. apply rest_in in H2. exact (flags_exclusive l' b Hnd' H1 H2). }
      (* a cell of the component and a cell left aside are never adjacent *)
      assert (Hna : forall a1 b1 y n, In a1 comp -> In b1 rest -> contains dmax a1 y -> contains dmax b1 n -> In n (nb y) -> False).
      { intros a1 b1 y n Ha1 Hb1 Hy Hn Hnb.
        assert (Hne : a1 <> b1) by (intros ->; exact (Hexcl b1 Ha1 Hb1)).
        assert (Hnot : ~ contains dmax a1 n).
        { intros Z. apply (Hpd a1 b1 n (Hcomp_sub _ Ha1) (Hrest_sub _ Hb1) Hne Z Hn). }
        assert (HR : Rel1 dmax ext a1 b1).
        { exists n. split; [|exact Hn]. unfold ext. apply (ext_spec' a1 n). split; [exact Hnot|]. exists y. split; assumption. }
        apply (Hexcl b1); [|exact Hb1]. apply comp_in. apply Hflag. split; [apply Hrest_sub; exact Hb1|].
        apply comp_in in Ha1. apply Hflag in Ha1. destruct Ha1 as [_ Ha1].
        eapply RI_step; [exact Ha1|apply Hrest_sub; exact Hb1|exact HR]. }
      split; [|split; [|split; [|split]]].
      + intros c [<-|Hc].
        * split; [|exact Hcomp_sub]. intros Z. apply comp_in in Ha_flag. fold comp in Ha_flag. rewrite Z in Ha_flag. destruct Ha_flag.
        * destruct (I1 c Hc) as [J1 J2]. split; [exact J1|]. intros b Hb. apply Hrest_sub. apply J2. exact Hb.
      + intros b Hb. rewrite <- Hfst in Hb. apply cells_split in Hb. destruct Hb as [Hb|Hb].
        * exists comp. split; [left; reflexivity|apply comp_in; exact Hb].
        * apply rest_in in Hb. destruct (I2 b Hb) as [c [Hc1 Hc2]]. exists c. split; [right; exact Hc1|exact Hc2].
      + constructor; [|exact I3]. apply Forall_forall. intros c Hc b Hb Hb'. apply (Hexcl b Hb). apply (Hlater c Hc). exact Hb'.
      + constructor; [|exact I4]. apply Forall_forall. intros c Hc. split.
        * intros y n Hy Hn Hnin. apply in_flatc in Hy. destruct Hy as [a1 [Ha1 Hy]].
          apply in_flatc in Hnin. destruct Hnin as [b1 [Hb1 Hnb1]].
          apply (Hna a1 b1 y n Ha1 (Hlater c Hc b1 Hb1) Hy Hnb1 Hn).
        * intros y n Hy Hn Hnin. apply in_flatc in Hy. destruct Hy as [b1 [Hb1 Hy]].
          apply in_flatc in Hnin. destruct Hnin as [a1 [Ha1 Hna1]].
          apply (Hna a1 b1 n y Ha1 (Hlater c Hc b1 Hb1) Hna1 Hy). apply nb_sym; [|exact Hn]. apply (Hdom b1 y (Hrest_sub _ (Hlater c Hc b1 Hb1)) Hy).
      + intros c [<-|Hc]; [|apply I5; exact Hc].
        (* the component is connected: its flat cells are reachable from the first sub-cell of a *)
        assert (Hhead : exists r, filter (fun e : fcell => snd e) l' = (a, true) :: r).
        { destruct l' as [|e0 r0]; [discriminate|]. cbn [map] in Hfst. inversion Hfst as [[E0 E1]].
          destruct e0 as [c0 f0]. cbn [fst] in E0. subst c0. destruct f0.
          - cbn [filter snd]. eexists. reflexivity.
          - exfalso. apply (flags_exclusive ((a, false) :: r0) a); [exact Hnd'|exact Ha_flag|left; reflexivity]. }
        destruct Hhead as [r Er]. unfold comp. rewrite Er. cbn [map fst flatc flat_map].
        destruct (subs dmax a) as [|c0 sa] eqn:Esa; [exfalso; exact (subs_ne' a Esa)|].
        cbn [app Connected].
        assert (Hflat_comp : forall x, In x ((c0 :: sa) ++ flat_map (subs dmax) (map fst r)) <-> In x (flatc dmax comp)).
        { intros x. unfold comp. rewrite Er. cbn [map fst flatc flat_map]. rewrite Esa. reflexivity. }
        assert (Hc0 : contains dmax a c0) by (apply in_subs'; rewrite Esa; left; reflexivity).
        assert (Hadep : fst a <= dmax) by (rewrite Forall_forall in Hdep; apply Hdep; left; reflexivity).
        (* every cell reachable from a has all its sub-cells reachable from c0 *)
        assert (Hall : forall b, ReachIn dmax ext (a :: t) a b -> forall x, contains dmax b x ->
                                 Reach nb (flatc dmax comp) c0 x).
        { intros b HR. induction HR as [Ha|b1 b2 H12 IH12 Hb2 HRel]; intros x Hx.
          - apply (Reach_mono (subs dmax a)); [|apply cell_conn; [exact Hadep|intros z Hz; apply (Hdom a z); [left; reflexivity|exact Hz]|apply in_subs'; exact Hc0|apply in_subs'; exact Hx]].
            intros z Hz. apply in_flatc. exists a. split; [apply comp_in; exact Ha_flag|apply in_subs'; exact Hz].
          - assert (Hb2f : In b2 comp).
            { apply comp_in. apply Hflag. split; [exact Hb2|]. eapply RI_step; [exact H12|exact Hb2|exact HRel]. }
            destruct HRel as [n [Hn1 Hn2]]. unfold ext in Hn1. apply (ext_spec' b1 n) in Hn1. destruct Hn1 as [_ [y [Hy1 Hy2]]].
            assert (Hb2dep : fst b2 <= dmax) by (rewrite Forall_forall in Hdep; apply Hdep; exact Hb2).
            eapply Reach_trans; [eapply reach_step; [apply (IH12 y Hy1)|exact Hy2|apply in_flatc; exists b2; split; [exact Hb2f|exact Hn2]]|].
            apply (Reach_mono (subs dmax b2)); [|apply cell_conn; [exact Hb2dep|intros z Hz; apply (Hdom b2 z Hb2 Hz)|apply in_subs'; exact Hn2|apply in_subs'; exact Hx]].
            intros z Hz. apply in_flatc. exists b2. split; [exact Hb2f|apply in_subs'; exact Hz]. }
        intros x Hx. apply Hflat_comp in Hx. apply in_flatc in Hx. destruct Hx as [b [Hb1 Hb2]].
        apply (Reach_mono (flatc dmax comp)); [intros z Hz; apply Hflat_comp; exact Hz|].
        apply comp_in in Hb1. apply Hflag in Hb1. destruct Hb1 as [_ Hb1]. apply (Hall b Hb1 x Hb2).
  Qed.

  Lemma fop_pairwise {A} (S : A -> A -> Prop) (R : list N -> list N -> Prop) (f : A -> list N) : forall l,
    ForallOrdPairs S l -> (forall x y, In x l -> In y l -> S x y -> R (f x) (f y) /\ R (f y) (f x)) ->
    Pairwise R (map f l).
  Proof.
    induction 1 as [|a t Ha Ht IH]; intros H; cbn [map Pairwise]; [exact I|]. split.
    - intros p' Hp'. apply in_map_iff in Hp'. destruct Hp' as [y [<- Hy]]. rewrite Forall_forall in Ha.
      apply H; [left; reflexivity|right; exact Hy|apply Ha; exact Hy].
    - apply IH. intros x y Hx Hy. apply H; right; assumption.
  Qed.

  (** the flood fill meets the property's definition on the flat cell set *)
  Theorem split_flat_ok cells comps : CellsOK cells -> SplitSpec dmax ext cells comps ->
    SplitOK nb (flatc dmax cells) (map (flatc dmax) comps).
  Proof.
    intros Hok HS. destruct (spec_facts cells comps Hok HS) as [P1 [P2 [P3 [P4 P5]]]].
    destruct Hok as [Hdep [Hnd [Hpd Hdom]]].
    constructor.
    - intros p Hp. apply in_map_iff in Hp. destruct Hp as [comp [<- Hc]]. destruct (P1 comp Hc) as [Hne _].
      destruct comp as [|b r]; [congruence|]. unfold flatc. cbn [flat_map]. intros Z. apply app_eq_nil in Z. destruct Z as [Z _].
      exact (subs_ne' b Z).
    - intros c. rewrite in_flatc. split.
      + intros [b [Hb1 Hb2]]. destruct (P2 b Hb1) as [comp [Hc1 Hc2]]. exists (flatc dmax comp). split; [apply in_map; exact Hc1|].
        apply in_flatc. exists b. split; assumption.
      + intros [p [Hp1 Hp2]]. apply in_map_iff in Hp1. destruct Hp1 as [comp [<- Hc]]. apply in_flatc in Hp2. destruct Hp2 as [b [Hb1 Hb2]].
        exists b. split; [apply (proj2 (P1 comp Hc)); exact Hb1|exact Hb2].
    - apply (fop_pairwise NoShare Disjoint (flatc dmax) comps P3). intros A B HA HB HAB.
      assert (G : forall x a b, In a A -> In b B -> contains dmax a x -> contains dmax b x -> False).
      { intros x a b Ha Hb Ca Cb. apply (Hpd a b x (proj2 (P1 A HA) a Ha) (proj2 (P1 B HB) b Hb)); [|exact Ca|exact Cb].
        intros ->. exact (HAB b Ha Hb). }
      split; intros x Hx Hx'; apply in_flatc in Hx; apply in_flatc in Hx'; destruct Hx as [a [Ha Ca]]; destruct Hx' as [b [Hb Cb]].
      + exact (G x a b Ha Hb Ca Cb).
      + exact (G x b a Hb Ha Cb Ca).
    - apply (fop_pairwise NonAdj2 (NonAdjacent nb) (flatc dmax) comps P4). intros A B _ _ [H1 H2]. split; assumption.
    - intros p Hp. apply in_map_iff in Hp. destruct Hp as [comp [<- Hc]]. apply P5. exact Hc.
  Qed.
End FlatSpec.

Section EndToEnd.
  Variable nb : N -> list N.
  Variable maxd dmax : N.
  Hypothesis Hmaxd : maxd <= 64.
  Hypothesis Hdmax : dmax <= maxd.
  Variable D : N -> Prop.
  Hypothesis nb_sym : forall x y, D y -> In x (nb y) -> In y (nb x).
  Hypothesis cell_conn_first : forall c, fst c <= dmax -> (forall x, contains dmax c x -> D x) ->
    Connected nb (subs dmax c).

  (** the flood fill as written, fed with the cells of a MOC (sorted by zuniq, pairwise non-overlapping, of depth
      <= dmax, inside the domain) and with external edges = the outside neighbours of the sub-cells, returns
      parts that meet the property's definition on the flat cell set: non-empty, pairwise disjoint, covering
      exactly the MOC, pairwise non-adjacent, each connected *)
  Theorem split_meets_definition cells :
    Forall (fun c => fst c <= dmax) cells ->
    StronglySorted N.lt (map (zun maxd) cells) ->
    ForallOrdPairs (disj maxd) cells ->
    (forall c x, In c cells -> contains dmax c x -> D x) ->
    exists comps, ff_split maxd dmax (ext_of nb dmax) cells = Some comps /\
                  SplitOK nb (flatc dmax cells) (map (flatc dmax) comps).
  Proof.
    intros H1 H2 H3 H4.
    destruct (split_components maxd dmax Hmaxd Hdmax (ext_of nb dmax) cells H1 H2 H3) as [comps [C1 C2]].
    exists comps. split; [exact C1|].
    apply (split_flat_ok nb maxd dmax Hmaxd Hdmax D nb_sym cell_conn_first cells comps); [|exact C2].
    split; [exact H1|]. split; [|split; [|exact H4]].
    - assert (Hn : NoDup (map (zun maxd) cells)).
      { clear - H2. induction H2 as [|a t Ht IH Ha]; constructor; [|exact IH].
        intros Hin. rewrite Forall_forall in Ha. specialize (Ha a Hin). lia. }
      apply (NoDup_map_inv _ _ Hn).
    - intros a b x Ha Hb Hne Ca Cb. rewrite Forall_forall in H1.
      destruct (ForallOrdPairs_In H3 a b Ha Hb) as [E|[E|E]]; [congruence| |].
      + exact (not_container maxd dmax Hmaxd Hdmax a b x (H1 a Ha) (H1 b Hb) E Ca Cb).
      + exact (not_container maxd dmax Hmaxd Hdmax b a x (H1 b Hb) (H1 a Ha) E Cb Ca).
  Qed.
End EndToEnd.

(** ---------- the two hypotheses hold for the adjacency of the model at the depths explored (finite sweeps) ---------- *)
Definition conn_checkb (nb : N -> list N) (dmax : N) : bool :=
  forallb (fun d => forallb (fun i => match connectedb nb (subs dmax (d, i)) with Yes => true | _ => false end)
                            (nseq 0 (N.to_nat (12 * 4 ^ d))))
          (nseq 0 (S (N.to_nat dmax))).

Lemma conn_check_sound nb dmax : conn_checkb nb dmax = true ->
  forall c, fst c <= dmax -> snd c < 12 * 4 ^ fst c -> Connected nb (subs dmax c).
Proof.
  intros H [d i] Hd Hi. cbn [fst snd] in *. unfold conn_checkb in H. rewrite forallb_forall in H.
  specialize (H d ltac:(apply in_nseq; lia)). rewrite forallb_forall in H.
  specialize (H i ltac:(apply in_nseq; lia)).
  destruct (connectedb nb (subs dmax (d, i))) eqn:E; try discriminate. apply connectedb_yes. exact E.
Qed.

Lemma nb8_conn_shallow : forall d, (d <= 3)%nat -> conn_checkb (nb8 d) (N.of_nat d) = true.
Proof. intros d Hd. do 4 (destruct d as [|d]; [vm_compute; reflexivity|]). lia. Qed.
Lemma nb4_conn_shallow : forall d, (d <= 3)%nat -> conn_checkb (nb4 d) (N.of_nat d) = true.
Proof. intros d Hd. do 4 (destruct d as [|d]; [vm_compute; reflexivity|]). lia. Qed.

Lemma symb_sym nb cells : symb nb cells = true -> forall x y, In y cells -> In x (nb y) -> In y (nb x).
Proof.
  unfold symb. rewrite forallb_forall. intros H x y Hy Hx. specialize (H y Hy). rewrite forallb_forall in H.
  specialize (H x Hx). apply andb_prop in H. destruct H as [H _]. apply memb_spec in H. exact H.
Qed.

Lemma contained_in_domain dmax c x : fst c <= dmax -> snd c < 12 * 4 ^ fst c -> contains dmax c x -> x < 12 * 4 ^ dmax.
Proof.
  intros Hd Hi Hc. unfold contains in Hc.
  assert (E : 4 ^ dmax = 4 ^ fst c * 4 ^ (dmax - fst c)) by (rewrite <- N.pow_add_r; f_equal; lia). rewrite E.
  set (k := 4 ^ (dmax - fst c)) in *. assert (Hk : k <> 0) by (apply N.pow_nonzero; lia).
  pose proof (N.div_mod x k Hk) as Dm. pose proof (N.mod_lt x k Hk) as Ml. rewrite Hc in Dm.
  remember (4 ^ fst c) as p. remember (x mod k) as r. clearbody k. nia.
Qed.

(** the flood fill meets the property's definition for the edge-only and the edge-or-vertex adjacency of the
    model, at every depth <= 3 and for every index width (maxd = 6, 13, 29) *)
Theorem split_meets_definition_shallow : forall (d : nat) (indirect : bool) maxd cells,
  (d <= 3)%nat -> maxd <= 64 -> N.of_nat d <= maxd ->
  let nb := if indirect then nb8 d else nb4 d in
  let dmax := N.of_nat d in
  Forall (fun c => fst c <= dmax /\ snd c < 12 * 4 ^ fst c) cells ->
  StronglySorted N.lt (map (zun maxd) cells) ->
  ForallOrdPairs (disj maxd) cells ->
  exists comps, ff_split maxd dmax (ext_of nb dmax) cells = Some comps /\
                SplitOK nb (flatc dmax cells) (map (flatc dmax) comps).
Proof.
  intros d indirect maxd cells Hd Hm Hdm nb dmax Hc Hs Hp.
  set (D := fun x : N => In x (all_cells d)).
  assert (HD : forall x, D x <-> x < 12 * 4 ^ dmax).
  { intros x. unfold D, all_cells, dmax. rewrite in_nseq, N2Nat.id. lia. }
  assert (Hsym : forall x y, D y -> In x (nb y) -> In y (nb x)).
  { intros x y Hy Hx. unfold nb in *. destruct indirect.
    - apply (symb_sym (nb8 d) (all_cells d) (nb8_symmetric_shallow d Hd) x y Hy Hx).
    - apply (symb_sym (nb4 d) (all_cells d) (nb4_symmetric_shallow d Hd) x y Hy Hx). }
  assert (Hconn : forall c, fst c <= dmax -> (forall x, contains dmax c x -> D x) -> Connected nb (subs dmax c)).
  { intros c Hcd Hdom.
    assert (Hi : snd c < 12 * 4 ^ fst c).
    { set (k := 4 ^ (dmax - fst c)). assert (Hk : k <> 0) by (apply N.pow_nonzero; lia).
      assert (Hx : contains dmax c (snd c * k)) by (unfold contains; fold k; apply N.div_mul; exact Hk).
      apply Hdom, HD in Hx.
      assert (E : 4 ^ dmax = 4 ^ fst c * 4 ^ (dmax - fst c)) by (rewrite <- N.pow_add_r; f_equal; lia). rewrite E in Hx. fold k in Hx.
      remember (4 ^ fst c) as p. clearbody k. nia. }
    unfold nb, dmax in *. destruct indirect.
    - apply (conn_check_sound (nb8 d) (N.of_nat d) (nb8_conn_shallow d Hd) c Hcd Hi).
    - apply (conn_check_sound (nb4 d) (N.of_nat d) (nb4_conn_shallow d Hd) c Hcd Hi). }
  apply (split_meets_definition nb maxd dmax Hm Hdm D Hsym Hconn cells); [|exact Hs|exact Hp|].
  - eapply Forall_impl; [|exact Hc]. intros c [H _]. exact H.
  - intros c x Hin Hx. apply HD. rewrite Forall_forall in Hc. destruct (Hc c Hin) as [H1 H2].
    exact (contained_in_domain dmax c x H1 H2 Hx).
Qed.

(** ---------- hole filling: adding any of the parts of the complement only adds whole components ---------- *)
Section Fill.
  Variable nb : N -> list N.

  Lemma pairwise_pick (R : list N -> list N -> Prop) : forall l p p', Pairwise R l -> In p l -> In p' l -> p <> p' -> R p p'.
  Proof.
    induction l as [|a t IH]; intros p p' H Hp Hp' Hne; [destruct Hp|].
    cbn [Pairwise] in H. destruct H as [H1 H2].
    destruct Hp as [<-|Hp], Hp' as [<-|Hp'].
    - congruence.
    - apply (H1 p' Hp').
    - apply (H1 p Hp).
    - apply (IH p p' H2 Hp Hp' Hne).
  Qed.

  Theorem fill_from_split (M Cmp : list N) (parts sel : list (list N)) :
    SplitOK nb Cmp parts ->
    (forall p, In p sel -> In p parts) ->
    (forall c n, In c Cmp -> In n (nb c) -> In n M \/ In n Cmp) ->
    FillOK nb M (M ++ concat sel).
  Proof.
    intros [S1 S2 S3 S4 S5] Hsel Hclosed. split.
    - intros c Hc. apply in_or_app. left. exact Hc.
    - intros c n Hc HnM Hn. apply in_app_or in Hc. destruct Hc as [Hc|Hc]; [contradiction|].
      apply in_concat in Hc. destruct Hc as [P [HP HcP]].
      assert (HcC : In c Cmp) by (apply S2; exists P; split; [apply Hsel; exact HP|exact HcP]).
      destruct (Hclosed c n HcC Hn) as [HnM'|HnC]; [apply in_or_app; left; exact HnM'|].
      apply S2 in HnC. destruct HnC as [P' [HP' HnP']].
      apply in_or_app. right. apply in_concat. exists P. split; [exact HP|].
      destruct (list_eq_dec N.eq_dec P P') as [E|E]; [rewrite E; exact HnP'|].
      exfalso. apply (pairwise_pick (NonAdjacent nb) parts P P' S4 (Hsel P HP) HP' E c n HcP Hn HnP').
  Qed.
End Fill.

Lemma insert_desc_in dmax x l y : In y (insert_desc dmax x l) <-> y = x \/ In y l.
Proof.
  induction l as [|z t IH]; cbn [insert_desc In]; [split; intros [H|H]; auto|].
  destruct (_ <=? _); cbn [In]; [split; intros [H|H]; auto|]. rewrite IH. split; intros H; tauto.
Qed.
Lemma sort_desc_in dmax l y : In y (sort_desc dmax l) <-> In y l.
Proof.
  induction l as [|x t IH]; [reflexivity|]. cbn [sort_desc fold_right]. fold (sort_desc dmax t).
  rewrite insert_desc_in, IH. cbn [In]. split; intros [H|H]; auto.
Qed.
Lemma skipn_in {A} (n : nat) : forall (l : list A) y, In y (skipn n l) -> In y l.
Proof. induction n as [|n IH]; intros l y H; [exact H|]. destruct l as [|a t]; [destruct H|]. right. apply IH. exact H. Qed.

Lemma symb_dom nb cells : symb nb cells = true -> forall x y, In y cells -> In x (nb y) -> In x cells.
Proof.
  unfold symb. rewrite forallb_forall. intros H x y Hy Hx. specialize (H y Hy). rewrite forallb_forall in H.
  specialize (H x Hx). apply andb_prop in H. destruct H as [_ H]. apply memb_spec in H. exact H.
Qed.

(** fill_holes / fill_holes_smaller_than as modelled: the result is a superset of the MOC that only adds whole
    connected components of the complement (FillOK), for every MOC of depth <= 3, every index width, every
    number of excepted components and every threshold *)
Theorem fill_meets_definition_shallow : forall (d : nat) maxd (M : list N) cmp_cells,
  (d <= 3)%nat -> maxd <= 64 -> N.of_nat d <= maxd ->
  let nb := nb8 d in
  let dmax := N.of_nat d in
  Forall (fun c => fst c <= dmax /\ snd c < 12 * 4 ^ fst c) cmp_cells ->
  StronglySorted N.lt (map (zun maxd) cmp_cells) ->
  ForallOrdPairs (disj maxd) cmp_cells ->
  (forall x, x < 12 * 4 ^ dmax -> In x M \/ In x (flatc dmax cmp_cells)) ->
  (forall except, exists sel, ff_fill maxd dmax (ext_of nb dmax) cmp_cells except = Some sel /\
                              FillOK nb M (M ++ concat (map (flatc dmax) sel))) /\
  (forall num den, exists sel, ff_fill_smaller maxd dmax (ext_of nb dmax) cmp_cells num den = Some sel /\
                               FillOK nb M (M ++ concat (map (flatc dmax) sel))).
Proof.
  intros d maxd M cmp_cells Hd Hm Hdm nb dmax Hc Hs Hp Hcover.
  destruct (split_meets_definition_shallow d true maxd cmp_cells Hd Hm Hdm Hc Hs Hp) as [comps [C1 C2]].
  fold nb dmax in C1, C2.
  assert (Hclosed : forall c n, In c (flatc dmax cmp_cells) -> In n (nb c) -> In n M \/ In n (flatc dmax cmp_cells)).
  { intros c n Hcin Hn. apply Hcover.
    assert (HD : forall x, In x (all_cells d) <-> x < 12 * 4 ^ dmax).
    { intros x. unfold all_cells, dmax. rewrite in_nseq, N2Nat.id. lia. }
    apply HD. apply (symb_dom (nb8 d) (all_cells d) (nb8_symmetric_shallow d Hd) n c); [|exact Hn].
    apply HD. unfold flatc in Hcin. apply in_flat_map in Hcin. destruct Hcin as [b [Hb1 Hb2]].
    rewrite Forall_forall in Hc. destruct (Hc b Hb1) as [H1 H2].
    apply (contained_in_domain dmax b c H1 H2). apply (in_subs maxd dmax Hm Hdm). exact Hb2. }
  assert (G : forall sel, (forall p, In p sel -> In p comps) -> FillOK nb M (M ++ concat (map (flatc dmax) sel))).
  { intros sel Hsel. apply (fill_from_split nb M (flatc dmax cmp_cells) (map (flatc dmax) comps) (map (flatc dmax) sel) C2); [|exact Hclosed].
    intros p Hp'. apply in_map_iff in Hp'. destruct Hp' as [q [<- Hq]]. apply in_map. apply Hsel. exact Hq. }
  split.
  - intros except. unfold ff_fill. rewrite C1. eexists. split; [reflexivity|]. apply G.
    intros p Hp'. apply skipn_in in Hp'. apply sort_desc_in in Hp'. exact Hp'.
  - intros num den. unfold ff_fill_smaller. rewrite C1. eexists. split; [reflexivity|]. apply G.
    intros p Hp'. apply filter_In in Hp'. tauto.
Qed.
