(** Model/BuilderSM.v — (F) the buffering state machine of
    src/moc/builder/fixed_depth.rs FixedDepthMocBuilder: [push] (skip a repeat of the last
    cell, track the sorted flag, drain when the buffer reaches its capacity), [drain_buffer]
    (sort unless known sorted, run-length fusion of consecutive cell numbers [buff_to_moc],
    union with the MOC accumulated by earlier flushes), [into_moc].
    sort_unstable is modelled by insertion sort (the sorted permutation of a list of numbers is
    unique).  Theorem: for EVERY sequence of cells, in any order and with any repetitions, and
    EVERY buffer capacity >= 1, the built MOC is the specification [build_cells]. *)
From Coq Require Import List NArith Arith Lia Bool.
From MOC.Base Require Import RangeSet.
From MOC.Model Require Import Qty Build Repr LazyOps.
Import ListNotations.
Open Scope N_scope.

(** ---------- sort ---------- *)
Fixpoint ins (x : N) (l : list N) : list N :=
  match l with [] => [x] | y :: t => if x <=? y then x :: l else y :: ins x t end.
Fixpoint isort (l : list N) : list N := match l with [] => [] | x :: t => ins x (isort t) end.

Fixpoint nd (lo : N) (l : list N) : Prop :=             (* non-decreasing, all >= lo *)
  match l with [] => True | c :: t => lo <= c /\ nd c t end.

Lemma ins_in x l y : In y (ins x l) <-> y = x \/ In y l.
Proof.
  induction l as [|a t IH]; cbn [ins]; [cbn; intuition|]. destruct (x <=? a); cbn [In]; [intuition|]. rewrite IH. intuition.
Qed.
Lemma isort_in l y : In y (isort l) <-> In y l.
Proof. induction l as [|a t IH]; cbn [isort]; [tauto|]. rewrite ins_in, IH. cbn. intuition. Qed.
Lemma nd_weaken l : forall lo lo', lo' <= lo -> nd lo l -> nd lo' l.
Proof. destruct l; cbn; intros; [exact I|]. intuition lia. Qed.
Lemma ins_nd x l : forall lo, lo <= x -> nd lo l -> nd lo (ins x l).
Proof.
  induction l as [|a t IH]; intros lo Hx Hl; cbn [ins]; [cbn; tauto|].
  cbn [nd] in Hl. destruct Hl as [H1 H2]. destruct (N.leb_spec x a) as [C|C]; cbn [nd].
  - repeat split; [exact Hx|exact C|exact H2].
  - split; [exact H1|]. apply IH; [lia|exact H2].
Qed.
Lemma isort_nd l : nd 0 (isort l).
Proof. induction l as [|a t IH]; cbn [isort]; [exact I|]. apply ins_nd; [lia|exact IH]. Qed.

(** ---------- buff_to_moc: run-length fusion of a sorted buffer ---------- *)
Fixpoint fuse (from to : N) (l : list N) : list range :=
  match l with
  | [] => [(from, to)]
  | c :: t =>
      match to ?= c with
      | Eq => fuse from (to + 1) t
      | Lt => (from, to) :: fuse c (c + 1) t
      | Gt => fuse from to t                    (* a repeat of the previous cell *)
      end
  end.
Definition cells_to_ranges (l : list N) : list range :=     (* in cell numbers of the builder depth *)
  match l with [] => [] | c :: t => fuse c (c + 1) t end.

Lemma fuse_spec : forall l from to, from < to -> nd (to - 1) l ->
  sorted_from from (fuse from to l) /\
  forall x, cov (fuse from to l) x <-> (from <= x < to) \/ In x l.
Proof.
  induction l as [|c t IH]; intros from to Hft Hnd; cbn [fuse].
  - split; [cbn; repeat split; [lia|exact Hft]|]. intros x. rewrite cov_cons. unfold inr. cbn.
    split; [intros [H|H]; [left; exact H|destruct (cov_nil _ H)]|intros [H|[]]; left; exact H].
  - cbn [nd] in Hnd. destruct Hnd as [H1 H2]. destruct (N.compare_spec to c) as [E|E|E].
    + subst c. destruct (IH from (to + 1) ltac:(lia) ltac:(replace (to + 1 - 1) with to by lia; exact H2)) as [S Cv].
      split; [exact S|]. intros x. rewrite Cv. cbn [In]. split; [intros [H|H]; [|tauto]|intros [H|[H|H]]]; try (left; lia); try tauto.
      destruct (N.eq_dec x to) as [->|Hne]; [right; left; reflexivity|left; lia].
    + destruct (IH c (c + 1) ltac:(lia) ltac:(replace (c + 1 - 1) with c by lia; exact H2)) as [S Cv]. split.
      * cbn [sorted_from fst snd]. split; [lia|]. split; [exact Hft|]. apply chain_sorted_succ. apply (sorted_from_weaken _ c); [lia|exact S].
      * intros x. rewrite cov_cons, Cv. unfold inr. cbn [fst snd In]. split.
        -- intros [H|[H|H]]; [left; exact H|right; left; lia|right; right; exact H].
        -- intros [H|[H|H]]; [left; exact H|right; left; lia|right; right; exact H].
    + (* c = to - 1 : already inside *)
      destruct (IH from to Hft ltac:(apply (nd_weaken t c); [lia|exact H2])) as [S Cv].
      split; [exact S|]. intros x. rewrite Cv. cbn [In]. split; [tauto|]. intros [H|[H|H]]; [tauto| |tauto]. left. lia.
Qed.

Lemma cells_to_ranges_spec l : nd 0 l ->
  Canon (cells_to_ranges l) /\ forall x, cov (cells_to_ranges l) x <-> In x l.
Proof.
  destruct l as [|c t]; intros Hnd; cbn [cells_to_ranges].
  - split; [exact I|]. intros x. split; [intros H; destruct (cov_nil _ H)|intros []].
  - cbn [nd] in Hnd. destruct Hnd as [_ H2].
    destruct (fuse_spec t c (c + 1) ltac:(lia) ltac:(replace (c + 1 - 1) with c by lia; exact H2)) as [S Cv].
    split; [apply (sorted_from_weaken _ c); [lia|exact S]|]. intros x. rewrite Cv. cbn [In]. split; [intros [H|H]; [left; lia|tauto]|intros [H|H]; [left; lia|tauto]].
Qed.

(** ---------- the builder ---------- *)
Record bst := { buff : list N;            (* newest first *)
                sorted : bool;
                moc : option (list range) }.

Definition new_builder : bst := {| buff := []; sorted := true; moc := None |}.

Definition buff_to_moc (sh : N) (b : list N) : list range := scale sh (cells_to_ranges b).

Definition drain (sh : N) (s : bst) : bst :=
  let b := rev (buff s) in                                  (* in push order *)
  let b := if sorted s then b else isort b in
  let new_moc := buff_to_moc sh b in
  {| buff := []; sorted := true;
     moc := Some (match moc s with Some prev => union prev new_moc | None => new_moc end) |}.

Definition push (sh : N) (cap : nat) (s : bst) (c : N) : bst :=
  match buff s with
  | h :: _ => if h =? c then s
              else let s' := {| buff := c :: buff s; sorted := if sorted s && (c <? h) then false else sorted s; moc := moc s |} in
                   if Nat.eqb (length (buff s')) cap then drain sh s' else s'
  | [] => let s' := {| buff := [c]; sorted := sorted s; moc := moc s |} in
          if Nat.eqb (length (buff s')) cap then drain sh s' else s'
  end.

Definition into_moc (sh : N) (s : bst) : list range :=
  match moc (drain sh s) with Some m => m | None => [] end.

Definition build (sh : N) (cap : nat) (cells : list N) : list range :=
  into_moc sh (fold_left (push sh cap) cells new_builder).

(** ---------- invariant ---------- *)
(** [pushed] = every cell pushed so far; the accumulated MOC and the buffer together hold them *)
Record BInv (sh : N) (pushed : list N) (s : bst) : Prop :=
  { bi_moc : match moc s with Some m => Canon m | None => True end;
    bi_cov : forall c, In c pushed <-> (match moc s with Some m => cov m (c * 2 ^ sh) | None => False end) \/ In c (buff s);
    bi_cells : forall x y, x / 2 ^ sh = y / 2 ^ sh ->
                 (match moc s with Some m => cov m x | None => False end) ->
                 (match moc s with Some m => cov m y | None => False end);
    bi_sorted : sorted s = true -> nd 0 (rev (buff s)) }.

Lemma nd_app_last l : forall lo c, nd lo l -> (forall y, In y l -> y <= c) -> lo <= c -> nd lo (l ++ [c]).
Proof.
  induction l as [|a t IH]; intros lo c Hnd Hle Hlo; cbn [app nd]; [tauto|].
  cbn [nd] in Hnd. destruct Hnd as [H1 H2]. split; [exact H1|]. apply IH; [exact H2|intros y Hy; apply Hle; right; exact Hy|apply Hle; left; reflexivity].
Qed.

Lemma nd_all_ge l : forall lo, nd lo l -> forall y, In y l -> lo <= y.
Proof.
  induction l as [|a t IH]; intros lo H y Hy; [destruct Hy|]. cbn [nd] in H. destruct H as [H1 H2].
  destruct Hy as [<-|Hy]; [exact H1|]. specialize (IH a H2 y Hy). lia.
Qed.
Lemma nd_last_max l : forall lo h, nd lo (l ++ [h]) -> forall y, In y l -> y <= h.
Proof.
  induction l as [|a t IH]; intros lo h H y Hy; [destruct Hy|]. cbn [app nd] in H. destruct H as [H1 H2].
  destruct Hy as [<-|Hy]; [|apply (IH a h H2 y Hy)].
  apply (nd_all_ge (t ++ [h]) a H2 h). apply in_or_app. right. left. reflexivity.
Qed.
Lemma nd_all_le_last l : forall lo, nd lo (rev l) -> forall h t, l = h :: t -> forall y, In y (rev l) -> y <= h.
Proof.
  intros lo Hnd h t -> y Hy. cbn [rev] in *. apply in_app_or in Hy. destruct Hy as [Hy|[<-|[]]]; [|lia].
  apply (nd_last_max (rev t) lo h Hnd y Hy).
Qed.

Lemma scaled_cells_cov sh b x : nd 0 b -> (cov (buff_to_moc sh b) x <-> In (x / 2 ^ sh) b).
Proof. intros Hnd. unfold buff_to_moc. rewrite scale_cov. apply (proj2 (cells_to_ranges_spec b Hnd)). Qed.
Lemma scaled_cells_canon sh b : nd 0 b -> Canon (buff_to_moc sh b).
Proof. intros Hnd. unfold buff_to_moc. apply scale_canon. apply (proj1 (cells_to_ranges_spec b Hnd)). Qed.

Lemma div_mul_cell sh c : c * 2 ^ sh / 2 ^ sh = c.
Proof. apply N.div_mul. apply N.pow_nonzero. lia. Qed.

Lemma drain_inv sh pushed s : BInv sh pushed s -> BInv sh pushed (drain sh s).
Proof.
  intros [Hm Hc Hx Hs]. unfold drain.
  set (b := if sorted s then rev (buff s) else isort (rev (buff s))).
  assert (Hnd : nd 0 b).
  { unfold b. destruct (sorted s) eqn:E; [apply Hs; reflexivity|apply isort_nd]. }
  assert (Hin : forall y, In y b <-> In y (buff s)).
  { intros y. unfold b. destruct (sorted s); [rewrite <- in_rev; reflexivity|rewrite isort_in, <- in_rev; reflexivity]. }
  pose proof (scaled_cells_canon sh b Hnd) as Cn. pose proof (canon_nonempty _ Cn) as Ne.
  constructor; cbn [moc buff sorted].
  - destruct (moc s) as [m|]; [apply union_canon; assumption|exact Cn].
  - intros c. rewrite Hc. destruct (moc s) as [m|].
    + rewrite (union_cov _ m _ Ne), (scaled_cells_cov sh b _ Hnd), div_mul_cell, Hin. cbn. tauto.
    + rewrite (scaled_cells_cov sh b _ Hnd), div_mul_cell, Hin. cbn. tauto.
  - intros x y Exy. destruct (moc s) as [m|].
    + rewrite !(union_cov _ m _ Ne), !(scaled_cells_cov sh b _ Hnd), Exy. intros [H|H]; [left; apply (Hx x y Exy); exact H|right; exact H].
    + rewrite !(scaled_cells_cov sh b _ Hnd), Exy. tauto.
  - intros _. exact I.
Qed.

Lemma push_inv sh cap pushed s c : BInv sh pushed s -> BInv sh (pushed ++ [c]) (push sh cap s c).
Proof.
  intros HI. pose proof HI as [Hm Hc Hx Hs]. unfold push.
  assert (STEP : forall s', moc s' = moc s -> buff s' = c :: buff s ->
            (sorted s' = true -> nd 0 (rev (buff s'))) -> BInv sh (pushed ++ [c]) s').
  { intros s' Em Eb Es. constructor; rewrite ?Em, ?Eb.
    - exact Hm.
    - intros y. rewrite in_app_iff, Hc. cbn [In]. intuition.
    - exact Hx.
    - rewrite <- Eb. exact Es. }
  destruct (buff s) as [|h t] eqn:Eb.
  - set (s' := {| buff := [c]; sorted := sorted s; moc := moc s |}).
    assert (I' : BInv sh (pushed ++ [c]) s').
    { apply STEP; [reflexivity|reflexivity|]. intros _. cbn. lia. }
    destruct (Nat.eqb (length (buff s')) cap); [apply drain_inv; exact I'|exact I'].
  - destruct (N.eqb_spec h c) as [->|Hne].
    + (* a repeat of the last cell: state unchanged *)
      constructor; rewrite ?Eb; try assumption. intros y. rewrite in_app_iff, Hc. cbn [In].
      split; [intros [[H|H]|[H|[]]]; [left; exact H|right; exact H|right; left; exact H]|intros [H|H]; left; [left; exact H|right; exact H]].
    + set (s' := {| buff := c :: h :: t; sorted := if sorted s && (c <? h) then false else sorted s; moc := moc s |}).
      assert (I' : BInv sh (pushed ++ [c]) s').
      { apply STEP; [reflexivity|reflexivity|]. cbn [sorted buff]. intros E.
        destruct (sorted s) eqn:Es; [|destruct (c <? h); discriminate].
        destruct (N.ltb_spec c h) as [C|C]; [discriminate|].
        specialize (Hs eq_refl). cbn [rev]. apply nd_app_last; [exact Hs| |lia].
        intros y Hy. pose proof (nd_all_le_last (h :: t) 0 Hs h t eq_refl y Hy). lia. }
      destruct (Nat.eqb (length (buff s')) cap); [apply drain_inv; exact I'|exact I'].
Qed.

Lemma fold_push_inv sh cap cells : forall pushed s, BInv sh pushed s ->
  BInv sh (pushed ++ cells) (fold_left (push sh cap) cells s).
Proof.
  induction cells as [|c t IH]; intros pushed s HI; cbn [fold_left]; [rewrite app_nil_r; exact HI|].
  replace (pushed ++ c :: t) with ((pushed ++ [c]) ++ t) by (rewrite <- app_assoc; reflexivity).
  apply IH. apply push_inv. exact HI.
Qed.

Lemma new_builder_inv sh : BInv sh [] new_builder.
Proof. constructor; cbn; [exact I|intros c; tauto|intros x y _ []|intros _; exact I]. Qed.

(** THE BUILDER EQUALS ITS SPECIFICATION, for every capacity (hence every placement of the
    intermediate flushes), every order of arrival and every repetition *)
Theorem build_eq_spec q w d cap cells :
  build (shift q w d) cap cells = build_cells q w d cells.
Proof.
  unfold build, into_moc.
  pose proof (fold_push_inv (shift q w d) cap cells [] new_builder (new_builder_inv _)) as HI. cbn [app] in HI.
  apply drain_inv in HI. destruct HI as [Hm Hc Hx _].
  destruct (moc (drain (shift q w d) (fold_left (push (shift q w d) cap) cells new_builder))) as [m|] eqn:Em.
  2:{ unfold drain in Em. cbn in Em. discriminate. }
  apply canon_unique; [exact Hm|unfold build_cells; apply canon_of_canon|].
  intros x. rewrite build_cells_covers. cbn [buff] in Hc. unfold drain in Hc. cbn [buff] in Hc. split.
  - intros H. exists (x / 2 ^ shift q w d). split; [|reflexivity]. apply Hc. left.
    apply (Hx x (x / 2 ^ shift q w d * 2 ^ shift q w d)); [rewrite div_mul_cell; reflexivity|exact H].
  - intros [c [Hin <-]]. apply Hc in Hin. destruct Hin as [H|[]].
    apply (Hx (x / 2 ^ shift q w d * 2 ^ shift q w d) x); [apply div_mul_cell|exact H].
Qed.
