(** Model/LazyXor.v — (F) the streaming symmetric difference of src/moc/range/op/xor.rs: the
    thirteen relative positions of the two look-ahead ranges, the swaps that cut them, the
    fusion of touching ranges.  Theorem: on canonical operands it yields exactly the
    specification [xor] of Base/RangeSet.v. *)
From Coq Require Import List NArith Arith Lia Bool.
From MOC.Base Require Import RangeSet.
From MOC.Model Require Import LazyOps.
Import ListNotations.
Open Scope N_scope.

Fixpoint xor_f (fuel : nat) (A B : list range) : list range :=
  match fuel with
  | O => []
  | S f =>
      match A, B with
      | [], _ => B
      | _, [] => A
      | l :: A', r :: B' =>
          let (ls, le) := l in let (rs, re) := r in
          if le =? rs then xor_f f A' ((ls, re) :: B')                       (* L--LR--R *)
          else if re =? ls then xor_f f ((rs, le) :: A') B'                   (* R--RL--L *)
          else if le <? rs then l :: xor_f f A' B                             (* L--L R--R *)
          else if re <? ls then r :: xor_f f A B'                             (* R--R L--L *)
          else if le =? re then
            (if ls =? rs then xor_f f A' B'
             else if ls <? rs then (ls, rs) :: xor_f f A' B'
             else (rs, ls) :: xor_f f A' B')
          else if le <? re then
            (if ls =? rs then xor_f f A' ((le, re) :: B')
             else if ls <? rs then (ls, rs) :: xor_f f A' ((le, re) :: B')
             else (rs, ls) :: xor_f f A' ((le, re) :: B'))
          else
            (if ls =? rs then xor_f f ((re, le) :: A') B'
             else if ls <? rs then (ls, rs) :: xor_f f ((re, le) :: A') B'
             else (rs, ls) :: xor_f f ((re, le) :: A') B')
      end
  end.

Definition xor_new (A B : list range) : list range := xor_f (length A + length B + 1) A B.

Lemma covb_cons r l x : covb (r :: l) x = inrb r x || covb l x.
Proof. reflexivity. Qed.

Lemma covb_above lo l x : chain lo l -> covb l x = true -> lo < x.
Proof. intros Hc H. apply covb_spec in H. apply (chain_cov_gt _ _ _ Hc H). Qed.

Ltac bools :=
  unfold inrb; cbn [fst snd];
  repeat match goal with
         | |- context [?a <=? ?b] => destruct (N.leb_spec a b)
         | |- context [?a <? ?b] => destruct (N.ltb_spec a b)
         end; cbn [andb orb xorb negb]; try reflexivity; try lia.

Lemma xor_f_spec : forall fuel A B la lb,
  (length A + length B < fuel)%nat -> sorted_from la A -> sorted_from lb B ->
  sorted_from (N.min la lb) (xor_f fuel A B) /\
  forall x, covb (xor_f fuel A B) x = xorb (covb A x) (covb B x).
Proof.
  induction fuel as [|f IH]; intros A B la lb Hf HA HB; [lia|].
  cbn [xor_f]. destruct A as [|[ls le] A'].
  { split; [apply (sorted_from_weaken _ lb); [lia|exact HB]|]. intros x. cbn [covb]. destruct (covb B x); reflexivity. }
  destruct B as [|[rs re] B'].
  { split; [apply (sorted_from_weaken _ la); [lia|exact HA]|]. intros x. cbn [covb]. destruct (inrb (ls, le) x || covb A' x); reflexivity. }
  pose proof HA as HA0. pose proof HB as HB0.
  cbn [sorted_from fst snd] in HA, HB. destruct HA as (A1 & A2 & A3). destruct HB as (B1 & B2 & B3).
  assert (A3' : sorted_from (le + 1) A') by (apply chain_sorted_succ; exact A3).
  assert (B3' : sorted_from (re + 1) B') by (apply chain_sorted_succ; exact B3).
  cbn [length] in Hf.
  assert (GA : forall x, covb A' x = true -> le < x) by (intros x; apply covb_above; exact A3).
  assert (GB : forall x, covb B' x = true -> re < x) by (intros x; apply covb_above; exact B3).
  (* helper: finishing a pointwise goal once the recursive characterisation is rewritten *)
  assert (FIN : forall x (P : bool -> bool -> Prop),
            (forall a b, (a = true -> le < x) -> (b = true -> re < x) -> P a b) -> P (covb A' x) (covb B' x)).
  { intros x P H. apply H; [apply GA|apply GB]. }
  destruct (N.eqb_spec le rs) as [C1|C1].
  { (* L--LR--R : fuse into r *)
    subst rs. assert (HB2 : sorted_from ls ((ls, re) :: B')) by (cbn [sorted_from fst snd]; repeat split; [lia|lia|exact B3]).
    destruct (IH A' ((ls, re) :: B') (le + 1) ls ltac:(cbn [length]; lia) A3' HB2) as [S Cv].
    split; [apply (sorted_from_weaken _ (N.min (le + 1) ls)); [lia|exact S]|].
    intros x. rewrite Cv, !covb_cons. apply (FIN x (fun a b => xorb a (inrb (ls, re) x || b) = xorb (inrb (ls, le) x || a) (inrb (le, re) x || b))).
    intros a b Ha Hb. destruct a, b; try specialize (Ha eq_refl); try specialize (Hb eq_refl); bools. }
  destruct (N.eqb_spec re ls) as [C2|C2].
  { subst ls. assert (HA2 : sorted_from rs ((rs, le) :: A')) by (cbn [sorted_from fst snd]; repeat split; [lia|lia|exact A3]).
    destruct (IH ((rs, le) :: A') B' rs (re + 1) ltac:(cbn [length]; lia) HA2 B3') as [S Cv].
    split; [apply (sorted_from_weaken _ (N.min rs (re + 1))); [lia|exact S]|].
    intros x. rewrite Cv, !covb_cons. apply (FIN x (fun a b => xorb (inrb (rs, le) x || a) b = xorb (inrb (re, le) x || a) (inrb (rs, re) x || b))).
    intros a b Ha Hb. destruct a, b; try specialize (Ha eq_refl); try specialize (Hb eq_refl); bools. }
  destruct (N.ltb_spec le rs) as [C3|C3].
  { assert (HBr : sorted_from rs ((rs, re) :: B')) by (cbn [sorted_from fst snd]; repeat split; [lia|exact B2|exact B3]).
    destruct (IH A' ((rs, re) :: B') (le + 1) rs ltac:(cbn [length]; lia) A3' HBr) as [S Cv]. split.
    - cbn [sorted_from fst snd]. split; [lia|]. split; [exact A2|]. apply chain_sorted_succ.
      apply (sorted_from_weaken _ (N.min (le + 1) rs)); [lia|exact S].
    - intros x. rewrite !covb_cons, Cv, !covb_cons.
      apply (FIN x (fun a b => inrb (ls, le) x || xorb a (inrb (rs, re) x || b) = xorb (inrb (ls, le) x || a) (inrb (rs, re) x || b))).
      intros a b Ha Hb. destruct a, b; try specialize (Ha eq_refl); try specialize (Hb eq_refl); bools. }
  destruct (N.ltb_spec re ls) as [C4|C4].
  { assert (HAl : sorted_from ls ((ls, le) :: A')) by (cbn [sorted_from fst snd]; repeat split; [lia|exact A2|exact A3]).
    destruct (IH ((ls, le) :: A') B' ls (re + 1) ltac:(cbn [length]; lia) HAl B3') as [S Cv]. split.
    - cbn [sorted_from fst snd]. split; [lia|]. split; [exact B2|]. apply chain_sorted_succ.
      apply (sorted_from_weaken _ (N.min ls (re + 1))); [lia|exact S].
    - intros x. rewrite !covb_cons, Cv, !covb_cons.
      apply (FIN x (fun a b => inrb (rs, re) x || xorb (inrb (ls, le) x || a) b = xorb (inrb (ls, le) x || a) (inrb (rs, re) x || b))).
      intros a b Ha Hb. destruct a, b; try specialize (Ha eq_refl); try specialize (Hb eq_refl); bools. }
  destruct (N.eqb_spec le re) as [C5|C5].
  { subst re. destruct (IH A' B' (le + 1) (le + 1) ltac:(cbn [length]; lia) A3' B3') as [S Cv].
    destruct (N.eqb_spec ls rs) as [D1|D1]; [|destruct (N.ltb_spec ls rs) as [D2|D2]].
    - subst rs. split; [apply (sorted_from_weaken _ (N.min (le + 1) (le + 1))); [lia|exact S]|].
      intros x. rewrite Cv, !covb_cons.
      apply (FIN x (fun a b => xorb a b = xorb (inrb (ls, le) x || a) (inrb (ls, le) x || b))).
      intros a b Ha Hb. destruct a, b; try specialize (Ha eq_refl); try specialize (Hb eq_refl); bools.
    - split.
      + cbn [sorted_from fst snd]. split; [lia|]. split; [exact D2|]. apply chain_sorted_succ.
        apply (sorted_from_weaken _ (N.min (le + 1) (le + 1))); [lia|exact S].
      + intros x. rewrite !covb_cons, Cv.
        apply (FIN x (fun a b => inrb (ls, rs) x || xorb a b = xorb (inrb (ls, le) x || a) (inrb (rs, le) x || b))).
        intros a b Ha Hb. destruct a, b; try specialize (Ha eq_refl); try specialize (Hb eq_refl); bools.
    - split.
      + cbn [sorted_from fst snd]. split; [lia|]. split; [lia|]. apply chain_sorted_succ.
        apply (sorted_from_weaken _ (N.min (le + 1) (le + 1))); [lia|exact S].
      + intros x. rewrite !covb_cons, Cv.
        apply (FIN x (fun a b => inrb (rs, ls) x || xorb a b = xorb (inrb (ls, le) x || a) (inrb (rs, le) x || b))).
        intros a b Ha Hb. destruct a, b; try specialize (Ha eq_refl); try specialize (Hb eq_refl); bools. }
  destruct (N.ltb_spec le re) as [C6|C6].
  { assert (HB2 : sorted_from le ((le, re) :: B')) by (cbn [sorted_from fst snd]; repeat split; [lia|exact C6|exact B3]).
    destruct (IH A' ((le, re) :: B') (le + 1) le ltac:(cbn [length]; lia) A3' HB2) as [S Cv].
    destruct (N.eqb_spec ls rs) as [D1|D1]; [|destruct (N.ltb_spec ls rs) as [D2|D2]].
    - subst rs. split; [apply (sorted_from_weaken _ (N.min (le + 1) le)); [lia|exact S]|].
      intros x. rewrite Cv, !covb_cons.
      apply (FIN x (fun a b => xorb a (inrb (le, re) x || b) = xorb (inrb (ls, le) x || a) (inrb (ls, re) x || b))).
      intros a b Ha Hb. destruct a, b; try specialize (Ha eq_refl); try specialize (Hb eq_refl); bools.
    - split.
      + cbn [sorted_from fst snd]. split; [lia|]. split; [exact D2|]. apply chain_sorted_succ.
        apply (sorted_from_weaken _ (N.min (le + 1) le)); [lia|exact S].
      + intros x. rewrite !covb_cons, Cv, !covb_cons.
        apply (FIN x (fun a b => inrb (ls, rs) x || xorb a (inrb (le, re) x || b) = xorb (inrb (ls, le) x || a) (inrb (rs, re) x || b))).
        intros a b Ha Hb. destruct a, b; try specialize (Ha eq_refl); try specialize (Hb eq_refl); bools.
    - split.
      + cbn [sorted_from fst snd]. split; [lia|]. split; [lia|]. apply chain_sorted_succ.
        apply (sorted_from_weaken _ (N.min (le + 1) le)); [lia|exact S].
      + intros x. rewrite !covb_cons, Cv, !covb_cons.
        apply (FIN x (fun a b => inrb (rs, ls) x || xorb a (inrb (le, re) x || b) = xorb (inrb (ls, le) x || a) (inrb (rs, re) x || b))).
        intros a b Ha Hb. destruct a, b; try specialize (Ha eq_refl); try specialize (Hb eq_refl); bools. }
  assert (C7 : re < le) by lia.
  assert (HA2 : sorted_from re ((re, le) :: A')) by (cbn [sorted_from fst snd]; repeat split; [lia|exact C7|exact A3]).
  destruct (IH ((re, le) :: A') B' re (re + 1) ltac:(cbn [length]; lia) HA2 B3') as [S Cv].
  destruct (N.eqb_spec ls rs) as [D1|D1]; [|destruct (N.ltb_spec ls rs) as [D2|D2]].
  - subst rs. split; [apply (sorted_from_weaken _ (N.min re (re + 1))); [lia|exact S]|].
    intros x. rewrite Cv, !covb_cons.
    apply (FIN x (fun a b => xorb (inrb (re, le) x || a) b = xorb (inrb (ls, le) x || a) (inrb (ls, re) x || b))).
    intros a b Ha Hb. destruct a, b; try specialize (Ha eq_refl); try specialize (Hb eq_refl); bools.
  - split.
    + cbn [sorted_from fst snd]. split; [lia|]. split; [exact D2|]. apply chain_sorted_succ.
      apply (sorted_from_weaken _ (N.min re (re + 1))); [lia|exact S].
    + intros x. rewrite !covb_cons, Cv, !covb_cons.
      apply (FIN x (fun a b => inrb (ls, rs) x || xorb (inrb (re, le) x || a) b = xorb (inrb (ls, le) x || a) (inrb (rs, re) x || b))).
      intros a b Ha Hb. destruct a, b; try specialize (Ha eq_refl); try specialize (Hb eq_refl); bools.
  - split.
    + cbn [sorted_from fst snd]. split; [lia|]. split; [lia|]. apply chain_sorted_succ.
      apply (sorted_from_weaken _ (N.min re (re + 1))); [lia|exact S].
    + intros x. rewrite !covb_cons, Cv, !covb_cons.
      apply (FIN x (fun a b => inrb (rs, ls) x || xorb (inrb (re, le) x || a) b = xorb (inrb (ls, le) x || a) (inrb (rs, re) x || b))).
      intros a b Ha Hb. destruct a, b; try specialize (Ha eq_refl); try specialize (Hb eq_refl); bools.
Qed.

Theorem xor_new_eq_spec ub A B : Valid ub A -> Valid ub B -> xor_new A B = xor ub A B.
Proof.
  intros HA HB. destruct (xor_f_spec (length A + length B + 1) A B 0 0 ltac:(lia) (v_canon _ _ HA) (v_canon _ _ HB)) as [C Cv].
  apply canon_unique; [exact C|apply (v_canon _ _ (valid_xor ub A B HA HB))|].
  intros x. rewrite (xor_cov ub A B x HA HB). fold (xor_new A B) in Cv. rewrite <- !covb_spec. rewrite Cv.
  destruct (covb A x), (covb B x); cbn; split; intros H; try discriminate; try reflexivity;
    try (destruct H as [[H1 H2]|[H1 H2]]; congruence); [left|right]; split; congruence.
Qed.

(** size hint of the repaired code: (0, Some(2 + n1 + n2)) *)
Lemma xor_f_length : forall fuel A B, (length (xor_f fuel A B) <= length A + length B)%nat.
Proof.
  induction fuel as [|f IH]; intros A B; [cbn; lia|]. cbn [xor_f].
  destruct A as [|[ls le] A']; [cbn; lia|]. destruct B as [|[rs re] B']; [cbn; lia|].
  repeat match goal with
         | |- context [if ?c then _ else _] => destruct c
         end;
  cbn [length];
  repeat match goal with
         | |- context [xor_f f ?X ?Y] => let H := fresh in pose proof (IH X Y) as H; cbn [length] in H; revert H; generalize (xor_f f X Y); intros
         end; lia.
Qed.
