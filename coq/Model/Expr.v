(** Model/Expr.v — expression trees over the 1-D MOC operators and their EAGER
    reference evaluation (S).  One structural induction gives, for trees of
    arbitrary height: the depth reported, validity (canonical form) of the result
    and its set semantics.  Used by C02 (composition theorem) and C04 (lazy
    pipelines equal eager evaluation). *)
From Coq Require Import List NArith Lia Bool.
From MOC.Base Require Import RangeSet.
From MOC.Model Require Import Qty Ops1D.
Import ListNotations.
Open Scope N_scope.

(** set-preserving adapters of the streaming API (identity on the MOC) *)
Inductive idk := KCells | KCellRanges | KMerge | KCheck | KCollect.

Inductive expr :=
| ELeaf (d : N) (l : list range)
| EOp2 (o : op2) (a b : expr)
| ENot (a : expr)
| EDeg (t : N) (a : expr)
| EId (k : idk) (a : expr).

Section Eval.
Variables (q : qty) (w : N).

Fixpoint eval (e : expr) : N * list range :=
  match e with
  | ELeaf d l => (d, l)
  | EOp2 o a b => let ra := eval a in let rb := eval b in
                  moc_op2 o q w (fst ra) (snd ra) (fst rb) (snd rb)
  | ENot a => let ra := eval a in moc_not q w (fst ra) (snd ra)
  | EDeg t a => let ra := eval a in moc_degrade q w (fst ra) (snd ra) t
  | EId _ a => eval a
  end.

(** depth computed statically from the tree *)
Fixpoint edepth (e : expr) : N :=
  match e with
  | ELeaf d _ => d
  | EOp2 _ a b => N.max (edepth a) (edepth b)
  | ENot a => edepth a
  | EDeg t a => N.min (edepth a) t
  | EId _ a => edepth a
  end.

(** the index set denoted by the tree *)
Fixpoint sem (e : expr) (x : N) : Prop :=
  match e with
  | ELeaf _ l => cov l x
  | EOp2 o a b => setop o (sem a x) (sem b x)
  | ENot a => x < n_cells_max q w /\ ~ sem a x
  | EDeg t a => exists y, sem a y /\
        y / 2 ^ shift q w (N.min (edepth a) t) = x / 2 ^ shift q w (N.min (edepth a) t)
  | EId _ a => sem a x
  end.

Fixpoint leaves_valid (e : expr) : Prop :=
  match e with
  | ELeaf d l => ValidMoc q w d l
  | EOp2 _ a b => leaves_valid a /\ leaves_valid b
  | ENot a | EDeg _ a | EId _ a => leaves_valid a
  end.

Fixpoint leaves_validb (e : expr) : bool :=
  match e with
  | ELeaf d l => valid_mocb q w d l
  | EOp2 _ a b => leaves_validb a && leaves_validb b
  | ENot a | EDeg _ a | EId _ a => leaves_validb a
  end.

Lemma leaves_validb_spec e : leaves_validb e = true <-> leaves_valid e.
Proof.
  induction e; simpl; try assumption.
  - apply valid_mocb_spec.
  - rewrite andb_true_iff. tauto.
Qed.

Lemma setop_iff o a a' b b' : (a <-> a') -> (b <-> b') -> (setop o a b <-> setop o a' b').
Proof. destruct o; simpl; tauto. Qed.

Theorem eval_correct e : leaves_valid e ->
  fst (eval e) = edepth e /\
  ValidMoc q w (edepth e) (snd (eval e)) /\
  forall x, cov (snd (eval e)) x <-> sem e x.
Proof.
  induction e as [d l|o a IHa b IHb|a IHa|t a IHa|k a IHa]; intros Hv.
  - simpl. split; [reflexivity|]. split; [exact Hv|tauto].
  - destruct Hv as [Hva Hvb].
    destruct (IHa Hva) as (Da & Va & Sa). destruct (IHb Hvb) as (Db & Vb & Sb).
    cbn [eval edepth sem]. rewrite Da, Db.
    destruct (moc_op2_correct o q w _ _ _ _ Va Vb) as (R1 & R2 & R3).
    split; [exact R1|]. split; [rewrite R1 in R2; exact R2|].
    intros x. rewrite R3. apply setop_iff; [apply Sa|apply Sb].
  - destruct (IHa Hv) as (Da & Va & Sa).
    cbn [eval edepth sem]. rewrite Da.
    destruct (moc_not_correct q w _ _ Va) as (R1 & R2 & R3).
    split; [exact R1|]. split; [exact R2|].
    intros x. rewrite R3. rewrite Sa. tauto.
  - destruct (IHa Hv) as (Da & Va & Sa).
    cbn [eval edepth sem]. rewrite Da.
    destruct (moc_degrade_correct q w _ _ t Va) as (R1 & R2 & R3).
    split; [exact R1|]. split; [rewrite R1 in R2; exact R2|].
    intros x. rewrite R3. split; intros [y [Hy1 Hy2]]; exists y; (split; [apply Sa; exact Hy1|exact Hy2]).
  - simpl. apply IHa. exact Hv.
Qed.

End Eval.
