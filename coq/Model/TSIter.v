(** Model/TSIter.v — (F) the two conversions between the range-2D form and the ST-MOC form
    (src/hpxranges2d.rs):
      time_space_iter (TimeSpaceRangesIter::next): an element takes the next entry's time range and
        coverage, then every FOLLOWING entry whose coverage is equal, collecting their time ranges;
      from_ranges_it: every time range of every element becomes an entry with the element's coverage.
    Theorems: both preserve the covered (time, space) pairs; on the output of the range-2D
    construction / operations (entries non-empty, increasing, disjoint, never fusable) every element
    produced has a non-empty CANONICAL time list (touching ranges with the same coverage cannot
    follow each other), a non-empty canonical coverage, and the elements are ordered in time. *)
From Coq Require Import List NArith Arith Lia Bool.
From MOC.Base Require Import RangeSet.
From MOC.Model Require Import Qty Query Build Repr ST Sweep2D.
Import ListNotations.
Open Scope N_scope.

(** collect the time ranges of the entries that follow with the same coverage *)
Fixpoint take_same (s : list range) (l : list entry) : list range * list entry :=
  match l with
  | (t, s') :: tl => if ranges_eqb s' s then let (ts, rest) := take_same s tl in (t :: ts, rest) else ([], l)
  | [] => ([], [])
  end.

Lemma take_same_length s l : (length (snd (take_same s l)) <= length l)%nat.
Proof. induction l as [|[t s'] tl IH]; cbn [take_same]; [cbn; lia|]. destruct (ranges_eqb s' s); [|cbn [snd length]; lia]. destruct (take_same s tl). cbn [snd length] in *. lia. Qed.

Fixpoint ts_iter (fuel : nat) (l : list entry) : stmoc :=
  match fuel with
  | O => []
  | S f => match l with
           | [] => []
           | (t, s) :: tl => let (ts, rest) := take_same s tl in (t :: ts, s) :: ts_iter f rest
           end
  end.
Definition time_space_iter (l : list entry) : stmoc := ts_iter (length l) l.

Definition from_ranges_it (X : stmoc) : list entry :=
  flat_map (fun e : elem => map (fun t => (t, snd e)) (fst e)) X.

(** ---------- covered pairs ---------- *)
Lemma take_same_cov s l : forall t x,
  covE l t x <-> ((exists r, In r (fst (take_same s l)) /\ inr r t) /\ cov s x) \/ covE (snd (take_same s l)) t x.
Proof.
  induction l as [|[t0 s'] tl IH]; intros t x; cbn [take_same].
  - cbn [fst snd]. split; [intros [e [[] _]]|intros [[[r [[] _]] _]|[e [[] _]]]].
  - destruct (ranges_eqb s' s) eqn:Q; [|cbn [fst snd]; split; [intros K; right; exact K|intros [[[r [[] _]] _]|K]; exact K]].
    apply ranges_eqb_spec in Q. subst s'. specialize (IH t x). destruct (take_same s tl) as [ts rest]. cbn [fst snd] in *.
    split.
    + intros [e [[<-|He] [K1 K2]]]; cbn [fst snd] in *.
      * left. split; [exists t0; split; [left; reflexivity|exact K1]|exact K2].
      * assert (K : covE tl t x) by (exists e; split; [exact He|split; assumption]). apply IH in K.
        destruct K as [[[r [Hr Kr]] Kx]|K]; [left; split; [exists r; split; [right; exact Hr|exact Kr]|exact Kx]|right; exact K].
    + intros [[[r [[<-|Hr] Kr]] Kx]|K].
      * exists (t0, s). split; [left; reflexivity|split; assumption].
      * assert (K : covE tl t x) by (apply IH; left; split; [exists r; split; assumption|exact Kx]).
        destruct K as [e [He K]]. exists e. split; [right; exact He|exact K].
      * assert (K' : covE tl t x) by (apply IH; right; exact K). destruct K' as [e [He K']]. exists e. split; [right; exact He|exact K'].
Qed.

Theorem ts_iter_cov : forall fuel l t x, (length l <= fuel)%nat -> (cov2 (ts_iter fuel l) t x <-> covE l t x).
Proof.
  induction fuel as [|f IH]; intros l t x Hf.
  - destruct l; [|cbn in Hf; lia]. cbn. split; [intros [e [[] _]]|intros [e [[] _]]].
  - destruct l as [|[t0 s] tl]; cbn [ts_iter]; [split; [intros [e [[] _]]|intros [e [[] _]]]|].
    pose proof (take_same_cov s tl t x) as TC. pose proof (take_same_length s tl) as TL.
    destruct (take_same s tl) as [ts rest]. cbn [fst snd] in *. cbn [length] in Hf.
    specialize (IH rest t x ltac:(lia)). unfold cov2 in *. split.
    + intros [e [[<-|He] [K1 K2]]]; cbn [fst snd] in *.
      * destruct K1 as [r [[<-|Hr] Kr]].
        -- exists (t0, s). split; [left; reflexivity|split; assumption].
        -- assert (K : covE tl t x) by (apply TC; left; split; [exists r; split; assumption|exact K2]).
           destruct K as [e [He K]]. exists e. split; [right; exact He|exact K].
      * assert (K : covE rest t x) by (apply IH; exists e; split; [exact He|split; assumption]).
        assert (K' : covE tl t x) by (apply TC; right; exact K). destruct K' as [e' [He' K']]. exists e'. split; [right; exact He'|exact K'].
    + intros [e [[<-|He] [K1 K2]]]; cbn [fst snd] in *.
      * exists (t0 :: ts, s). split; [left; reflexivity|]. cbn [fst snd]. split; [exists t0; split; [left; reflexivity|exact K1]|exact K2].
      * assert (K : covE tl t x) by (exists e; split; [exact He|split; assumption]). apply TC in K.
        destruct K as [[[r [Hr Kr]] Kx]|K].
        -- exists (t0 :: ts, s). split; [left; reflexivity|]. cbn [fst snd]. split; [exists r; split; [right; exact Hr|exact Kr]|exact Kx].
        -- apply IH in K. destruct K as [e' [He' K]]. exists e'. split; [right; exact He'|exact K].
Qed.

Theorem time_space_iter_cov l t x : cov2 (time_space_iter l) t x <-> covE l t x.
Proof. apply ts_iter_cov. apply le_n. Qed.

Theorem from_ranges_it_cov X t x : covE (from_ranges_it X) t x <-> cov2 X t x.
Proof.
  unfold from_ranges_it, covE, cov2. split.
  - intros [e [He [K1 K2]]]. apply in_flat_map in He. destruct He as [el [Hel He]]. apply in_map_iff in He. destruct He as [r [<- Hr]].
    cbn [fst snd] in *. exists el. split; [exact Hel|]. split; [exists r; split; assumption|exact K2].
  - intros [el [Hel [[r [Hr Kr]] Kx]]]. exists (r, snd el). split; [|split; assumption].
    apply in_flat_map. exists el. split; [exact Hel|]. apply in_map_iff. exists r. split; [reflexivity|exact Hr].
Qed.

(** ---------- shape of the elements ---------- *)
Definition lastend (e0 : N) (ts : list range) : N := fold_left (fun _ r => snd r) ts e0.

(** on entries that are increasing / disjoint in time and never fusable, the time ranges collected for
    one element have strict gaps between them *)
Lemma take_same_shape s : forall tl e0, tchain e0 tl ->
  (forall t1 tl', tl = (t1, s) :: tl' -> fst t1 <> e0) -> nofuse tl ->
  chain e0 (fst (take_same s tl)) /\ tchain (lastend e0 (fst (take_same s tl))) (snd (take_same s tl)) /\ nofuse (snd (take_same s tl)).
Proof.
  induction tl as [|[t1 s1] tl IH]; intros e0 Ht Hne Hnf; cbn [take_same].
  - cbn [fst snd]. unfold lastend. cbn [fold_left chain tchain nofuse]. split; [exact I|split; exact I].
  - destruct (ranges_eqb s1 s) eqn:Q; [|cbn [fst snd]; unfold lastend; cbn [fold_left chain]; split; [exact I|split; [exact Ht|exact Hnf]]].
    apply ranges_eqb_spec in Q. subst s1. cbn [tchain fst snd] in Ht. destruct Ht as (T1 & T2 & T3 & T4 & T5).
    assert (Hs : e0 < fst t1) by (specialize (Hne t1 tl eq_refl); lia).
    assert (Hne' : forall t2 tl', tl = (t2, s) :: tl' -> fst t2 <> snd t1).
    { intros t2 tl' E. subst tl. cbn [nofuse fst snd] in Hnf. destruct Hnf as [N1 _]. intros K. apply N1. split; [exact K|reflexivity]. }
    assert (Hnf' : nofuse tl) by (destruct tl as [|b tl2]; [exact I|cbn [nofuse] in Hnf; exact (proj2 Hnf)]).
    destruct (IH (snd t1) T5 Hne' Hnf') as (C & R & N). destruct (take_same s tl) as [ts rest]. cbn [fst snd] in *.
    split; [cbn [chain]; split; [exact Hs|split; [exact T2|exact C]]|]. split; [|exact N].
    unfold lastend in *. cbn [fold_left]. exact R.
Qed.

Fixpoint STchain (lo : N) (X : stmoc) : Prop :=
  match X with
  | [] => True
  | e :: X' => sorted_from lo (fst e) /\ fst e <> [] /\ snd e <> [] /\ Canon (snd e) /\ STchain (lastend lo (fst e)) X'
  end.

Lemma lastend_ge ts : forall e0, chain e0 ts -> e0 <= lastend e0 ts.
Proof.
  induction ts as [|r ts IH]; intros e0 H; cbn [lastend fold_left]; [lia|]. cbn [chain] in H. destruct H as (A & B & C).
  specialize (IH (snd r) C). unfold lastend in IH. lia.
Qed.

Theorem ts_iter_shape : forall fuel l lo, (length l <= fuel)%nat -> tchain lo l -> nofuse l -> STchain lo (ts_iter fuel l).
Proof.
  induction fuel as [|f IH]; intros l lo Hf Ht Hn; [exact I|].
  destruct l as [|[t0 s] tl]; cbn [ts_iter]; [exact I|].
  cbn [tchain fst snd] in Ht. destruct Ht as (T1 & T2 & T3 & T4 & T5).
  assert (Hne : forall t1 tl', tl = (t1, s) :: tl' -> fst t1 <> snd t0).
  { intros t1 tl' E. subst tl. cbn [nofuse fst snd] in Hn. destruct Hn as [N1 _]. intros K. apply N1. split; [exact K|reflexivity]. }
  assert (Hn' : nofuse tl) by (destruct tl as [|b tl2]; [exact I|cbn [nofuse] in Hn; exact (proj2 Hn)]).
  destruct (take_same_shape s tl (snd t0) T5 Hne Hn') as (C & R & N).
  pose proof (take_same_length s tl) as TL. destruct (take_same s tl) as [ts rest]. cbn [fst snd length] in *.
  cbn [STchain fst snd]. split; [cbn [sorted_from]; split; [exact T1|split; [exact T2|exact C]]|]. split; [discriminate|]. split; [exact T3|]. split; [exact T4|].
  unfold lastend at 1. cbn [fold_left]. fold (lastend (snd t0) ts). apply IH; [lia|exact R|exact N].
Qed.

Theorem time_space_iter_shape l : tchain 0 l -> nofuse l -> STchain 0 (time_space_iter l).
Proof. intros Ht Hn. apply ts_iter_shape; [apply le_n|exact Ht|exact Hn]. Qed.

Example ts_iter_example :
  time_space_iter [((0, 5), [(0, 4)]); ((7, 9), [(0, 4)]); ((9, 12), [(2, 6)]); ((20, 30), [(0, 4)])]
  = [([(0, 5); (7, 9)], [(0, 4)]); ([(9, 12)], [(2, 6)]); ([(20, 30)], [(0, 4)])].
Proof. vm_compute. reflexivity. Qed.

(** the store's construction path end to end: range-2D construction then time_space_iter *)
Theorem store_build_spec es : (forall e, In e es -> fst (fst e) < snd (fst e) /\ Canon (snd e)) ->
  (forall t x, cov2 (time_space_iter (r2d_build es)) t x <-> exists e, In e es /\ inr (fst e) t /\ cov (snd e) x) /\
  STchain 0 (time_space_iter (r2d_build es)).
Proof.
  intros H. destruct (r2d_build_spec es H) as (C & T & NF). split.
  - intros t x. rewrite time_space_iter_cov. apply C.
  - apply time_space_iter_shape; assumption.
Qed.
