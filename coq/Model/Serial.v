(** Model/Serial.v — serialisation of 1-D MOCs.
    (F, byte level) the FITS range data part: each bound as a big-endian integer of
    w/8 bytes, rows = 2 * number of ranges, zero padding to a multiple of 2880.
    (S, token level) the text formats (ASCII, streaming ASCII, JSON): a document is
    a depth plus a collection of the MOC's cells in ANY order and grouping; reading
    is canonicalisation of the union of the listed cells. *)
From Coq Require Import List NArith Arith Lia Bool Permutation.
From MOC.Base Require Import RangeSet.
From MOC.Model Require Import Qty Query Build Repr.
Import ListNotations.
Open Scope N_scope.

(** ---------- big-endian integers ---------- *)
Fixpoint be_bytes (n : nat) (x : N) : list N :=
  match n with
  | O => []
  | S n' => be_bytes n' (x / 256) ++ [x mod 256]
  end.

Definition be_value (bs : list N) : N := fold_left (fun acc b => acc * 256 + b) bs 0.

Lemma be_bytes_length n : forall x, length (be_bytes n x) = n.
Proof. induction n as [|n IH]; intros x; simpl; [reflexivity|]. rewrite app_length, IH. simpl. lia. Qed.

Lemma be_bytes_byte n : forall x, Forall (fun b => b < 256) (be_bytes n x).
Proof.
  induction n as [|n IH]; intros x; simpl; [constructor|].
  apply Forall_app. split; [apply IH|]. constructor; [apply N.mod_lt; lia|constructor].
Qed.

Lemma be_value_app a b : be_value (a ++ [b]) = be_value a * 256 + b.
Proof. unfold be_value. rewrite fold_left_app. reflexivity. Qed.

Theorem be_roundtrip n : forall x, x < 256 ^ N.of_nat n -> be_value (be_bytes n x) = x.
Proof.
  induction n as [|n IH]; intros x Hx.
  - simpl in *. unfold be_value. simpl. lia.
  - cbn [be_bytes]. rewrite be_value_app. rewrite IH.
    + pose proof (N.div_mod x 256 ltac:(lia)). lia.
    + rewrite Nat2N.inj_succ, N.pow_succ_r' in Hx. apply N.div_lt_upper_bound; lia.
Qed.

(** ---------- FITS data part ---------- *)
Definition row_bytes (n : nat) (r : range) : list N := be_bytes n (fst r) ++ be_bytes n (snd r).
Definition encode_rows (n : nat) (l : list range) : list N := flat_map (row_bytes n) l.

Fixpoint decode_rows (n : nat) (k : nat) (bs : list N) : list range :=
  match k with
  | O => []
  | S k' => (be_value (firstn n bs), be_value (firstn n (skipn n bs))) :: decode_rows n k' (skipn (n + n) bs)
  end.

Definition fits_pad (nbytes : N) : N := (2880 - nbytes mod 2880) mod 2880.

Definition InWidth (n : nat) (l : list range) : Prop :=
  Forall (fun r => fst r < 256 ^ N.of_nat n /\ snd r < 256 ^ N.of_nat n) l.

Lemma firstn_app_exact {A} (a b : list A) n : length a = n -> firstn n (a ++ b) = a.
Proof.
  intros <-. rewrite firstn_app, Nat.sub_diag, firstn_O, app_nil_r. apply firstn_all.
Qed.

Lemma skipn_app_exact {A} (a b : list A) n : length a = n -> skipn n (a ++ b) = b.
Proof.
  intros <-. rewrite skipn_app, Nat.sub_diag, skipn_O, skipn_all. reflexivity.
Qed.

Theorem fits_rows_roundtrip n l : InWidth n l ->
  decode_rows n (length l) (encode_rows n l) = l.
Proof.
  induction l as [|[a b] t IH]; intros Hw; [reflexivity|].
  inversion Hw as [|? ? [Ha Hb] Ht]; subst. simpl in Ha, Hb.
  cbn [length encode_rows flat_map decode_rows]. fold (encode_rows n t). unfold row_bytes. cbn [fst snd].
  fold (encode_rows n t).
  assert (L1 : length (be_bytes n a) = n) by apply be_bytes_length.
  assert (L2 : length (be_bytes n b) = n) by apply be_bytes_length.
  rewrite <- app_assoc.
  rewrite (firstn_app_exact _ _ n L1).
  rewrite (skipn_app_exact _ _ n L1).
  rewrite (firstn_app_exact _ _ n L2).
  rewrite !be_roundtrip by assumption.
  f_equal.
  rewrite app_assoc.
  rewrite (skipn_app_exact _ _ (n + n)) by (rewrite app_length; lia).
  apply IH. exact Ht.
Qed.

Lemma encode_rows_length n l : length (encode_rows n l) = (2 * n * length l)%nat.
Proof.
  induction l as [|r t IH]; [simpl; lia|].
  cbn [encode_rows flat_map length]. rewrite app_length. fold (encode_rows n t). rewrite IH.
  unfold row_bytes. rewrite app_length, !be_bytes_length. lia.
Qed.

Theorem fits_block_structure nbytes : (nbytes + fits_pad nbytes) mod 2880 = 0.
Proof.
  unfold fits_pad.
  pose proof (N.div_mod nbytes 2880 ltac:(lia)) as E.
  pose proof (N.mod_lt nbytes 2880 ltac:(lia)) as L.
  set (k := nbytes / 2880) in *. set (r := nbytes mod 2880) in *.
  destruct (N.eq_dec r 0) as [Z|NZ].
  - rewrite Z. rewrite N.sub_0_r. rewrite N.mod_same by lia. rewrite N.add_0_r.
    rewrite E, Z, N.add_0_r, N.mul_comm. apply N.mod_mul. lia.
  - rewrite (N.mod_small (2880 - r)) by lia.
    replace (nbytes + (2880 - r)) with ((k + 1) * 2880) by lia.
    apply N.mod_mul. lia.
Qed.

(** every valid MOC of width w fits in w/8 bytes (so the hypothesis of the round trip holds) *)
Lemma ncm_lt_width q w : okw w -> n_cells_max q w < 2 ^ w.
Proof. intros [H|[H|H]]; subst w; destruct q; vm_compute; reflexivity. Qed.

(** ---------- text formats, token level ---------- *)
Definition decode_cells (q : qty) (w : N) (cells : list cell) : list range :=
  canon_of (map (crange q w) cells).

Theorem text_roundtrip q w d l cells cells' : Canon l ->
  NormalCells q w d l cells -> Permutation cells cells' ->
  decode_cells q w cells' = l.
Proof.
  intros Hc [_ _ Hcov _] P. unfold decode_cells.
  apply canon_unique; [apply canon_of_canon|exact Hc|].
  intros x. rewrite canon_of_cov. rewrite <- Hcov.
  apply cov_perm. apply Permutation_map. apply Permutation_sym. exact P.
Qed.

(** grouping consecutive same-depth cells into a cell range ("d/a-b") denotes the
    same set as listing them one by one *)
Fixpoint expand_range (depth a : N) (n : nat) : list cell :=
  match n with O => [] | S n' => (depth, a) :: expand_range depth (a + 1) n' end.

Lemma expand_range_cov q w depth n : forall a x,
  cov (map (crange q w) (expand_range depth a n)) x <->
  (a * 2 ^ shift q w depth <= x /\ x < (a + N.of_nat n) * 2 ^ shift q w depth).
Proof.
  pose proof (pow2_pos (shift q w depth)) as Hp.
  induction n as [|n IH]; intros a x.
  - simpl. split; [intros H; destruct (cov_nil _ H)|intros [H1 H2]; rewrite N.add_0_r in H2; lia].
  - cbn [expand_range map]. rewrite cov_cons, IH. unfold inr, crange, cell_range. cbn [fst snd].
    rewrite Nat2N.inj_succ. split.
    + intros [[H1 H2]|[H1 H2]]; split; nia.
    + intros [H1 H2]. destruct (N.lt_ge_cases x ((a + 1) * 2 ^ shift q w depth)); [left|right]; split; nia.
Qed.
