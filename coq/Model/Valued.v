(** Model/Valued.v — (F) src/elem/valuedcell.rs: valued_cells_to_moc_with_opt and its four
    recursive descents, over exact values.  Values are natural numbers of an arbitrary unit
    (the correspondence run uses dyadic doubles whose arithmetic is exact); a division of a
    cell value by four is exact under the stated divisibility pre-condition.  A Rust
    [assert!] failure (or an unsigned underflow) is [None].  [sort_by] is stable: the model
    sorts with a stable insertion sort on the density key supplied by the caller. *)
From Coq Require Import List NArith Lia Bool.
Import ListNotations.
Open Scope N_scope.

Definition cell := (N * N)%type.                       (* depth, index *)
Record vcell := { vd : N; vi : N; vv : N; vk : N }.     (* depth, index, value, density key *)

(** ---------- the four descents (fuel = max_depth - depth) ---------- *)
Fixpoint pushes (d base from : N) (n : nat) : list cell :=          (* base+from, base+from+1, ... *)
  match n with O => [] | S n' => (d, base + from) :: pushes d base (from + 1) n' end.
Fixpoint pushes_down (d base from : N) (n : nat) : list cell :=     (* base+from, base+from-1, ... *)
  match n with O => [] | S n' => (d, base + from) :: pushes_down d base (from - 1) n' end.

(** upper threshold: add sub-cells until the target is reached *)
Fixpoint desc (rev : bool) (fuel : nat) (d ipix cv : N) (strict : bool) (t : N) : option (list cell) :=
  if cv <? t then None
  else match fuel with
  | O => Some (if (cv =? t) || negb strict then [(d, ipix)] else [])
  | S f =>
      let sub := cv / 4 in
      if sub =? 0 then None                                (* the while loop would not terminate *)
      else
        let k := t / sub in
        if 4 <=? k then None                               (* assert!(i < four) / underflow of i *)
        else
          let ps := if rev then pushes_down (d + 1) (4 * ipix) 3 (N.to_nat k)
                    else pushes (d + 1) (4 * ipix) 0 (N.to_nat k) in
          let nxt := if rev then 4 * ipix + (3 - k) else 4 * ipix + k in
          match desc rev f (d + 1) nxt sub strict (t - k * sub) with
          | Some r => Some (ps ++ r)
          | None => None
          end
  end.

(** lower threshold: start adding sub-cells once the target has been passed.
    [first_rev] = the outermost call is reverse_recursive_descent_rev, which recurses into the
    NON-reverse recursive_descent_rev, as in the source. *)
Fixpoint desc_rev (first_rev : bool) (fuel : nat) (d ipix cv : N) (strict : bool) (t : N) : option (list cell) :=
  if cv <? t then None
  else match fuel with
  | O => Some (if negb (cv =? t) && negb strict then [(d, ipix)] else [])
  | S f =>
      let sub := cv / 4 in
      if sub =? 0 then None
      else
        let k := t / sub in
        if 4 <=? k then None        (* outside the cell: excluded by t < cv (lemma desc_rev_total) *)
        else
          let nxt := if first_rev then 4 * ipix + (3 - k) else 4 * ipix + k in
          let ps := if first_rev then pushes_down (d + 1) (4 * ipix) (3 - k - 1) (N.to_nat (3 - k))
                    else pushes (d + 1) (4 * ipix) (k + 1) (N.to_nat (3 - k)) in
          match desc_rev false f (d + 1) nxt sub strict (t - k * sub) with
          | Some r => Some (r ++ ps)
          | None => None
          end
  end.

(** ---------- stable sort on the density key ---------- *)
Fixpoint insert (asc : bool) (x : vcell) (l : list vcell) : list vcell :=
  match l with
  | [] => [x]
  | y :: t =>
      if (if asc then vk y <=? vk x else vk x <=? vk y) then y :: insert asc x t else x :: y :: t
  end.
Definition sort (asc : bool) (l : list vcell) : list vcell :=
  fold_left (fun acc x => insert asc x acc) l [].

(** ---------- the selection ---------- *)
Fixpoint skip (l : list vcell) (acc lim : N) : list vcell * N :=
  match l with
  | c :: t => if acc + vv c <=? lim then skip t (acc + vv c) lim else (l, acc)
  | [] => ([], acc)
  end.
Fixpoint take (l : list vcell) (acc lim : N) : list cell * list vcell * N :=
  match l with
  | c :: t =>
      if acc + vv c <=? lim then let '(r, rest, a) := take t (acc + vv c) lim in ((vd c, vi c) :: r, rest, a)
      else ([], l, acc)
  | [] => ([], [], acc)
  end.

Definition fuel_of (maxd : N) (c : vcell) : nat := N.to_nat (maxd - vd c).

(** [fixed] = true: the code after the repair of D19a ([acc] also advanced past the lower
    boundary cell in split mode); false: the code as it stood *)
Definition select (fixed : bool) (maxd0 : N) (cells : list vcell) (from to : N)
                  (asc strict nosplit rev : bool) : option (list cell) :=
  let maxd := fold_left (fun m c => N.max m (vd c)) cells maxd0 in
  let sorted := sort asc cells in
  let '(l1, acc1) := skip sorted 0 from in
  let lower :=
    match l1 with
    | c :: t =>
        if acc1 <? from then
          if nosplit then Some (if strict then [] else [(vd c, vi c)], t, acc1 + vv c)
          else match desc_rev rev (fuel_of maxd c) (vd c) (vi c) (vv c) strict (from - acc1) with
               | Some r => Some (r, t, if fixed then acc1 + vv c else acc1)
               | None => None
               end
        else Some ([], l1, acc1)
    | [] => Some ([], [], acc1)
    end in
  match lower with
  | None => None
  | Some (r1, l2, acc2) =>
      let '(r2, l3, acc3) := take l2 acc2 to in
      match l3 with
      | c :: _ =>
          if acc3 <? to then
            if nosplit then Some (r1 ++ r2 ++ (if strict then [] else [(vd c, vi c)]))
            else match desc rev (fuel_of maxd c) (vd c) (vi c) (vv c) strict (to - acc3) with
                 | Some r => Some (r1 ++ r2 ++ r)
                 | None => None
                 end
          else Some (r1 ++ r2)
      | [] => Some (r1 ++ r2)
      end
  end.

(** ---------- value enclosed by a list of sub-cells of ONE cell (d0, cv0) ---------- *)
Definition piece (d0 cv0 : N) (c : cell) : N := cv0 / 4 ^ (fst c - d0).
Fixpoint mass (d0 cv0 : N) (l : list cell) : N :=
  match l with [] => 0 | c :: t => piece d0 cv0 c + mass d0 cv0 t end.

Lemma mass_app d0 cv0 a b : mass d0 cv0 (a ++ b) = mass d0 cv0 a + mass d0 cv0 b.
Proof. induction a as [|x a IH]; cbn [app mass]; [reflexivity|]. rewrite IH. lia. Qed.

Lemma mass_pushes d0 cv0 d base : forall n from, mass d0 cv0 (pushes d base from n) = N.of_nat n * (cv0 / 4 ^ (d - d0)).
Proof.
  induction n as [|n IH]; intros from; [reflexivity|]. cbn [pushes mass].
  rewrite IH. unfold piece. cbn [fst]. lia.
Qed.
Lemma mass_pushes_down d0 cv0 d base : forall n from, mass d0 cv0 (pushes_down d base from n) = N.of_nat n * (cv0 / 4 ^ (d - d0)).
Proof.
  induction n as [|n IH]; intros from; [reflexivity|]. cbn [pushes_down mass].
  rewrite IH. unfold piece. cbn [fst]. lia.
Qed.

(** every cell produced by a descent started at depth [d] has depth in [d, d + fuel] *)
Definition deeper (d : N) (l : list cell) : Prop := Forall (fun c => d <= fst c) l.

Lemma pow4_pos k : 0 < 4 ^ k. Proof. apply N.neq_0_lt_0. apply N.pow_nonzero. lia. Qed.

Lemma div_pow4_succ cv k : cv / 4 / 4 ^ k = cv / 4 ^ (k + 1).
Proof. rewrite N.div_div by (try apply N.pow_nonzero; lia). rewrite N.add_1_r, N.pow_succ_r'. reflexivity. Qed.

(** changing the reference cell: a sub-cell of the child (d+1, cv/4) is a sub-cell of (d, cv) *)
Lemma mass_child d cv l : deeper (d + 1) l -> mass (d + 1) (cv / 4) l = mass d cv l.
Proof.
  intros H. induction l as [|c l IH]; [reflexivity|]. inversion H as [|? ? Hc Hl]; subst.
  cbn [mass]. rewrite (IH Hl). f_equal. unfold piece.
  rewrite div_pow4_succ. f_equal. f_equal. lia.
Qed.

Lemma deeper_app d a b : deeper d a -> deeper d b -> deeper d (a ++ b).
Proof. apply Forall_app_intro || (intros; apply Forall_app; split; assumption). Qed.
Lemma deeper_weaken d d' l : d' <= d -> deeper d l -> deeper d' l.
Proof. intros H. apply Forall_impl. intros c Hc. lia. Qed.
Lemma deeper_pushes d base : forall n from, deeper d (pushes d base from n).
Proof. induction n as [|n IH]; intros from; cbn [pushes]; constructor; [cbn; lia|apply IH]. Qed.
Lemma deeper_pushes_down d base : forall n from, deeper d (pushes_down d base from n).
Proof. induction n as [|n IH]; intros from; cbn [pushes_down]; constructor; [cbn; lia|apply IH]. Qed.

(** ---------- the descents enclose the multiple of the deepest piece next to the target ---------- *)
Section Descent.

(** [u] = value of a deepest sub-cell; pre-condition: the cell value is [u * 4^fuel], [0 < u], [t < cv] *)
Lemma desc_mass rev strict : forall fuel d ipix u t,
  0 < u -> t < u * 4 ^ N.of_nat fuel ->
  exists r, desc rev fuel d ipix (u * 4 ^ N.of_nat fuel) strict t = Some r /\ deeper d r /\
            mass d (u * 4 ^ N.of_nat fuel) r = u * (t / u) + (if strict then 0 else u).
Proof.
  induction fuel as [|f IH]; intros d ipix u t Hu Ht.
  - cbn [desc N.of_nat] in *. rewrite N.pow_0_r, N.mul_1_r in *.
    destruct (N.ltb_spec u t) as [C|_]; [lia|].
    destruct (N.eqb_spec u t) as [C|_]; [lia|]. cbn [orb].
    rewrite (N.div_small t u Ht), N.mul_0_r.
    destruct strict; cbn [negb]; eexists; (split; [reflexivity|]); (split; [repeat constructor; cbn; lia|]);
      cbn [mass]; unfold piece; cbn [fst]; rewrite ?N.sub_diag, ?N.pow_0_r, ?N.div_1_r; lia.
  - assert (Ecv0 : u * 4 ^ N.of_nat (S f) = 4 * (u * 4 ^ N.of_nat f)).
    { rewrite Nat2N.inj_succ, N.pow_succ_r'. lia. }
    remember (u * 4 ^ N.of_nat (S f)) as cv eqn:Dcv. rename Ecv0 into Ecv.
    assert (Hsub0 : 0 < u * 4 ^ N.of_nat f) by (pose proof (pow4_pos (N.of_nat f)); nia).
    remember (u * 4 ^ N.of_nat f) as sub eqn:Dsub. rename Hsub0 into Hsub.
    assert (Ediv : cv / 4 = sub) by (rewrite Ecv, N.mul_comm; apply N.div_mul; lia).
    cbn [desc]. destruct (N.ltb_spec cv t) as [C|_]; [lia|]. rewrite Ediv.
    destruct (N.eqb_spec sub 0) as [C|_]; [lia|].
    remember (t / sub) as k eqn:Dk. assert (Hk : k < 4) by (subst k; apply N.div_lt_upper_bound; lia).
    destruct (N.leb_spec 4 k) as [C|_]; [lia|].
    pose proof (N.div_mod t sub ltac:(lia)) as Et. rewrite <- Dk in Et.
    assert (Hlt : t mod sub < sub) by (apply N.mod_lt; lia).
    remember (t mod sub) as m eqn:Dm.
    assert (Ht' : t - k * sub = m) by lia.
    rewrite Ht'. rewrite Dsub in Hlt.
    destruct (IH (d + 1) (if rev then 4 * ipix + (3 - k) else 4 * ipix + k) u m Hu Hlt) as [r [Hr [Hd Hm]]].
    rewrite <- Dsub in Hr, Hm, Hlt. rewrite Hr. eexists. split; [reflexivity|]. split.
    + apply deeper_app; [|apply (deeper_weaken (d + 1)); [lia|exact Hd]].
      destruct rev; apply (deeper_weaken (d + 1)); try lia; [apply deeper_pushes_down|apply deeper_pushes].
    + rewrite mass_app. rewrite <- (mass_child d cv r Hd), Ediv, Hm.
      assert (Ep : mass d cv (if rev then pushes_down (d + 1) (4 * ipix) 3 (N.to_nat k) else pushes (d + 1) (4 * ipix) 0 (N.to_nat k)) = k * sub).
      { destruct rev; [rewrite mass_pushes_down|rewrite mass_pushes]; rewrite N2Nat.id;
          replace (d + 1 - d) with 1 by lia; rewrite N.pow_1_r, Ediv; reflexivity. }
      rewrite Ep.
      (* t / u = k * 4^f + (t mod sub) / u *)
      assert (Eq : t / u = k * 4 ^ N.of_nat f + m / u).
      { rewrite Et at 1. rewrite Dsub at 1. replace (u * 4 ^ N.of_nat f * k + m) with (k * 4 ^ N.of_nat f * u + m) by lia.
        rewrite N.div_add_l by lia. reflexivity. }
      rewrite Eq. rewrite Dsub. nia.
Qed.

Lemma desc_rev_mass strict : forall fuel first d ipix u t,
  0 < u -> t < u * 4 ^ N.of_nat fuel ->
  exists r, desc_rev first fuel d ipix (u * 4 ^ N.of_nat fuel) strict t = Some r /\ deeper d r /\
            mass d (u * 4 ^ N.of_nat fuel) r + u * (t / u) + (if strict then u else 0) = u * 4 ^ N.of_nat fuel.
Proof.
  induction fuel as [|f IH]; intros first d ipix u t Hu Ht.
  - cbn [desc_rev N.of_nat] in *. rewrite N.pow_0_r, N.mul_1_r in *.
    destruct (N.ltb_spec u t) as [C|_]; [lia|].
    destruct (N.eqb_spec u t) as [C|_]; [lia|]. cbn [negb andb].
    rewrite (N.div_small t u Ht), N.mul_0_r.
    destruct strict; cbn [negb]; eexists; (split; [reflexivity|]); (split; [repeat constructor; cbn; lia|]);
      cbn [mass]; unfold piece; cbn [fst]; rewrite ?N.sub_diag, ?N.pow_0_r, ?N.div_1_r; lia.
  - assert (Ecv0 : u * 4 ^ N.of_nat (S f) = 4 * (u * 4 ^ N.of_nat f)).
    { rewrite Nat2N.inj_succ, N.pow_succ_r'. lia. }
    remember (u * 4 ^ N.of_nat (S f)) as cv eqn:Dcv. rename Ecv0 into Ecv.
    assert (Hsub0 : 0 < u * 4 ^ N.of_nat f) by (pose proof (pow4_pos (N.of_nat f)); nia).
    remember (u * 4 ^ N.of_nat f) as sub eqn:Dsub. rename Hsub0 into Hsub.
    assert (Ediv : cv / 4 = sub) by (rewrite Ecv, N.mul_comm; apply N.div_mul; lia).
    cbn [desc_rev]. destruct (N.ltb_spec cv t) as [C|_]; [lia|]. rewrite Ediv.
    destruct (N.eqb_spec sub 0) as [C|_]; [lia|].
    remember (t / sub) as k eqn:Dk. assert (Hk : k < 4) by (subst k; apply N.div_lt_upper_bound; lia).
    destruct (N.leb_spec 4 k) as [C|_]; [lia|].
    pose proof (N.div_mod t sub ltac:(lia)) as Et. rewrite <- Dk in Et.
    assert (Hlt : t mod sub < sub) by (apply N.mod_lt; lia).
    remember (t mod sub) as m eqn:Dm.
    assert (Ht' : t - k * sub = m) by lia.
    rewrite Ht'.
    rewrite Dsub in Hlt.
    destruct (IH false (d + 1) (if first then 4 * ipix + (3 - k) else 4 * ipix + k) u m Hu Hlt) as [r [Hr [Hd Hm]]].
    rewrite <- Dsub in Hr, Hm, Hlt. rewrite Hr. eexists. split; [reflexivity|]. split.
    + apply deeper_app; [apply (deeper_weaken (d + 1)); [lia|exact Hd]|].
      destruct first; apply (deeper_weaken (d + 1)); try lia; [apply deeper_pushes_down|apply deeper_pushes].
    + rewrite mass_app. rewrite <- (mass_child d cv r Hd), Ediv.
      assert (Ep : mass d cv (if first then pushes_down (d + 1) (4 * ipix) (3 - k - 1) (N.to_nat (3 - k))
                              else pushes (d + 1) (4 * ipix) (k + 1) (N.to_nat (3 - k))) = (3 - k) * sub).
      { destruct first; [rewrite mass_pushes_down|rewrite mass_pushes]; rewrite N2Nat.id;
          replace (d + 1 - d) with 1 by lia; rewrite N.pow_1_r, Ediv; reflexivity. }
      rewrite Ep.
      assert (Eq : t / u = k * 4 ^ N.of_nat f + m / u).
      { rewrite Et at 1. rewrite Dsub at 1. replace (u * 4 ^ N.of_nat f * k + m) with (k * 4 ^ N.of_nat f * u + m) by lia.
        rewrite N.div_add_l by lia. reflexivity. }
      rewrite Eq. rewrite Ecv. rewrite Dsub in *. nia.
Qed.

End Descent.

(** the bracket each descent guarantees, in the property's words *)
Theorem desc_bracket rev strict fuel d ipix u t : 0 < u -> t < u * 4 ^ N.of_nat fuel ->
  exists r, desc rev fuel d ipix (u * 4 ^ N.of_nat fuel) strict t = Some r /\
    let m := mass d (u * 4 ^ N.of_nat fuel) r in
    if strict then m <= t /\ t < m + u else t < m /\ m <= t + u.
Proof.
  intros Hu Ht. destruct (desc_mass rev strict fuel d ipix u t Hu Ht) as [r [Hr [_ Hm]]].
  exists r. split; [exact Hr|]. cbv zeta. rewrite Hm.
  pose proof (N.div_mod t u ltac:(lia)) as E. pose proof (N.mod_lt t u ltac:(lia)) as L.
  remember (t mod u) as m' eqn:Dm'. remember (t / u) as q' eqn:Dq'. clear Dm' Dq' Hr.
  destruct strict; nia.
Qed.

Theorem desc_rev_bracket first strict fuel d ipix u t : 0 < u -> t < u * 4 ^ N.of_nat fuel ->
  exists r, desc_rev first fuel d ipix (u * 4 ^ N.of_nat fuel) strict t = Some r /\
    let m := mass d (u * 4 ^ N.of_nat fuel) r in
    let rest := u * 4 ^ N.of_nat fuel - t in             (* value of the cell lying after the threshold *)
    if strict then m <= rest /\ rest <= m + u else rest <= m /\ m < rest + u.
Proof.
  intros Hu Ht. destruct (desc_rev_mass strict fuel first d ipix u t Hu Ht) as [r [Hr [_ Hm]]].
  exists r. split; [exact Hr|]. cbv zeta.
  pose proof (N.div_mod t u ltac:(lia)) as E. pose proof (N.mod_lt t u ltac:(lia)) as L.
  remember (t mod u) as m' eqn:Dm'. remember (t / u) as q' eqn:Dq'. clear Dm' Dq' Hr.
  destruct strict; nia.
Qed.

(** ---------- verified checker of the property on an (input, output) pair ----------
    [sel c] = value of map cell [c] enclosed by the output (supplied in the same unit) *)
Definition bracketb (strict : bool) (target total slack : N) : bool :=
  if strict then (total <=? target) && (target <=? total + slack)
  else (target <=? total) && (total <=? target + slack).

Lemma bracketb_spec strict target total slack :
  bracketb strict target total slack = true <->
  if strict then total <= target /\ target <= total + slack else target <= total /\ total <= target + slack.
Proof. unfold bracketb. destruct strict; rewrite andb_true_iff, !N.leb_le; reflexivity. Qed.
