(** Model/SetEffects2.v — C16, continued: every boundary of a status change and of a purge.
    (Model/SetEffects.v holds the model and the append theorems.) *)
From Coq Require Import List NArith Arith Lia Bool.
From MOC.Model Require Import SetEffects.
Import ListNotations.
Open Scope N_scope.

Section Chg.
Variable D : Type.
Variable empty_payload : D.

Lemma in_firstn {A} (l : list A) : forall k x, In x (firstn k l) -> In x l.
Proof.
  induction l as [|a t IH]; intros [|k] x H; cbn in H; try contradiction.
  destruct H as [<-|H]; [left; reflexivity|right; apply (IH k x H)].
Qed.

Lemma set_nth_map_some (ms : list ment) r : forall i m',
  (i < length ms)%nat ->
  set_nth i (Some m') (map Some ms ++ repeat None r) = map Some (set_nth i m' ms) ++ repeat None r.
Proof.
  induction ms as [|m t IH]; intros [|i] m' H; cbn in H; try lia; cbn; [reflexivity|].
  rewrite IH by lia. reflexivity.
Qed.

(** per-entry relation between the state before and a state reached during a status change *)
Definition chg_rel (st : status) (m m' : ment) : Prop :=
  m_id m' = m_id m /\ m_depth m' = m_depth m /\ (m_st m' = m_st m \/ m_st m' = st).

Lemma forall2_set_nth st ms : forall ms_k i m m',
  Forall2 (chg_rel st) ms ms_k -> nth_error ms i = Some m -> chg_rel st m m' ->
  Forall2 (chg_rel st) ms (set_nth i m' ms_k).
Proof.
  induction ms as [|a t IH]; intros ms_k i m m' H Hn Hr; [destruct i; discriminate|].
  inversion H as [|? b ? t' Hab Ht]; subst. destruct i as [|i]; cbn in Hn |- *.
  - inversion Hn; subst. constructor; assumption.
  - constructor; [exact Hab|]. apply (IH t' i m m'); assumption.
Qed.

(** the stores of a status change: entry [j] (an existing entry [m]) gets status [st] *)
Definition good_store (st : status) (ms : list ment) (e : effect D) : Prop :=
  match e with
  | ELock | EUnlock => True
  | EMain (EMeta j (Some m')) =>
      exists m, nth_error ms j = Some m /\ m' = {| m_st := st; m_id := m_id m; m_depth := m_depth m |}
  | _ => False
  end.

Lemma chg_effects_from_good st ids : forall suffix pre,
  Forall (good_store st (pre ++ suffix)) (chg_effects_from D (length pre) suffix ids st).
Proof.
  induction suffix as [|m t IH]; intros pre; [constructor|]. cbn [chg_effects_from].
  apply Forall_app. split.
  - destruct (liveb m && existsb (N.eqb (m_id m)) ids && negb _); [|constructor].
    constructor; [|constructor]. cbn. exists m. split; [|reflexivity].
    rewrite nth_error_app2 by lia. rewrite Nat.sub_diag. reflexivity.
  - specialize (IH (pre ++ [m])). rewrite <- app_assoc in IH. cbn [app] in IH.
    rewrite app_length in IH. cbn [length] in IH. rewrite Nat.add_1_r in IH. exact IH.
Qed.

(** invariant of a world during a status change started on file [f] *)
Definition chg_inv (st : status) (f : file D) (ms : list ment) (r : nat) (w : world D) : Prop :=
  exists ms_k, meta (main w) = map Some ms_k ++ repeat None r /\ length ms_k = length ms /\
               Forall2 (chg_rel st) ms ms_k /\
               index (main w) = index f /\ flen (main w) = flen f /\ segs (main w) = segs f.

Lemma forall2_refl st ms : Forall2 (chg_rel st) ms ms.
Proof. induction ms; constructor; [unfold chg_rel; tauto|assumption]. Qed.

Lemma forall2_nth st ms : forall ms_k j m, Forall2 (chg_rel st) ms ms_k -> nth_error ms j = Some m ->
  (j < length ms_k)%nat.
Proof.
  induction ms as [|a t IH]; intros ms_k j m H Hn; [destruct j; discriminate|].
  inversion H; subst. destruct j; cbn in *; [lia|]. specialize (IH _ _ _ H4 Hn). lia.
Qed.

Lemma chg_run_inv st f ms r : forall l w,
  Forall (good_store st ms) l -> chg_inv st f ms r w -> chg_inv st f ms r (run w l).
Proof.
  induction l as [|e t IH]; intros w Hl Hw; [exact Hw|]. inversion Hl as [|? ? He Ht]; subst.
  cbn [run fold_left]. change (fold_left apply t (apply w e)) with (run (apply w e) t).
  apply IH; [exact Ht|]. destruct Hw as (ms_k & Hm & Hlen & Hrel & Hi & Hf & Hs).
  destruct e as [| |fe|f0|fe|]; cbn in He; try contradiction.
  - exists ms_k. cbn. tauto.
  - exists ms_k. cbn. tauto.
  - destruct fe as [off n p|i v|j [m'|]]; try contradiction. destruct He as (m & Hn & ->).
    exists (set_nth j {| m_st := st; m_id := m_id m; m_depth := m_depth m |} ms_k).
    cbn [apply main fapply meta index flen segs]. rewrite Hm.
    pose proof (forall2_nth st ms ms_k j m Hrel Hn) as Hj.
    rewrite set_nth_map_some by exact Hj. split; [reflexivity|].
    split; [rewrite length_set_nth; exact Hlen|].
    split; [apply (forall2_set_nth st ms ms_k j m); [exact Hrel|exact Hn|unfold chg_rel; cbn; tauto]|].
    tauto.
Qed.

(** STATUS CHANGE: at EVERY boundary between two metadata stores (and after a kill there) a
    reader sees every MOC of the state before with its complete data, each with its old or
    its new status (entry-wise before-or-after), and never fails *)
Theorem chg_prefix_consistent f ms r ids st v0 k :
  meta f = map Some ms ++ repeat None r ->
  view empty_payload f = Some v0 ->
  let w := run {| main := f; lock := false; tmp := None |} (firstn k (chg_effects f ids st)) in
  exists ms_k, view empty_payload (main w) = Some (combine ms_k (map snd v0)) /\
               length ms_k = length ms /\ Forall2 (chg_rel st) ms ms_k.
Proof.
  intros Hmeta Hview. cbv zeta.
  assert (HL : listed (meta f) = ms) by (rewrite Hmeta; apply listed_voids).
  assert (G : Forall (good_store st ms) (chg_effects f ids st)).
  { unfold chg_effects. rewrite HL. constructor; [exact I|]. apply Forall_app. split.
    - apply (chg_effects_from_good st ids ms []).
    - constructor; [exact I|constructor]. }
  assert (Gk : Forall (good_store st ms) (firstn k (chg_effects f ids st))).
  { rewrite Forall_forall in *. intros e He. apply G. apply (in_firstn _ _ _ He). }
  destruct (chg_run_inv st f ms r _ {| main := f; lock := false; tmp := None |} Gk) as (ms_k & Hm & Hlen & Hrel & Hi & Hf & Hs).
  { exists ms. cbn. repeat split; try reflexivity; [exact Hmeta|apply forall2_refl]. }
  exists ms_k. split; [|split; assumption].
  set (w := run _ _) in *. unfold view. rewrite Hm, listed_voids.
  unfold view in Hview. rewrite HL in Hview.
  rewrite (view_listed_status_irrelevant D empty_payload ms ms_k (index (main w)) (main w) Hlen).
  assert (E : view_listed empty_payload ms (index (main w)) (main w) = view_listed empty_payload ms (index f) f).
  { rewrite Hi. apply view_listed_ext. intros s e. unfold read_seg. rewrite Hf, Hs. reflexivity. }
  rewrite E, Hview. reflexivity.
Qed.

(** PURGE: at every boundary the file a reader opens is either the file before (untouched) or
    the completed temporary file; the switch happens at the rename and only there *)
Theorem purge_prefix_main f0 live f k :
  let effs := purge_effects f0 live in
  let w := run {| main := f; lock := false; tmp := None |} (firstn k effs) in
  ((k <= 2 + length (purge_copy D 0%nat (nth 0%nat (index f0) 0%N) live))%nat -> main w = f) /\
  ((2 + length (purge_copy D 0%nat (nth 0%nat (index f0) 0%N) live) < k)%nat ->
     Some (main w) = tmp (run {| main := f; lock := false; tmp := None |}
                            ([ELock; ETmpCreate f0] ++ purge_copy D 0%nat (nth 0%nat (index f0) 0%N) live))).
Proof.
  cbv zeta. unfold purge_effects. set (cp := purge_copy D 0%nat (nth 0%nat (index f0) 0%N) live).
  assert (TMPONLY : Forall (fun e : effect D => match e with ETmp _ | ETmpCreate _ | ELock | EUnlock => True | _ => False end)
                           ([ELock; ETmpCreate f0] ++ cp)).
  { apply Forall_app. split; [repeat constructor|]. unfold cp. generalize (nth 0%nat (index f0) 0%N). generalize 0%nat.
    induction live as [|[[m p] n] t IH]; intros k0 off; [constructor|]. cbn [purge_copy app].
    repeat constructor. apply IH. }
  split.
  - intros Hk. apply run_tmp_only_main.
    assert (P : firstn k (([ELock; ETmpCreate f0] ++ cp) ++ [ERename; EUnlock]) = firstn k ([ELock; ETmpCreate f0] ++ cp)).
    { rewrite firstn_app. replace (k - length ([ELock; ETmpCreate f0] ++ cp))%nat with 0%nat by (rewrite app_length; cbn [length]; lia).
      cbn [firstn]. apply app_nil_r. }
    rewrite <- app_assoc in P. rewrite P. rewrite Forall_forall in *. intros e He. apply TMPONLY. apply (in_firstn _ _ _ He).
  - intros Hk.
    assert (P : firstn k ([ELock; ETmpCreate f0] ++ cp ++ [ERename; EUnlock]) =
                ([ELock; ETmpCreate f0] ++ cp) ++ firstn (k - (2 + length cp)) [ERename; EUnlock]).
    { rewrite app_assoc. rewrite firstn_app. rewrite app_length. cbn [length].
      rewrite firstn_all2 by (rewrite app_length; cbn [length]; lia). reflexivity. }
    rewrite P. unfold run at 1. rewrite fold_left_app. fold (run {| main := f; lock := false; tmp := None |} ([ELock; ETmpCreate f0] ++ cp)).
    set (w1 := run _ ([ELock; ETmpCreate f0] ++ cp)).
    assert (T1 : exists t, tmp w1 = Some t).
    { unfold w1. unfold run. rewrite fold_left_app. cbn [fold_left apply tmp]. fold (run {| main := f; lock := true; tmp := Some f0 |} cp).
      clear. unfold cp. generalize (nth 0%nat (index f0) 0%N). generalize 0%nat.
      assert (GEN : forall l (w0 : world D) k0 off, (exists t0, tmp w0 = Some t0) -> exists t, tmp (run w0 (purge_copy D k0 off l)) = Some t).
      { induction l as [|[[m p] n] t IH]; intros w0 k0 off [t0 H0]; [cbn; eauto|].
        cbn [purge_copy app run fold_left]. apply IH. cbn [apply tmp]. rewrite H0. cbn. eauto. }
      intros k0 off. apply GEN. cbn. eauto. }
    destruct T1 as [t Ht]. rewrite Ht.
    destruct (k - (2 + length cp))%nat as [|[|j]] eqn:Ek; [lia| |]; cbn [firstn fold_left apply]; rewrite Ht; [reflexivity|].
    rewrite firstn_nil. reflexivity.
Qed.

(** ---------- the temporary file built by purge reads back as the live entries ---------- *)
Record Shape (f : file D) (ms : list ment) (r : nat) (v : list (ment * D)) : Prop :=
  { sh_meta : meta f = map Some ms ++ repeat None r;
    sh_len : length (index f) = (length ms + r + 1)%nat;
    sh_view : view empty_payload f = Some v;
    sh_mono : forall i, (i <= length ms)%nat -> nth i (index f) 0 <= nth (length ms) (index f) 0;
    sh_end : nth (length ms) (index f) 0 <= flen f }.

Lemma set_nth_void_snoc (ms : list ment) r m :
  set_nth (length ms) (Some m) (map Some ms ++ repeat None (S r)) = map Some (ms ++ [m]) ++ repeat None r.
Proof. induction ms as [|x t IH]; cbn; [reflexivity|]. cbn in IH. rewrite IH. reflexivity. Qed.

(** one entry copied = data written, index stored, metadata stored *)
Definition copy3 (f : file D) (m : ment) (n : N) (p : D) : file D :=
  let k := length (listed (meta f)) in
  let off := nth k (index f) 0 in
  fapply (fapply (fapply f (EData off n p)) (EIndex (S k) (off + n))) (EMeta k (Some m)).

Lemma copy3_shape f ms r v m n p : Shape f ms (S r) v -> (n = 0 -> p = empty_payload) ->
  Shape (copy3 f m n p) (ms ++ [m]) r (v ++ [(m, p)]).
Proof.
  intros [Hmeta Hlen Hview Hmono Hend] Hp.
  assert (HL : listed (meta f) = ms) by (rewrite Hmeta; apply listed_voids).
  unfold copy3. rewrite HL. set (off := nth (length ms) (index f) 0) in *.
  unfold view in Hview. rewrite HL in Hview.
  assert (E : view_listed empty_payload ms (set_nth (S (length ms)) (off + n) (index f))
                {| meta := set_nth (length ms) (Some m) (map Some ms ++ repeat None (S r));
                   index := set_nth (S (length ms)) (off + n) (index f);
                   flen := N.max (flen f) (off + n);
                   segs := (off, off + n, p) :: filter (fun g => negb (overlaps D off (off + n) g)) (segs f) |} = Some v).
  { rewrite view_listed_set_beyond by lia.
    rewrite (view_listed_ext D empty_payload ms (index f) (write_seg off n p f)); [|intros; reflexivity].
    apply view_listed_after_write; assumption. }
  constructor.
  - cbn [fapply meta write_seg]. rewrite Hmeta. apply set_nth_void_snoc.
  - cbn [fapply index write_seg]. rewrite length_set_nth, app_length. cbn [length]. lia.
  - unfold view. cbn [fapply meta index write_seg]. rewrite Hmeta, listed_set_void.
    rewrite (view_listed_snoc D empty_payload ms _ _ m v); [|rewrite length_set_nth; lia|exact E].
    rewrite nth_set_nth_neq by lia. rewrite nth_set_nth_eq by lia. fold off.
    unfold read_seg. cbn [flen segs]. unfold write_seg. cbn [flen segs].
    destruct (N.leb_spec off (off + n)) as [_|C]; [|lia].
    destruct (N.leb_spec (off + n) (N.max (flen f) (off + n))) as [_|C]; [|lia]. cbn [andb negb].
    destruct (N.eqb_spec off (off + n)) as [E0|E0].
    + rewrite Hp by lia. reflexivity.
    + cbn [lookup]. rewrite !N.eqb_refl. reflexivity.
  - cbn [fapply index write_seg]. rewrite app_length. cbn [length]. intros i Hi.
    replace (length ms + 1)%nat with (S (length ms)) by lia. rewrite nth_set_nth_eq by lia.
    destruct (Nat.eq_dec i (S (length ms))) as [->|Hne]; [rewrite nth_set_nth_eq by lia; lia|].
    rewrite nth_set_nth_neq by lia. specialize (Hmono i ltac:(lia)). fold off in Hmono. lia.
  - cbn [fapply index flen write_seg]. rewrite app_length. cbn [length].
    replace (length ms + 1)%nat with (S (length ms)) by lia. rewrite nth_set_nth_eq by lia. lia.
Qed.

Fixpoint copy_all (f : file D) (l : list (ment * D * N)) : file D :=
  match l with [] => f | (m, p, n) :: t => copy_all (copy3 f m n p) t end.

Lemma copy_all_shape : forall l f ms r v,
  Shape f ms (length l + r) v -> Forall (fun x => snd x = 0 -> snd (fst x) = empty_payload) l ->
  Shape (copy_all f l) (ms ++ map (fun x => fst (fst x)) l) r (v ++ map (fun x => (fst (fst x), snd (fst x))) l).
Proof.
  induction l as [|[[m p] n] t IH]; intros f ms r v Hs Hl; cbn [copy_all map]; [rewrite !app_nil_r; exact Hs|].
  inversion Hl as [|? ? Hx Ht]; subst. cbn [fst snd] in Hx.
  cbn [length] in Hs. replace (S (length t) + r)%nat with (S (length t + r)) in Hs by lia.
  pose proof (copy3_shape f ms (length t + r) v m n p Hs Hx) as Hs'.
  specialize (IH (copy3 f m n p) (ms ++ [m]) r (v ++ [(m, p)]) Hs' Ht).
  rewrite <- !app_assoc in IH. exact IH.
Qed.

(** the effects of purge on the temporary file are exactly [copy_all] *)
Lemma purge_copy_tmp : forall l (w : world D) t0 ms r v,
  tmp w = Some t0 -> Shape t0 ms (length l + r) v ->
  Forall (fun x => snd x = 0 -> snd (fst x) = empty_payload) l ->
  tmp (run w (purge_copy D (length ms) (nth (length ms) (index t0) 0) l)) = Some (copy_all t0 l).
Proof.
  induction l as [|[[m p] n] t IH]; intros w t0 ms r v Ht Hs Hl; [exact Ht|].
  inversion Hl as [|? ? Hx Hl']; subst. cbn [fst snd] in Hx.
  cbn [purge_copy app copy_all]. unfold run. cbn [fold_left].
  set (w3 := apply (apply (apply w _) _) _).
  match goal with |- tmp (fold_left apply ?l w3) = _ => change (fold_left apply l w3) with (run w3 l) end.
  assert (HL : listed (meta t0) = ms) by (rewrite (sh_meta _ _ _ _ Hs); apply listed_voids).
  assert (T3 : tmp w3 = Some (copy3 t0 m n p)).
  { unfold w3. cbn [apply tmp option_map]. rewrite Ht. cbn [option_map]. unfold copy3. rewrite HL. reflexivity. }
  cbn [length] in Hs. replace (S (length t) + r)%nat with (S (length t + r)) in Hs by lia.
  pose proof (copy3_shape t0 ms (length t + r) v m n p Hs Hx) as Hs'.
  specialize (IH w3 (copy3 t0 m n p) (ms ++ [m]) r (v ++ [(m, p)]) T3 Hs' Hl').
  rewrite app_length in IH. cbn [length] in IH. replace (length ms + 1)%nat with (S (length ms)) in IH by lia.
  assert (Eoff : nth (S (length ms)) (index (copy3 t0 m n p)) 0 = nth (length ms) (index t0) 0 + n).
  { unfold copy3. rewrite HL. cbn [fapply index write_seg]. apply nth_set_nth_eq.
    rewrite (sh_len _ _ _ _ Hs). lia. }
  rewrite Eoff in IH. exact IH.
Qed.

(** PURGE, completed: the file that replaces the moc-set reads back as exactly the live
    entries, in order, each with its data *)
Theorem purge_completed_view f f0 live r :
  Shape f0 [] (length live + r) [] ->
  Forall (fun x => snd x = 0 -> snd (fst x) = empty_payload) live ->
  let w := run {| main := f; lock := false; tmp := None |} (purge_effects f0 live) in
  view empty_payload (main w) = Some (map (fun x => (fst (fst x), snd (fst x))) live) /\
  lock w = false /\ tmp w = None.
Proof.
  intros Hs Hl. cbv zeta. unfold purge_effects, run. rewrite !fold_left_app. cbn [fold_left apply main lock tmp].
  set (w2 := {| main := f; lock := true; tmp := Some f0 |}).
  fold (run w2 (purge_copy D 0 (nth 0 (index f0) 0) live)).
  pose proof (purge_copy_tmp live w2 f0 [] r [] eq_refl Hs Hl) as HT. cbn [length] in HT.
  rewrite HT. cbn [main lock tmp]. split; [|split; reflexivity].
  pose proof (copy_all_shape live f0 [] r [] Hs Hl) as HS. cbn [app] in HS. exact (sh_view _ _ _ _ HS).
Qed.

End Chg.
