(** Model/IntersectsE.v — (F) the MOC x MOC overlap test of src/ranges/mod.rs
    (BorrowedRanges::intersects, "quickly adapted from intersection"): quick rejection on the first
    start / last end of both operands, binary search on the starts of the operand that begins first
    (Ok(i) => i, Err(i) => i - 1), then the two-way loop that skips the ranges ending at or before the
    other operand's current start and answers true at the first pair that overlaps.
    Theorem: on canonical operands it answers true exactly when some index is covered by both. *)
From Coq Require Import List NArith Arith Lia Bool.
From MOC.Base Require Import RangeSet.
From MOC.Model Require Import Query LazyOps FracBS EagerOps.
Import ListNotations.
Open Scope N_scope.

(** the loop: the same case analysis as [LazyOps.and_l], answering at the first overlap *)
Fixpoint any_l (A : list range) : list range -> bool :=
  fix inner (B : list range) : bool :=
    match A, B with
    | l :: A', r :: B' =>
        if snd l <=? fst r then any_l A' B
        else if snd r <=? fst l then inner B'
        else true
    | _, _ => false
    end.

Definition intersects_e (l r : list range) : bool :=
  match l, r with
  | [], _ | _, [] => false
  | _, _ =>
      if (last_end0 r <=? first_start l) || (last_end0 l <=? first_start r) then false
      else
        match first_start l ?= first_start r with
        | Lt => let i := rankS l (first_start r) in
                let il := if foundS l (first_start r) then i else pred i in
                any_l (skipn il l) r
        | Gt => let i := rankS r (first_start l) in
                let ir := if foundS r (first_start l) then i else pred i in
                any_l l (skipn ir r)
        | Eq => any_l l r
        end
  end.

(** the loop answers true exactly when the intersection loop yields something *)
Definition nonnil {A} (l : list A) : bool := match l with [] => false | _ => true end.

Lemma any_l_nil_r A : any_l A [] = false.
Proof. destruct A; reflexivity. Qed.
Lemma any_l_cons l A' r B' :
  any_l (l :: A') (r :: B') =
    if snd l <=? fst r then any_l A' (r :: B') else if snd r <=? fst l then any_l (l :: A') B' else true.
Proof. reflexivity. Qed.

Lemma any_l_and_l : forall A B, any_l A B = nonnil (and_l A B).
Proof.
  induction A as [|l A' IHA]; intros B; [rewrite and_l_nil_l; destruct B; reflexivity|].
  induction B as [|r B' IHB]; [rewrite and_l_nil_r, any_l_nil_r; reflexivity|].
  rewrite any_l_cons, and_l_cons. destruct (snd l <=? fst r); [apply IHA|]. destruct (snd r <=? fst l); [exact IHB|].
  destruct (snd l ?= snd r); reflexivity.
Qed.

Theorem intersects_e_spec l r : Canon l -> Canon r ->
  (intersects_e l r = true <-> exists x, cov l x /\ cov r x).
Proof.
  intros Hl Hr.
  assert (E : intersects_e l r = nonnil (inter_e l r)).
  { unfold intersects_e, inter_e. destruct l as [|l0 l']; [reflexivity|]. destruct r as [|r0 r']; [reflexivity|].
    destruct ((last_end0 (r0 :: r') <=? first_start (l0 :: l')) || (last_end0 (l0 :: l') <=? first_start (r0 :: r'))); [reflexivity|].
    destruct (first_start (l0 :: l') ?= first_start (r0 :: r')); cbv zeta; apply any_l_and_l. }
  rewrite E. destruct (inter_e_spec l r Hl Hr) as [C Cv]. split.
  - intros H. destruct (inter_e l r) as [|a t] eqn:K; [discriminate|].
    cbn [Canon sorted_from] in C. destruct C as (_ & C2 & _). exists (fst a). apply Cv. exists a. split; [left; reflexivity|unfold inr; lia].
  - intros [x Hx]. apply Cv in Hx. destruct (inter_e l r); [destruct (cov_nil _ Hx)|reflexivity].
Qed.

Theorem intersects_e_eq_spec l r : Canon l -> Canon r -> intersects_e l r = intersects l r.
Proof.
  intros Hl Hr. destruct (intersects_e l r) eqn:A; destruct (intersects l r) eqn:B; try reflexivity.
  - apply (intersects_e_spec l r Hl Hr) in A. apply (intersects_spec l r Hl Hr) in A. congruence.
  - apply (intersects_spec l r Hl Hr) in B. apply (intersects_e_spec l r Hl Hr) in B. congruence.
Qed.

Example intersects_e_examples :
  intersects_e [(0, 2); (4, 6); (10, 12); (20, 30)] [(12, 20); (40, 41)] = false /\
  intersects_e [(0, 2); (4, 6); (10, 12); (20, 30)] [(11, 21); (40, 41)] = true /\
  intersects_e [(0, 5)] [(5, 9)] = false /\ intersects_e [(5, 9)] [(0, 6)] = true.
Proof. repeat split; vm_compute; reflexivity. Qed.
