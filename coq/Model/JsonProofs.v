(** Model/JsonProofs.v — proofs about Model/JsonCodec.v:
      jlex_render : the lexer on any well-formed rendering (arbitrary JSON white space between tokens)
                    gives back the tokens;
      prun_toks   : the pushdown parser on the tokens of ANY value tree gives back the tree
                    (so jparse (render of a tree) = the tree);
      json_roundtrip : from_json (to_json dmax fold prefix cells) = AOk (dmax, sortf (regroup cells)). *)
From Coq Require Import List NArith Arith Lia Bool Permutation.
From MOC.Base Require Import RangeSet.
From MOC.Model Require Import Qty Query Build Repr AsciiCodec AsciiProofs JsonCodec.
Import ListNotations.
Open Scope N_scope.

(** ---------- tokens of a tree ---------- *)
Fixpoint sep_toks (l : list (list jtok)) : list jtok :=
  match l with
  | [] => []
  | x :: t => match t with [] => x | _ => x ++ JCom :: sep_toks t end
  end.

Fixpoint toks (v : jv) : list jtok :=
  match v with
  | VNum n => [JNum n]
  | VStr s => [JStr s]
  | VArr l => JLK :: sep_toks (map toks l) ++ [JRK]
  | VObj l => JLB :: sep_toks (map (fun kv => JStr (fst kv) :: JCol :: toks (snd kv)) l) ++ [JRB]
  end.

Section jv_ind2.
  Variable P : jv -> Prop.
  Hypothesis Hn : forall n, P (VNum n).
  Hypothesis Hs : forall s, P (VStr s).
  Hypothesis Ha : forall l, Forall P l -> P (VArr l).
  Hypothesis Ho : forall l, Forall (fun kv => P (snd kv)) l -> P (VObj l).
  Fixpoint jv_ind2 (v : jv) : P v :=
    match v with
    | VNum n => Hn n
    | VStr s => Hs s
    | VArr l => Ha l ((fix go (l : list jv) : Forall P l :=
                         match l with [] => Forall_nil _ | x :: t => Forall_cons x (jv_ind2 x) (go t) end) l)
    | VObj l => Ho l ((fix go (l : list (list N * jv)) : Forall (fun kv => P (snd kv)) l :=
                         match l with
                         | [] => Forall_nil _
                         | kv :: t => Forall_cons kv (match kv return P (snd kv) with (k, x) => jv_ind2 x end) (go t)
                         end) l)
    end.
End jv_ind2.

Definition run_after (p : pmode * list frame) (ts : list jtok) : option jv := prun (fst p) (snd p) ts.

Lemma toks_head v : exists t r, toks v = t :: r /\ (forall K, pstep PArr0 K t = pval t (FArr [] :: K)) /\ (forall K, pstep PVal K t = pval t K).
Proof.
  destruct v as [n|s|l|l]; cbn [toks]; eexists; eexists; (split; [reflexivity|]); split; intros K; reflexivity.
Qed.

Definition after_first (l : list (list jtok)) : list jtok :=
  match l with [] => [] | _ => JCom :: sep_toks l end.

Lemma sep_toks_cons x t : sep_toks (x :: t) = x ++ after_first t.
Proof. cbn [sep_toks]. destruct t; cbn [after_first]; [rewrite app_nil_r|]; reflexivity. Qed.

Definition Pv (v : jv) : Prop := forall K rest, prun PVal K (toks v ++ rest) = run_after (deliver v K) rest.

Lemma arr_rest : forall l done K rest, Forall Pv l ->
  prun (PArrNext done) K (after_first (map toks l) ++ JRK :: rest) = run_after (deliver (VArr (done ++ l)) K) rest.
Proof.
  induction l as [|x t IH]; intros done K rest HF.
  - cbn [map after_first app prun pstep]. rewrite app_nil_r. unfold run_after. destruct (deliver _ _). reflexivity.
  - inversion HF as [|? ? Hx Ht]; subst.
    cbn [map after_first]. rewrite sep_toks_cons. cbn [app prun pstep].
    rewrite <- app_assoc. rewrite (Hx (FArr done :: K)). cbn [deliver]. unfold run_after at 1. cbn [fst snd].
    rewrite IH by exact Ht. rewrite <- app_assoc. reflexivity.
Qed.

Lemma obj_rest : forall l done K rest, Forall (fun kv => Pv (snd kv)) l ->
  prun (PObjNext done) K (after_first (map (fun kv => JStr (fst kv) :: JCol :: toks (snd kv)) l) ++ JRB :: rest)
  = run_after (deliver (VObj (done ++ l)) K) rest.
Proof.
  induction l as [|[k x] t IH]; intros done K rest HF.
  - cbn [map after_first app prun pstep]. rewrite app_nil_r. unfold run_after. destruct (deliver _ _). reflexivity.
  - inversion HF as [|? ? Hx Ht]; subst. cbn [snd] in Hx.
    cbn [map after_first fst snd]. rewrite sep_toks_cons. cbn [app prun pstep].
    rewrite <- app_assoc. rewrite (Hx (FObj done k :: K)). cbn [deliver]. unfold run_after at 1. cbn [fst snd].
    rewrite IH by exact Ht. rewrite <- app_assoc. reflexivity.
Qed.

Theorem prun_toks : forall v, Pv v.
Proof.
  apply jv_ind2; unfold Pv.
  - intros n K rest. cbn [toks app prun pstep pval]. unfold run_after. destruct (deliver _ _). reflexivity.
  - intros s K rest. cbn [toks app prun pstep pval]. unfold run_after. destruct (deliver _ _). reflexivity.
  - intros l HF K rest. cbn [toks app prun pstep pval].
    destruct l as [|x t].
    + cbn [map sep_toks app prun pstep]. unfold run_after. destruct (deliver _ _). reflexivity.
    + inversion HF as [|? ? Hx Ht]; subst.
      cbn [map]. rewrite sep_toks_cons, <- !app_assoc.
      destruct (toks_head x) as [t0 [r0 [E [H1 H2]]]].
      assert (Eq : forall r, prun PArr0 K (toks x ++ r) = prun PVal (FArr [] :: K) (toks x ++ r)).
      { intros r. rewrite E. cbn [app prun]. rewrite H1, H2. reflexivity. }
      rewrite Eq, (Hx (FArr [] :: K)). cbn [deliver]. unfold run_after at 1. cbn [fst snd app].
      exact (arr_rest t [x] K rest Ht).
  - intros l HF K rest. cbn [toks app prun pstep pval].
    destruct l as [|[k x] t].
    + cbn [map sep_toks app prun pstep]. unfold run_after. destruct (deliver _ _). reflexivity.
    + inversion HF as [|? ? Hx Ht]; subst. cbn [snd] in Hx.
      cbn [map fst snd]. rewrite sep_toks_cons, <- !app_assoc. cbn [app prun pstep].
      rewrite (Hx (FObj [] k :: K)). cbn [deliver]. unfold run_after at 1. cbn [fst snd app].
      exact (obj_rest t [(k, x)] K rest Ht).
Qed.

Corollary prun_tree v : prun PVal [] (toks v) = Some v.
Proof.
  pose proof (prun_toks v [] []) as H. rewrite app_nil_r in H. exact H.
Qed.

(** ---------- the lexer on a rendering ---------- *)
Definition str_ok (s : list N) : Prop := Forall (fun c => 32 <= c /\ c <> 34 /\ c <> 92 /\ c <= 127) s.

Definition tstr (t : jtok) : list N :=
  match t with
  | JLB => [123] | JRB => [125] | JLK => [91] | JRK => [93] | JCol => [58] | JCom => [44]
  | JStr s => 34 :: s ++ [34]
  | JNum v => adec v
  end.

Inductive jchunk := JWs (s : list N) | JTk (t : jtok).
Definition jcstr (c : jchunk) : list N := match c with JWs s => s | JTk t => tstr t end.
Definition jrender (l : list jchunk) : list N := flat_map jcstr l.
Fixpoint jtoks_of (l : list jchunk) : list jtok :=
  match l with [] => [] | JWs _ :: t => jtoks_of t | JTk x :: t => x :: jtoks_of t end.

Definition is_punct (t : jtok) : bool :=
  match t with JStr _ | JNum _ => false | _ => true end.
Definition num_follow (l : list jchunk) : Prop :=
  match l with JTk JCom :: _ | JTk JRK :: _ => True | _ => False end.

Inductive JWF : list jchunk -> Prop :=
| JWF_nil : JWF []
| JWF_ws s l : allws s -> JWF l -> JWF (JWs s :: l)
| JWF_punct t l : is_punct t = true -> JWF l -> JWF (JTk t :: l)
| JWF_str s l : str_ok s -> JWF l -> JWF (JTk (JStr s) :: l)
| JWF_num v l : v < 2 ^ 64 -> num_follow l -> JWF l -> JWF (JTk (JNum v) :: l).

Lemma JWF_app a b : JWF a -> JWF b -> (a <> [] -> match last a (JWs []) with JTk (JNum _) => False | _ => True end) -> JWF (a ++ b).
Proof.
  intros Ha Hb. induction Ha as [|s l Hs Hl IH|t l Ht Hl IH|s l Hs Hl IH|v l Hv Hf Hl IH]; intros Hlast; cbn [app].
  - exact Hb.
  - constructor; [exact Hs|]. apply IH. intros Hn. destruct l; [congruence|]. apply Hlast. discriminate.
  - constructor; [exact Ht|]. apply IH. intros Hn. destruct l; [congruence|]. apply Hlast. discriminate.
  - constructor; [exact Hs|]. apply IH. intros Hn. destruct l; [congruence|]. apply Hlast. discriminate.
  - constructor; [exact Hv| |].
    + destruct l as [|[s|[]] l]; cbn in Hf |- *; try contradiction; exact I.
    + apply IH. intros Hn. destruct l; [congruence|]. apply Hlast. discriminate.
Qed.

Lemma jrender_app a b : jrender (a ++ b) = jrender a ++ jrender b.
Proof. unfold jrender. apply flat_map_app. Qed.
Lemma jtoks_of_app a b : jtoks_of (a ++ b) = jtoks_of a ++ jtoks_of b.
Proof. induction a as [|[s|t] a IH]; cbn [app jtoks_of]; [reflexivity|exact IH|rewrite IH; reflexivity]. Qed.

Lemma jlex_ws s : allws s -> forall r acc, jlex LIdle (s ++ r) acc = jlex LIdle r acc.
Proof.
  induction 1 as [|c s Hc _ IH]; intros r acc; cbn [app]; [reflexivity|].
  cbn [jlex]. unfold idle_step. rewrite Hc. apply IH.
Qed.

Lemma jlex_str s : str_ok s -> forall cs r acc,
  jlex (LStr cs) (s ++ 34 :: r) acc = jlex LIdle r (acc ++ [JStr (cs ++ s)]).
Proof.
  induction 1 as [|c s Hc _ IH]; intros cs r acc; cbn [app jlex].
  - rewrite app_nil_r. reflexivity.
  - destruct Hc as [H1 [H2 [H3 H4]]].
    destruct (N.eqb_spec c 34); [congruence|].
    destruct (N.ltb_spec c 32); [lia|]. destruct (N.eqb_spec c 92); [congruence|].
    destruct (N.ltb_spec 127 c); [lia|]. cbn [orb].
    rewrite IH, <- app_assoc. reflexivity.
Qed.

Lemma jlex_digits ds : digits ds -> forall ds0 r acc,
  jlex (LNum ds0) (ds ++ r) acc = jlex (LNum (ds0 ++ ds)) r acc.
Proof.
  induction 1 as [|c ds Hc _ IH]; intros ds0 r acc; cbn [app].
  - rewrite app_nil_r. reflexivity.
  - cbn [jlex]. rewrite Hc, IH, <- app_assoc. reflexivity.
Qed.

(** the leading digit of a printed number is not '0' unless the number is 0 *)
Lemma adec_aux_head : forall f x l_acc, x <> 0 -> x < 10 ^ N.of_nat f ->
  exists d r, adec_aux f x l_acc = d :: r /\ d <> 48.
Proof.
  induction f as [|f IH]; intros x l_acc Hx Hlt.
  - cbn in Hlt. lia.
  - cbn [adec_aux]. remember (x / 10) as k eqn:Ek. remember (x mod 10) as m eqn:Em.
    assert (Hdm : x = 10 * k + m /\ m < 10).
    { subst k m. split; [apply N.div_mod; lia|apply N.mod_lt; lia]. }
    destruct (N.eqb_spec k 0) as [Hk|Hk].
    + exists (48 + m), l_acc. split; [reflexivity|]. lia.
    + apply IH; [exact Hk|].
      rewrite Nat2N.inj_succ, N.pow_succ_r' in Hlt. lia.
Qed.

Lemma adec_head x : x < 2 ^ 64 -> (x = 0 /\ adec x = [48]) \/ (exists d r, adec x = d :: r /\ d <> 48).
Proof.
  intros Hx. destruct (N.eq_dec x 0) as [->|Hn]; [left; split; reflexivity|right].
  unfold adec. apply adec_aux_head; [exact Hn|].
  eapply N.lt_trans; [exact Hx|]. vm_compute. reflexivity.
Qed.

Lemma fin_num_adec v : v < 2 ^ 64 -> fin_num (adec v) = Some (JNum v).
Proof.
  intros Hv. destruct (dec_spec v Hv) as [Hne [Hd Hval]].
  unfold fin_num. destruct (adec_head v Hv) as [[-> E]|[d [r [E Hd48]]]].
  - rewrite E. reflexivity.
  - rewrite E in *. destruct r as [|e r].
    + rewrite Hval. destruct (N.ltb_spec v (2 ^ 64)); [reflexivity|lia].
    + destruct (N.eqb_spec d 48); [congruence|]. rewrite Hval.
      destruct (N.ltb_spec v (2 ^ 64)); [reflexivity|lia].
Qed.

Lemma digit_not_ws c : is_digit c = true -> is_ws c = false.
Proof. intros H. destruct (is_ws c) eqn:E; [|reflexivity]. apply ws_not_digit in E. congruence. Qed.

Lemma jlex_num v c r acc : v < 2 ^ 64 -> c = 44 \/ c = 93 ->
  jlex LIdle (adec v ++ c :: r) acc = jlex LIdle (c :: r) (acc ++ [JNum v]).
Proof.
  intros Hv Hc. destruct (dec_spec v Hv) as [Hne [Hd Hval]].
  pose proof (fin_num_adec v Hv) as Hfin.
  destruct (adec v) as [|d ds] eqn:E; [congruence|].
  inversion Hd as [|? ? Hd1 Hds]; subst.
  cbn [app jlex]. unfold idle_step at 1. rewrite (digit_not_ws _ Hd1), Hd1.
  rewrite (jlex_digits ds Hds [d] (c :: r) acc). cbn [app].
  cbn [jlex]. rewrite Hfin.
  destruct Hc as [-> | ->]; reflexivity.
Qed.

Lemma jlex_punct t r acc : is_punct t = true -> jlex LIdle (tstr t ++ r) acc = jlex LIdle r (acc ++ [t]).
Proof. destruct t; cbn [is_punct]; intros H; try discriminate; reflexivity. Qed.

Theorem jlex_render l : JWF l -> forall acc, jlex LIdle (jrender l) acc = Some (acc ++ jtoks_of l).
Proof.
  induction 1 as [|s l Hs Hl IH|t l Ht Hl IH|s l Hs Hl IH|v l Hv Hf Hl IH]; intros acc;
    cbn [jrender flat_map jcstr jtoks_of].
  - cbn [jlex]. rewrite app_nil_r. reflexivity.
  - fold (jrender l). rewrite (jlex_ws s Hs). apply IH.
  - fold (jrender l). rewrite (jlex_punct t _ acc Ht), IH, <- app_assoc. reflexivity.
  - fold (jrender l). cbn [tstr]. cbn [app jlex].
    change (idle_step 34 acc) with (Some (LStr (@nil N), acc)). cbv iota beta.
    rewrite <- app_assoc. cbn [app]. rewrite (jlex_str s Hs [] (jrender l) acc). cbn [app].
    rewrite IH, <- app_assoc. reflexivity.
  - fold (jrender l). cbn [tstr].
    destruct l as [|[s|t] l]; cbn in Hf; try contradiction.
    destruct t; try contradiction.
    + cbn [jrender flat_map jcstr tstr app] in IH |- *. fold (jrender l) in IH |- *.
      rewrite (jlex_num v 93 (jrender l) acc Hv (or_intror eq_refl)).
      rewrite IH, <- app_assoc. reflexivity.
    + cbn [jrender flat_map jcstr tstr app] in IH |- *. fold (jrender l) in IH |- *.
      rewrite (jlex_num v 44 (jrender l) acc Hv (or_introl eq_refl)).
      rewrite IH, <- app_assoc. reflexivity.
Qed.

(** ---------- the writer's buckets ---------- *)
Section JWriter.
  Variable fold : option N.
  Variable prefix : list N.
  Hypothesis prefix_ws : allws prefix.

  Definition jpushf (sd : list N) (c : cell) : list N := jpush fold prefix sd (adec (snd c) ++ [44; 32]).
  Definition selc (d : N) (cells : list cell) : list cell := filter (fun c => fst c =? d) cells.
  Definition jbucket (d : N) (cells : list cell) : list N := fold_left jpushf (selc d cells) (jbucket0 prefix d).

  Lemma jfill_map n : forall cells (g : N -> list N),
    jfill fold prefix cells (map g (anseq 0 n)) =
    map (fun d => fold_left jpushf (selc d cells) (g d)) (anseq 0 n).
  Proof.
    induction cells as [|x cells IH]; intros g; [reflexivity|].
    unfold jfill in *. cbn [fold_left].
    rewrite (upd_nseq (fun sd => jpush fold prefix sd (adec (snd x) ++ [44; 32])) g n 0 (N.to_nat (fst x))).
    rewrite IH. apply map_ext. intros d. unfold selc. cbn [filter].
    rewrite N2Nat.id, N.add_0_l. rewrite (N.eqb_sym d).
    destruct (fst x =? d); reflexivity.
  Qed.

  Definition jgroup (dmax d : N) (s : list N) : option (list N) :=
    if negb (ends_bracket s) then Some (removelast (removelast s) ++ [93])
    else if d =? dmax then Some (s ++ [93]) else None.

  Fixpoint join_groups (first : bool) (G : list (list N)) : list N :=
    match G with
    | [] => []
    | g :: t => (if first then [] else [44; 10]) ++ g ++ join_groups false t
    end.

  Lemma jemit_all_groups dmax (B : N -> list N) n : forall a first,
    jemit_all dmax a first (map B (anseq a n)) =
    join_groups first (flat_map (fun d => match jgroup dmax d (B d) with Some g => [g] | None => [] end) (anseq a n)).
  Proof.
    induction n as [|n IH]; intros a first; [reflexivity|].
    cbn [anseq map jemit_all flat_map]. unfold jgroup at 1.
    destruct (negb (ends_bracket (B a))).
    - cbn [app join_groups]. rewrite IH, <- !app_assoc. reflexivity.
    - destruct (a =? dmax).
      + cbn [app join_groups]. rewrite IH, <- !app_assoc. reflexivity.
      + cbn [app]. apply IH.
  Qed.

  Lemma to_json_groups dmax cells :
    to_json dmax fold prefix cells =
    [123; 10] ++ join_groups true (flat_map (fun d => match jgroup dmax d (jbucket d cells) with Some g => [g] | None => [] end)
                                            (anseq 0 (S (N.to_nat dmax))))
    ++ [10] ++ prefix ++ [125].
  Proof. unfold to_json. rewrite jfill_map, jemit_all_groups. reflexivity. Qed.

  Lemma jpush_shape sd s : exists nl, allws nl /\ jpush fold prefix sd s = sd ++ nl ++ s.
  Proof.
    unfold jpush. destruct fold as [n|].
    - destruct (n <? len sd - rfind_nl sd + len s).
      + exists ([10; 32; 32; 32; 32] ++ prefix). split.
        * repeat (constructor; [reflexivity|]). exact prefix_ws.
        * rewrite <- !app_assoc. reflexivity.
      + exists []. split; [constructor|reflexivity].
    - exists []. split; [constructor|reflexivity].
  Qed.

  Definition elems_str (P : list (list N * N)) : list N :=
    flat_map (fun p => fst p ++ adec (snd p) ++ [44; 32]) P.

  Lemma jpush_all : forall E sd, exists P : list (list N * N),
    map snd P = map snd E /\ Forall (fun p => allws (fst p)) P /\ fold_left jpushf E sd = sd ++ elems_str P.
  Proof.
    induction E as [|c E IH]; intros sd.
    - exists []. cbn. rewrite app_nil_r. repeat split. constructor.
    - cbn [fold_left]. unfold jpushf at 2.
      destruct (jpush_shape sd (adec (snd c) ++ [44; 32])) as [nl [Hnl Ep]]. rewrite Ep.
      destruct (IH (sd ++ nl ++ adec (snd c) ++ [44; 32])) as [P [E1 [E2 E3]]].
      exists ((nl, snd c) :: P). split; [|split].
      + cbn [map snd]. rewrite E1. reflexivity.
      + constructor; [exact Hnl|exact E2].
      + rewrite E3. unfold elems_str. cbn [flat_map fst snd]. rewrite <- !app_assoc. reflexivity.
  Qed.
End JWriter.

(** ---------- a group (one depth) as chunks ---------- *)
Lemma removelast2 {A} (Y : list A) a b : removelast (removelast (Y ++ [a; b])) = Y.
Proof.
  change (Y ++ [a; b]) with (Y ++ [a] ++ [b]). rewrite app_assoc, removelast_last, removelast_last. reflexivity.
Qed.

Lemma digits_str_ok ds : digits ds -> str_ok ds.
Proof.
  intros H. eapply Forall_impl; [|exact H]. intros c Hc. cbn beta in Hc. apply is_digit_spec in Hc. lia.
Qed.

Lemma sep_nums : forall A i, sep_toks (map toks (map VNum (A ++ [i]))) = flat_map (fun a => [JNum a; JCom]) A ++ [JNum i].
Proof.
  induction A as [|a A IH]; intros i; [reflexivity|].
  cbn [app map flat_map]. rewrite sep_toks_cons, <- IH.
  destruct A; reflexivity.
Qed.

Lemma nums_flat (P : list (list N * N)) :
  flat_map (fun p => [JNum (snd p); JCom]) P = flat_map (fun a => [JNum a; JCom]) (map snd P).
Proof. induction P as [|p P IH]; [reflexivity|]. cbn [flat_map map]. rewrite IH. reflexivity. Qed.

Definition member (d : N) (nums : list N) : list jtok := JStr (adec d) :: JCol :: toks (VArr (map VNum nums)).
Definition ends_rk (l : list jchunk) : Prop := exists l', l = l' ++ [JTk JRK].

Section JGroup.
  Variable fold : option N.
  Variable prefix : list N.
  Hypothesis prefix_ws : allws prefix.

  Definition hdr (d : N) : list jchunk :=
    [JWs prefix; JWs [32; 32]; JTk (JStr (adec d)); JTk JCol; JWs [32]; JTk JLK].

  Lemma hdr_render d : jrender (hdr d) = jbucket0 prefix d.
  Proof. unfold hdr, jbucket0, jrender. cbn [flat_map jcstr tstr app]. rewrite <- app_assoc. reflexivity. Qed.

  Definition elem_chunks (P : list (list N * N)) : list jchunk :=
    flat_map (fun p => [JWs (fst p); JTk (JNum (snd p)); JTk JCom; JWs [32]]) P.

  Lemma elem_chunks_render P : jrender (elem_chunks P) = elems_str P.
  Proof.
    induction P as [|p P IH]; [reflexivity|].
    unfold elem_chunks, elems_str in *. cbn [flat_map]. rewrite jrender_app, IH.
    cbn [jrender flat_map jcstr tstr]. rewrite <- !app_assoc. reflexivity.
  Qed.

  Lemma elem_chunks_wf P tail : Forall (fun p => allws (fst p) /\ snd p < 2 ^ 64) P -> JWF tail -> JWF (elem_chunks P ++ tail).
  Proof.
    induction 1 as [|p P [Hp1 Hp2] _ IH]; intros Ht; [exact Ht|].
    unfold elem_chunks. cbn [flat_map app]. fold (elem_chunks P).
    constructor; [exact Hp1|]. constructor; [exact Hp2|exact I|].
    constructor; [reflexivity|]. constructor; [repeat constructor|]. apply IH. exact Ht.
  Qed.

  Lemma elem_chunks_toks P : jtoks_of (elem_chunks P) = flat_map (fun p => [JNum (snd p); JCom]) P.
  Proof. induction P as [|p P IH]; [reflexivity|]. unfold elem_chunks in *. cbn [flat_map app jtoks_of]. rewrite IH. reflexivity. Qed.

  Lemma hdr_wf d tail : d < 2 ^ 64 -> JWF tail -> JWF (hdr d ++ tail).
  Proof.
    intros Hd Ht. unfold hdr. cbn [app].
    constructor; [exact prefix_ws|]. constructor; [repeat constructor|].
    apply JWF_str; [apply digits_str_ok; apply (dec_spec d Hd)|].
    constructor; [reflexivity|]. constructor; [repeat constructor|]. constructor; [reflexivity|exact Ht].
  Qed.

  (** the group of depth d: None, or the rendering of well-formed chunks whose tokens are the member d *)
  Lemma group_shape dmax d cells :
    d < 2 ^ 64 -> Forall (fun c => snd c < 2 ^ 64) cells ->
    match jgroup dmax d (jbucket fold prefix d cells) with
    | None => selc d cells = [] /\ d <> dmax
    | Some g => (selc d cells <> [] \/ d = dmax) /\
                exists l, g = jrender l /\ JWF l /\ ends_rk l /\ jtoks_of l = member d (map snd (selc d cells))
    end.
  Proof.
    intros Hd Hc. unfold jbucket.
    destruct (jpush_all fold prefix prefix_ws (selc d cells) (jbucket0 prefix d)) as [P [E1 [E2 E3]]].
    rewrite E3. unfold jgroup.
    assert (HP : Forall (fun p => allws (fst p) /\ snd p < 2 ^ 64) P).
    { assert (Hs : Forall (fun i => i < 2 ^ 64) (map snd P)).
      { rewrite E1. apply Forall_forall. intros i Hi. apply in_map_iff in Hi. destruct Hi as [c [<- Hin]].
        unfold selc in Hin. apply filter_In in Hin. rewrite Forall_forall in Hc. apply Hc. tauto. }
      rewrite Forall_forall in *. intros p Hp. split; [apply E2; exact Hp|]. apply Hs. apply in_map. exact Hp. }
    destruct (selc d cells) as [|c0 E] eqn:ES.
    - destruct P; [|discriminate]. cbn [elems_str flat_map]. rewrite app_nil_r.
      assert (Hb : ends_bracket (jbucket0 prefix d) = true).
      { unfold ends_bracket, jbucket0. rewrite !app_assoc.
        change ([34; 58; 32; 91]) with ([34; 58; 32] ++ [91]). rewrite app_assoc, last_last. reflexivity. }
      rewrite Hb. cbn [negb]. destruct (N.eqb_spec d dmax) as [->|Hne].
      + split; [right; reflexivity|]. exists (hdr dmax ++ [JTk JRK]). split; [|split; [|split]].
        * rewrite jrender_app, hdr_render. reflexivity.
        * apply hdr_wf; [exact Hd|]. constructor; [reflexivity|constructor].
        * eexists; reflexivity.
        * reflexivity.
      + split; [reflexivity|exact Hne].
    - assert (HPne : P <> []) by (intros ->; discriminate).
      destruct (exists_last HPne) as [P' [[nl i] EP]]. subst P.
      assert (Hstr : jbucket0 prefix d ++ elems_str (P' ++ [(nl, i)]) =
                     (jbucket0 prefix d ++ elems_str P' ++ nl ++ adec i) ++ [44; 32]).
      { unfold elems_str. rewrite flat_map_app. cbn [flat_map fst snd]. rewrite <- !app_assoc. reflexivity. }
      rewrite Hstr.
      assert (Hb : ends_bracket ((jbucket0 prefix d ++ elems_str P' ++ nl ++ adec i) ++ [44; 32]) = false).
      { unfold ends_bracket. change [44; 32] with ([44] ++ [32]). rewrite app_assoc, last_last. reflexivity. }
      rewrite Hb. cbn [negb]. rewrite removelast2.
      split; [left; discriminate|].
      apply Forall_app in HP. destruct HP as [HP' HPl]. inversion HPl as [|? ? [Hnl Hi] _]; subst. cbn [fst snd] in Hnl, Hi.
      exists (hdr d ++ elem_chunks P' ++ [JWs nl; JTk (JNum i); JTk JRK]). split; [|split; [|split]].
      + rewrite !jrender_app, hdr_render, elem_chunks_render. cbn [jrender flat_map jcstr tstr].
        rewrite <- !app_assoc. reflexivity.
      + apply hdr_wf; [exact Hd|]. apply elem_chunks_wf; [exact HP'|].
        constructor; [exact Hnl|]. constructor; [exact Hi|exact I|]. constructor; [reflexivity|constructor].
      + exists (hdr d ++ elem_chunks P' ++ [JWs nl; JTk (JNum i)]). rewrite <- !app_assoc. reflexivity.
      + rewrite !jtoks_of_app, elem_chunks_toks. cbn [hdr jtoks_of app].
        unfold member. cbn [toks]. rewrite <- E1, map_app. cbn [map snd].
        rewrite sep_nums. rewrite <- !app_assoc.
        rewrite nums_flat. reflexivity.
  Qed.
End JGroup.

(** ---------- the document as chunks ---------- *)
Fixpoint joinc (first : bool) (GC : list (list jchunk)) : list jchunk :=
  match GC with
  | [] => []
  | g :: t => (if first then [] else [JTk JCom; JWs [10]]) ++ g ++ joinc false t
  end.

Lemma join_render GC : forall first, join_groups first (map jrender GC) = jrender (joinc first GC).
Proof.
  induction GC as [|g t IH]; intros first; [reflexivity|].
  cbn [map join_groups joinc]. rewrite !jrender_app, IH. destruct first; reflexivity.
Qed.

Lemma joinc_toks_false GC : jtoks_of (joinc false GC) = after_first (map jtoks_of GC).
Proof.
  induction GC as [|g t IH]; [reflexivity|].
  cbn [joinc map after_first]. rewrite sep_toks_cons, <- IH.
  cbn [app jtoks_of]. rewrite jtoks_of_app. reflexivity.
Qed.

Lemma joinc_toks_true GC : jtoks_of (joinc true GC) = sep_toks (map jtoks_of GC).
Proof.
  destruct GC as [|g t]; [reflexivity|].
  cbn [joinc map app]. rewrite sep_toks_cons, jtoks_of_app, joinc_toks_false. reflexivity.
Qed.

Lemma JWF_app_rk a b : JWF a -> ends_rk a -> JWF b -> JWF (a ++ b).
Proof.
  intros Ha [a' ->] Hb. apply JWF_app; [exact Ha|exact Hb|]. intros _. rewrite last_last. exact I.
Qed.

Lemma joinc_wf GC : Forall (fun g => JWF g /\ ends_rk g) GC -> forall first tail, JWF tail -> JWF (joinc first GC ++ tail).
Proof.
  induction 1 as [|g t [Hg1 Hg2] _ IH]; intros first tail Ht; [exact Ht|].
  cbn [joinc]. rewrite <- !app_assoc.
  assert (H : JWF (g ++ joinc false t ++ tail)) by (apply JWF_app_rk; [exact Hg1|exact Hg2|apply IH; exact Ht]).
  destruct first; cbn [app]; [exact H|].
  constructor; [reflexivity|]. constructor; [repeat constructor|exact H].
Qed.

Section JDoc.
  Variable fold : option N.
  Variable prefix : list N.
  Hypothesis prefix_ws : allws prefix.
  Variable dmax : N.
  Variable cells : list cell.
  Hypothesis cells_small : Forall (fun c => snd c < 2 ^ 64) cells.

  Definition present (d : N) : bool := negb (match selc d cells with [] => true | _ => false end) || (d =? dmax).
  Definition jentry (d : N) : list (list N * jv) :=
    if present d then [(adec d, VArr (map VNum (map snd (selc d cells))))] else [].
  Definition jentries (ds : list N) : list (list N * jv) := flat_map jentry ds.
  Definition mtoks (kv : list N * jv) : list jtok := JStr (fst kv) :: JCol :: toks (snd kv).

  Lemma groups_shape ds : Forall (fun d => d < 2 ^ 64) ds ->
    exists GC, flat_map (fun d => match jgroup dmax d (jbucket fold prefix d cells) with Some g => [g] | None => [] end) ds
               = map jrender GC /\
               Forall (fun g => JWF g /\ ends_rk g) GC /\
               map jtoks_of GC = map mtoks (jentries ds).
  Proof.
    induction 1 as [|d ds Hd _ IH].
    - exists []. repeat split. constructor.
    - destruct IH as [GC [E1 [E2 E3]]].
      pose proof (group_shape fold prefix prefix_ws dmax d cells Hd cells_small) as G.
      cbn [flat_map]. unfold jentries. cbn [flat_map]. fold (jentries ds). unfold jentry at 1, present.
      destruct (jgroup dmax d (jbucket fold prefix d cells)) as [g|].
      + destruct G as [Hp [l [L1 [L2 [L3 L4]]]]].
        assert (Hpres : negb (match selc d cells with [] => true | _ => false end) || (d =? dmax) = true).
        { destruct Hp as [Hp| ->]; [|rewrite N.eqb_refl; apply orb_true_r].
          destruct (selc d cells); [congruence|reflexivity]. }
        rewrite Hpres. exists (l :: GC). split; [|split].
        * cbn [app map]. rewrite L1, E1. reflexivity.
        * constructor; [split; assumption|exact E2].
        * cbn [app map]. rewrite E3, L4. reflexivity.
      + destruct G as [G1 G2]. rewrite G1. destruct (N.eqb_spec d dmax); [congruence|].
        cbn [negb orb app]. exists GC. repeat split; assumption.
  Qed.

  Theorem to_json_shape : dmax < 2 ^ 64 ->
    exists l, to_json dmax fold prefix cells = jrender l /\ JWF l /\
              jtoks_of l = toks (VObj (jentries (anseq 0 (S (N.to_nat dmax))))) /\
              exists l', l = l' ++ [JTk JRB].
  Proof.
    intros Hd.
    assert (Hds : Forall (fun d => d < 2 ^ 64) (anseq 0 (S (N.to_nat dmax)))).
    { apply Forall_forall. intros d Hin. apply nseq_in in Hin. lia. }
    destruct (groups_shape _ Hds) as [GC [E1 [E2 E3]]].
    exists ([JTk JLB; JWs [10]] ++ joinc true GC ++ [JWs [10]; JWs prefix; JTk JRB]).
    split; [|split; [|split]].
    - rewrite (to_json_groups fold prefix), E1, join_render, !jrender_app.
      cbn [jrender flat_map jcstr tstr app]. rewrite ?app_nil_r, <- ?app_assoc. reflexivity.
    - cbn [app]. constructor; [reflexivity|]. constructor; [repeat constructor|].
      apply joinc_wf; [exact E2|].
      constructor; [repeat constructor|]. constructor; [exact prefix_ws|]. constructor; [reflexivity|constructor].
    - cbn [app jtoks_of]. rewrite jtoks_of_app, joinc_toks_true, E3. cbn [jtoks_of toks]. reflexivity.
    - exists ([JTk JLB; JWs [10]] ++ joinc true GC ++ [JWs [10]; JWs prefix]). rewrite <- !app_assoc. reflexivity.
  Qed.
End JDoc.

(** ---------- nesting of the written document ---------- *)
Definition flat_tok (t : jtok) : bool := match t with JNum _ | JCom | JStr _ | JCol => true | _ => false end.

Lemma nest_flat ts : forallb flat_tok ts = true -> forall st, fold_left nest_step ts st = st.
Proof.
  induction ts as [|t ts IH]; intros H st; [reflexivity|].
  cbn [forallb] in H. apply andb_prop in H. destruct H as [H1 H2].
  cbn [fold_left]. rewrite IH by exact H2. destruct t; try discriminate; reflexivity.
Qed.

Lemma sep_nums_flat nums : forallb flat_tok (sep_toks (map toks (map VNum nums))) = true.
Proof.
  induction nums as [|a t IH]; [reflexivity|].
  cbn [map]. rewrite sep_toks_cons. rewrite forallb_app. cbn [toks forallb flat_tok andb].
  destruct t as [|b t]; [reflexivity|]. cbn [map after_first] in *. cbn [forallb flat_tok andb]. exact IH.
Qed.

Definition arr_of_nums (kv : list N * jv) : Prop := exists nums, snd kv = VArr (map VNum nums).

Lemma nest_member kv st : arr_of_nums kv -> fst st = 1 ->
  fst (fold_left nest_step (mtoks kv) st) = 1 /\ snd (fold_left nest_step (mtoks kv) st) <= N.max (snd st) 2.
Proof.
  intros [nums E] Hst. unfold mtoks. rewrite E. cbn [toks fold_left nest_step].
  rewrite fold_left_app, (nest_flat _ (sep_nums_flat nums)). cbn [fold_left nest_step fst snd]. rewrite Hst. split; [reflexivity|lia].
Qed.

Lemma nest_members : forall l st, Forall arr_of_nums l -> fst st = 1 ->
  fst (fold_left nest_step (sep_toks (map mtoks l)) st) = 1 /\
  snd (fold_left nest_step (sep_toks (map mtoks l)) st) <= N.max (snd st) 2.
Proof.
  induction l as [|kv t IH]; intros st HF Hst.
  - cbn. split; [exact Hst|lia].
  - inversion HF as [|? ? Hkv Ht]; subst.
    cbn [map]. rewrite sep_toks_cons, fold_left_app.
    destruct (nest_member kv st Hkv Hst) as [A1 A2].
    destruct t as [|kv2 t2]; [cbn [map after_first fold_left]; split; assumption|].
    change (after_first (map mtoks (kv2 :: t2))) with (JCom :: sep_toks (map mtoks (kv2 :: t2))).
    remember (map mtoks (kv2 :: t2)) as ml. cbn [fold_left nest_step].
    destruct (IH (fold_left nest_step (mtoks kv) st) Ht A1) as [B1 B2].
    split; [exact B1|lia].
Qed.

Lemma max_nest_obj l : Forall arr_of_nums l -> max_nest (toks (VObj l)) <= 2.
Proof.
  intros HF. unfold max_nest. cbn [toks fold_left nest_step fst snd].
  change (JLB :: sep_toks (map (fun kv => JStr (fst kv) :: JCol :: toks (snd kv)) l) ++ [JRB])
    with (JLB :: sep_toks (map mtoks l) ++ [JRB]).
  cbn [fold_left nest_step fst snd]. rewrite fold_left_app.
  destruct (nest_members l (0 + 1, N.max 0 (0 + 1)) HF eq_refl) as [A1 A2].
  cbn [fold_left nest_step fst snd]. cbn [fst snd] in A2.
  change (fun kv : list N * jv => JStr (fst kv) :: JCol :: toks (snd kv)) with mtoks. lia.
Qed.

(** ---------- looking the depths up in the parsed object ---------- *)
Lemma list_eqb_eq : forall a b, list_eqb a b = true -> a = b.
Proof.
  induction a as [|x a IH]; intros [|y b] H; cbn [list_eqb] in H; try discriminate; [reflexivity|].
  apply andb_prop in H. destruct H as [H1 H2]. apply N.eqb_eq in H1. rewrite (IH b H2), H1. reflexivity.
Qed.

Lemma list_eqb_same a : list_eqb a a = true.
Proof. induction a as [|x a IH]; [reflexivity|]. cbn [list_eqb]. rewrite N.eqb_refl. exact IH. Qed.

Lemma adec_inj a b : a < 2 ^ 64 -> b < 2 ^ 64 -> adec a = adec b -> a = b.
Proof.
  intros Ha Hb E. destruct (dec_spec a Ha) as [_ [_ Va]]. destruct (dec_spec b Hb) as [_ [_ Vb]].
  rewrite <- Va, <- Vb, E. reflexivity.
Qed.

Lemma nums_of_nums l : nums_of (map VNum l) = l.
Proof. induction l as [|a l IH]; [reflexivity|]. cbn [map nums_of flat_map app] in *. unfold nums_of in IH. rewrite IH. reflexivity. Qed.

Section JLookup.
  Variable dmax : N.
  Variable cells : list cell.
  Definition jval (d : N) : jv := VArr (map VNum (map snd (selc d cells))).

  Lemma jentries_arr ds : Forall arr_of_nums (jentries dmax cells ds).
  Proof.
    induction ds as [|d ds IH]; [constructor|].
    unfold jentries. cbn [flat_map]. unfold jentry at 1. destruct (present dmax cells d); [|exact IH].
    constructor; [eexists; reflexivity|exact IH].
  Qed.

  Lemma jlookup_entries : forall ds, NoDup ds -> Forall (fun d => d < 2 ^ 64) ds -> forall d, d < 2 ^ 64 ->
    jlookup (adec d) (jentries dmax cells ds) =
    if existsb (N.eqb d) ds && present dmax cells d then Some (jval d) else None.
  Proof.
    induction ds as [|d0 t IH]; intros ND HF d Hd; [reflexivity|].
    inversion ND as [|? ? Hnin ND']; subst. inversion HF as [|? ? Hd0 HF']; subst.
    unfold jentries. cbn [flat_map existsb]. fold (jentries dmax cells t).
    specialize (IH ND' HF' d Hd).
    destruct (N.eqb_spec d d0) as [->|Hne].
    - assert (Ht : existsb (N.eqb d0) t = false).
      { destruct (existsb (N.eqb d0) t) eqn:E; [|reflexivity].
        apply existsb_exists in E. destruct E as [x [Hx1 Hx2]]. apply N.eqb_eq in Hx2. subst x. contradiction. }
      rewrite Ht in IH. cbn [andb orb] in IH |- *.
      unfold jentry. destruct (present dmax cells d0).
      + cbn [app jlookup]. rewrite IH, list_eqb_same. reflexivity.
      + cbn [app]. exact IH.
    - cbn [orb]. unfold jentry. destruct (present dmax cells d0).
      + cbn [app jlookup]. rewrite IH.
        destruct (existsb (N.eqb d) t && present dmax cells d); [reflexivity|].
        destruct (list_eqb (adec d) (adec d0)) eqn:E; [|reflexivity].
        apply list_eqb_eq, adec_inj in E; [congruence|exact Hd|exact Hd0].
      + cbn [app]. exact IH.
  Qed.
End JLookup.

Lemma jcells_run q m (P : N -> bool) (nums : N -> list N) : forall ds,
  (forall d, In d ds -> jlookup (adec d) m = if P d then Some (VArr (map VNum (nums d))) else None) ->
  (forall d, In d ds -> P d = true -> Forall (fun v => v < n_cells q d) (nums d)) ->
  forall dm l_acc, jcells q m ds dm l_acc =
    AOk (fold_left (fun mx d => if P d then N.max mx d else mx) ds dm,
         l_acc ++ flat_map (fun d => if P d then map (ECell d) (nums d) else []) ds).
Proof.
  induction ds as [|d ds IH]; intros HL HN dm l_acc.
  - cbn. rewrite app_nil_r. reflexivity.
  - cbn [jcells fold_left flat_map]. rewrite (HL d (or_introl eq_refl)).
    assert (HL' : forall d', In d' ds -> jlookup (adec d') m = if P d' then Some (VArr (map VNum (nums d'))) else None)
      by (intros d' Hd'; apply HL; right; exact Hd').
    assert (HN' : forall d', In d' ds -> P d' = true -> Forall (fun v => v < n_cells q d') (nums d'))
      by (intros d' Hd'; apply HN; right; exact Hd').
    destruct (P d) eqn:EP.
    + rewrite nums_of_nums.
      assert (Hall : forallb (fun v => v <? n_cells q d) (nums d) = true).
      { apply forallb_forall. intros v Hv. specialize (HN d (or_introl eq_refl) EP). rewrite Forall_forall in HN.
        apply N.ltb_lt. apply HN. exact Hv. }
      rewrite Hall, (IH HL' HN'), <- app_assoc. reflexivity.
    + rewrite (IH HL' HN'). reflexivity.
Qed.

(** ---------- the round trip ---------- *)
Definition of_cell (c : cell) : aelem := ECell (fst c) (snd c).

Lemma sel_of_cells d cells : sel d (map of_cell cells) = map (ECell d) (map snd (selc d cells)).
Proof.
  induction cells as [|c cells IH]; [reflexivity|].
  unfold sel, selc in *. cbn [map filter adepth of_cell].
  destruct (N.eqb_spec (fst c) d) as [E|E]; [|exact IH].
  cbn [map]. rewrite IH. unfold of_cell. rewrite E. reflexivity.
Qed.

Lemma anseq_app : forall n m a, anseq a (n + m) = anseq a n ++ anseq (a + N.of_nat n) m.
Proof.
  induction n as [|n IH]; intros m a.
  - cbn [plus anseq app]. rewrite N.add_0_r. reflexivity.
  - cbn [plus anseq app]. rewrite IH. f_equal. f_equal. f_equal. lia.
Qed.

Lemma flat_map_nil {A B} (f : A -> list B) l : (forall x, In x l -> f x = []) -> flat_map f l = [].
Proof. induction l as [|x l IH]; intros H; [reflexivity|]. cbn [flat_map]. rewrite (H x (or_introl eq_refl)), IH; [reflexivity|]. intros y Hy. apply H. right. exact Hy. Qed.

Lemma flat_map_ext_in' {A B} (f g : A -> list B) l : (forall x, In x l -> f x = g x) -> flat_map f l = flat_map g l.
Proof. induction l as [|x l IH]; intros H; [reflexivity|]. cbn [flat_map]. rewrite (H x (or_introl eq_refl)), IH; [reflexivity|]. intros y Hy. apply H. right. exact Hy. Qed.

Lemma existsb_anseq d n : existsb (N.eqb d) (anseq 0 n) = (d <? N.of_nat n).
Proof.
  destruct (N.ltb_spec d (N.of_nat n)) as [H|H].
  - apply existsb_exists. exists d. split; [apply nseq_in; lia|apply N.eqb_refl].
  - destruct (existsb (N.eqb d) (anseq 0 n)) eqn:E; [|reflexivity].
    apply existsb_exists in E. destruct E as [x [Hx1 Hx2]]. apply N.eqb_eq in Hx2. subst x. apply nseq_in in Hx1. lia.
Qed.

Section FoldMax.
  Variable P : N -> bool.
  Definition fmax (ds : list N) (dm : N) : N := fold_left (fun mx d => if P d then N.max mx d else mx) ds dm.

  Lemma fmax_ge : forall ds dm, dm <= fmax ds dm.
  Proof.
    induction ds as [|d ds IH]; intros dm; [cbn; lia|]. unfold fmax in *. cbn [fold_left].
    destruct (P d); [eapply N.le_trans; [|apply IH]; lia|apply IH].
  Qed.
  Lemma fmax_le B : forall ds dm, (forall d, In d ds -> P d = true -> d <= B) -> dm <= B -> fmax ds dm <= B.
  Proof.
    induction ds as [|d ds IH]; intros dm H Hdm; [exact Hdm|]. unfold fmax in *. cbn [fold_left].
    apply IH; [intros x Hx; apply H; right; exact Hx|].
    destruct (P d) eqn:E; [|exact Hdm]. pose proof (H d (or_introl eq_refl) E). lia.
  Qed.
  Lemma fmax_in : forall ds dm x, In x ds -> P x = true -> x <= fmax ds dm.
  Proof.
    induction ds as [|d ds IH]; intros dm x Hin Hx; [destruct Hin|destruct Hin as [->|Hin]].
    - unfold fmax. cbn [fold_left]. rewrite Hx. eapply N.le_trans; [|apply fmax_ge]. lia.
    - unfold fmax in *. cbn [fold_left]. apply IH; assumption.
  Qed.
End FoldMax.

Section JRoundTrip.
  Variable sortf : qty -> list aelem -> list aelem.
  Hypothesis sortf_perm : forall q l, Permutation (sortf q l) l.

  Lemma json_value_of_entries q w dmax cells :
    okw w -> dmax <= max_depth q w ->
    Forall (elem_wf q dmax) (map of_cell cells) -> Disj q w (map of_cell cells) ->
    json_value_1d sortf q w (VObj (jentries dmax cells (anseq 0 (S (N.to_nat dmax)))))
    = AOk (dmax, sortf q (regroup dmax (map of_cell cells))).
  Proof.
    intros Hw Hd Hes Hdis.
    pose proof (okw_le64 w Hw) as Hw64. pose proof (max_depth_255 q w Hw) as H255.
    set (es := map of_cell cells) in *.
    assert (Hdm64 : dmax < 2 ^ 64).
    { eapply N.le_lt_trans; [exact Hd|]. eapply N.le_lt_trans; [exact H255|]. vm_compute. reflexivity. }
    set (ents := jentries dmax cells (anseq 0 (S (N.to_nat dmax)))).
    unfold json_value_1d.
    set (P := fun d => existsb (N.eqb d) (anseq 0 (S (N.to_nat dmax))) && present dmax cells d).
    set (nums := fun d => map snd (selc d cells)).
    set (ds := anseq 0 (S (N.to_nat (max_depth q w)))).
    assert (HL : forall d, In d ds -> jlookup (adec d) ents = if P d then Some (VArr (map VNum (nums d))) else None).
    { intros d Hin. apply nseq_in in Hin. unfold ents.
      apply (jlookup_entries dmax cells _ (nseq_nodup _ _)).
      - apply Forall_forall. intros x Hx. apply nseq_in in Hx. lia.
      - assert (Hd255 : d <= 255) by lia. eapply N.le_lt_trans; [exact Hd255|]. vm_compute. reflexivity. }
    assert (HN : forall d, In d ds -> P d = true -> Forall (fun v => v < n_cells q d) (nums d)).
    { intros d _ _. unfold nums. apply Forall_forall. intros v Hv.
      apply in_map_iff in Hv. destruct Hv as [c [<- Hc]]. unfold selc in Hc. apply filter_In in Hc. destruct Hc as [Hc1 Hc2].
      apply N.eqb_eq in Hc2. rewrite Forall_forall in Hes.
      destruct (Hes (of_cell c) (in_map _ _ _ Hc1)) as [_ H2]. cbn [of_cell elem_ok] in H2. rewrite <- Hc2. exact H2. }
    rewrite (jcells_run q ents P nums ds HL HN 0 []). cbn [app].
    (* the depth *)
    assert (Hpd : P dmax = true).
    { unfold P, present. rewrite existsb_anseq, N.eqb_refl, orb_true_r.
      destruct (N.ltb_spec dmax (N.of_nat (S (N.to_nat dmax)))); [reflexivity|lia]. }
    assert (Hfm : fmax P ds 0 = dmax).
    { apply N.le_antisymm.
      - apply fmax_le; [|lia]. intros d _ Hp. unfold P in Hp. apply andb_prop in Hp. destruct Hp as [Hp _].
        rewrite existsb_anseq in Hp. apply N.ltb_lt in Hp. lia.
      - apply fmax_in; [|exact Hpd]. apply nseq_in. lia. }
    fold (fmax P ds 0). rewrite Hfm.
    (* the cells *)
    assert (Hflat : flat_map (fun d => if P d then map (ECell d) (nums d) else []) ds = regroup dmax es).
    { assert (Hext : forall d, (if P d then map (ECell d) (nums d) else []) = (if d <=? dmax then sel d es else [])).
      { intros d. unfold P, nums, es. rewrite existsb_anseq, sel_of_cells.
        destruct (N.leb_spec d dmax) as [Hle|Hgt].
        - destruct (N.ltb_spec d (N.of_nat (S (N.to_nat dmax)))); [|lia]. cbn [andb].
          unfold present. destruct (selc d cells) eqn:ES; [|reflexivity].
          cbn [negb orb]. destruct (d =? dmax); reflexivity.
        - destruct (N.ltb_spec d (N.of_nat (S (N.to_nat dmax)))); [lia|]. reflexivity. }
      rewrite (flat_map_ext _ _ Hext). unfold ds, regroup.
      replace (S (N.to_nat (max_depth q w))) with (S (N.to_nat dmax) + (N.to_nat (max_depth q w) - N.to_nat dmax))%nat by lia.
      rewrite anseq_app, flat_map_app.
      rewrite (flat_map_nil _ (anseq _ (N.to_nat (max_depth q w) - N.to_nat dmax))).
      - rewrite app_nil_r. apply flat_map_ext_in'. intros d Hin. apply nseq_in in Hin.
        destruct (N.leb_spec d dmax); [reflexivity|lia].
      - intros d Hin. apply nseq_in in Hin. destruct (N.leb_spec d dmax); [lia|reflexivity]. }
    rewrite Hflat. cbn zeta.
    rewrite Disj_adj; [reflexivity|].
    apply (Disj_perm q w es); [|exact Hdis].
    eapply Permutation_trans; [apply Permutation_sym, regroup_perm|apply Permutation_sym, sortf_perm].
    eapply Forall_impl; [|exact Hes]. intros x [Hx _]. exact Hx.
  Qed.

  Lemma cells_small q w dmax cells : okw w -> dmax <= max_depth q w ->
    Forall (elem_wf q dmax) (map of_cell cells) -> Forall (fun c => snd c < 2 ^ 64) cells /\ dmax < 2 ^ 64.
  Proof.
    intros Hw Hd Hes.
    pose proof (okw_le64 w Hw) as Hw64. pose proof (max_depth_255 q w Hw) as H255.
    assert (H64 : 2 ^ w <= 2 ^ 64) by (apply N.pow_le_mono_r; lia).
    split.
    - apply Forall_forall. intros c Hc. rewrite Forall_forall in Hes.
      destruct (Hes (of_cell c) (in_map _ _ _ Hc)) as [H1 H2]. cbn [of_cell adepth elem_ok] in H1, H2.
      pose proof (pow_dim_le q w (fst c) Hw ltac:(lia)). lia.
    - eapply N.le_lt_trans; [exact Hd|]. eapply N.le_lt_trans; [exact H255|]. vm_compute. reflexivity.
  Qed.

  Theorem json_roundtrip q w dmax fold prefix cells :
    okw w -> allws prefix -> dmax <= max_depth q w ->
    Forall (elem_wf q dmax) (map of_cell cells) -> Disj q w (map of_cell cells) ->
    from_json sortf q w (to_json dmax fold prefix cells)
    = JRRes (AOk (dmax, sortf q (regroup dmax (map of_cell cells)))).
  Proof.
    intros Hw Hpre Hd Hes Hdis.
    destruct (cells_small q w dmax cells Hw Hd Hes) as [Hsmall Hdm64].
    destruct (to_json_shape fold prefix Hpre dmax cells Hsmall Hdm64) as [l [E1 [E2 [E3 _]]]].
    unfold from_json, jparse. rewrite E1, (jlex_render l E2 []). cbn [app]. rewrite E3.
    set (ents := jentries dmax cells (anseq 0 (S (N.to_nat dmax)))).
    pose proof (max_nest_obj ents (jentries_arr dmax cells _)) as Hnest.
    destruct (N.ltb_spec 100 (max_nest (toks (VObj ents)))) as [Hz|_]; [lia|].
    rewrite prun_tree. unfold ents. rewrite (json_value_of_entries q w dmax cells Hw Hd Hes Hdis). reflexivity.
  Qed.
End JRoundTrip.
