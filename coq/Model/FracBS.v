(** Model/FracBS.v — (F) the numerator of range_fraction / cell_fraction as the code computes it
    (src/ranges/mod.rs BorrowedRanges::range_fraction):
      quick rejection (empty, x.end <= first start, last end <= x.start) -> 0;
      i = binary_search_by(range.start.cmp(x.start)) : Ok(i) -> i ;
          Err(i) -> if i > 0 && ranges[i-1].end > x.start { i-1 } else { i };
      from i on: stop at the first range with x.end <= range.start, otherwise
          width += min(range.end, x.end) - max(range.start, x.start).
    The binary search is specified as core::slice::binary_search_by on a sorted slice: Ok(index of the
    matching start) / Err(number of starts smaller than the key).
    Theorem: on every canonical list this is [Query.width], the size of cov l ∩ [a, b)
    (characterised by C03_fraction_zero / C03_fraction_one). *)
From Coq Require Import List NArith Arith Lia Bool.
From MOC.Base Require Import RangeSet.
From MOC.Model Require Import Query.
Import ListNotations.
Open Scope N_scope.

Definition rankS (l : list range) (a : N) : nat := length (filter (fun r : range => fst r <? a) l).
Definition foundS (l : list range) (a : N) : bool := existsb (fun r : range => fst r =? a) l.
Definition start_idx (l : list range) (a : N) : nat :=
  let i := rankS l a in
  if foundS l a then i
  else match i with
       | O => O
       | S j => if a <? snd (nth j l (0, 0)) then j else i
       end.

Fixpoint wloop (l : list range) (a b : N) : N :=
  match l with
  | [] => 0
  | r :: t => if b <=? fst r then 0 else (N.min (snd r) b - N.max (fst r) a) + wloop t a b
  end.

Definition width_bs (l : list range) (a b : N) : N :=
  match l with
  | [] => 0
  | r0 :: _ => if (b <=? fst r0) || (snd (last l r0) <=? a) then 0
               else wloop (skipn (start_idx l a) l) a b
  end.

(** ---------- proofs ---------- *)
Lemma width_app l1 l2 a b : width (l1 ++ l2) a b = width l1 a b + width l2 a b.
Proof. induction l1 as [|r t IH]; cbn [app width]; [reflexivity|]. rewrite IH. lia. Qed.

Lemma width_after_b : forall t lo a b, chain lo t -> b <= lo -> width t a b = 0.
Proof.
  induction t as [|r t IH]; intros lo a b Hc Hb; cbn [width]; [reflexivity|].
  cbn [chain] in Hc. destruct Hc as (K1 & K2 & K3). rewrite (IH (snd r)); [lia|exact K3|lia].
Qed.

(** the loop is the plain sum on a sorted list: ranges starting at or after b contribute nothing *)
Lemma wloop_width_chain : forall l lo a b, chain lo l -> wloop l a b = width l a b.
Proof.
  induction l as [|r t IH]; intros lo a b Hc; cbn [wloop width]; [reflexivity|].
  cbn [chain] in Hc. destruct Hc as (H1 & H2 & H3).
  destruct (N.leb_spec b (fst r)) as [L|L]; [|rewrite (IH (snd r)); [reflexivity|exact H3]].
  rewrite (width_after_b t (snd r) a b H3 ltac:(lia)). lia.
Qed.
Lemma wloop_width l lo a b : sorted_from lo l -> wloop l a b = width l a b.
Proof.
  destruct l as [|r t]; [reflexivity|]. cbn [sorted_from wloop width]. intros (H1 & H2 & H3).
  destruct (N.leb_spec b (fst r)) as [L|L]; [|rewrite (wloop_width_chain t (snd r)); [reflexivity|exact H3]].
  rewrite (width_after_b t (snd r) a b H3 ltac:(lia)). lia.
Qed.

(** ranges ending at or before a contribute nothing *)
Lemma width_before_a l a b : (forall r, In r l -> snd r <= a) -> width l a b = 0.
Proof.
  induction l as [|r t IH]; intros H; cbn [width]; [reflexivity|].
  rewrite IH by (intros r' Hr'; apply H; right; exact Hr'). specialize (H r (or_introl eq_refl)). lia.
Qed.

Lemma sorted_in l lo r : sorted_from lo l -> In r l -> lo <= fst r /\ fst r < snd r.
Proof.
  destruct l as [|r0 t]; [intros _ []|]. cbn [sorted_from]. intros (H1 & H2 & H3) [<-|Hin]; [lia|].
  destruct (chain_in_gt t (snd r0) r H3 Hin). lia.
Qed.

Lemma skipn_chain : forall l k lo, chain lo l -> chain lo (skipn k l).
Proof.
  induction l as [|r t IH]; intros k lo Hc; destruct k; cbn [skipn]; try exact Hc.
  cbn [chain] in Hc. destruct Hc as (H1 & H2 & H3). apply (chain_weaken _ (snd r)); [lia|]. apply IH. exact H3.
Qed.
Lemma skipn_sorted l k lo : sorted_from lo l -> sorted_from lo (skipn k l).
Proof.
  destruct l as [|r t]; [destruct k; intros H; exact H|]. destruct k; [intros H; exact H|].
  cbn [sorted_from skipn]. intros (H1 & H2 & H3). apply chain_sorted. apply (chain_weaken _ (snd r)); [lia|]. apply skipn_chain. exact H3.
Qed.

(** on a sorted list the ranges starting before a form a prefix *)
Lemma filter_none_chain : forall t lo a, chain lo t -> a <= lo -> filter (fun r : range => fst r <? a) t = [].
Proof.
  induction t as [|r t IH]; intros lo a Hc Ha; cbn [filter]; [reflexivity|].
  cbn [chain] in Hc. destruct Hc as (H1 & H2 & H3).
  destruct (N.ltb_spec (fst r) a) as [L|L]; [lia|]. apply (IH (snd r)); [exact H3|lia].
Qed.

Lemma rank_prefix_chain : forall l lo a, chain lo l ->
  (forall r, In r (firstn (rankS l a) l) -> fst r < a) /\
  (forall r, In r (skipn (rankS l a) l) -> a <= fst r).
Proof.
  induction l as [|r t IH]; intros lo a Hc; [split; intros r []|].
  cbn [chain] in Hc. destruct Hc as (H1 & H2 & H3). unfold rankS. cbn [filter].
  destruct (N.ltb_spec (fst r) a) as [L|L].
  - cbn [length firstn skipn]. fold (rankS t a). destruct (IH (snd r) a H3) as [I1 I2]. split.
    + intros r' [<-|Hr']; [exact L|exact (I1 r' Hr')].
    + exact I2.
  - rewrite (filter_none_chain t (snd r) a H3 ltac:(lia)). cbn [length firstn skipn]. split; [intros r' []|].
    intros r' [<-|Hr']; [exact L|]. destruct (chain_in_gt t (snd r) r' H3 Hr'). lia.
Qed.
Lemma rank_prefix l lo a : sorted_from lo l ->
  (forall r, In r (firstn (rankS l a) l) -> fst r < a) /\
  (forall r, In r (skipn (rankS l a) l) -> a <= fst r).
Proof.
  destruct l as [|r t]; [intros _; split; intros r []|]. cbn [sorted_from]. intros (H1 & H2 & H3).
  unfold rankS. cbn [filter]. destruct (N.ltb_spec (fst r) a) as [L|L].
  - cbn [length firstn skipn]. fold (rankS t a). destruct (rank_prefix_chain t (snd r) a H3) as [I1 I2]. split.
    + intros r' [<-|Hr']; [exact L|exact (I1 r' Hr')].
    + exact I2.
  - rewrite (filter_none_chain t (snd r) a H3 ltac:(lia)). cbn [length firstn skipn]. split; [intros r' []|].
    intros r' [<-|Hr']; [exact L|]. destruct (chain_in_gt t (snd r) r' H3 Hr'). lia.
Qed.

(** every range before position j ends strictly before the start of range j *)
Lemma chain_before : forall l lo j r, chain lo l -> (j < length l)%nat -> In r (firstn j l) -> snd r < fst (nth j l (0, 0)).
Proof.
  induction l as [|r0 t IH]; intros lo j r Hc Hj Hin; [cbn in Hj; lia|].
  destruct j as [|j]; [destruct Hin|]. cbn [firstn nth] in *. cbn [chain] in Hc. destruct Hc as (H1 & H2 & H3).
  cbn [length] in Hj. destruct Hin as [<-|Hin].
  - assert (Hn : In (nth j t (0, 0)) t) by (apply nth_In; lia). destruct (chain_in_gt t _ _ H3 Hn). lia.
  - apply (IH (snd r0)); [exact H3|lia|exact Hin].
Qed.
Lemma sorted_before l lo j r : sorted_from lo l -> (j < length l)%nat -> In r (firstn j l) -> snd r < fst (nth j l (0, 0)).
Proof.
  destruct l as [|r0 t]; [cbn; lia|]. cbn [sorted_from]. intros (H1 & H2 & H3) Hj Hin.
  destruct j as [|j]; [destruct Hin|]. cbn [firstn nth length] in *. destruct Hin as [<-|Hin].
  - assert (Hn : In (nth j t (0, 0)) t) by (apply nth_In; lia). destruct (chain_in_gt t _ _ H3 Hn). lia.
  - apply (chain_before t (snd r0)); [exact H3|lia|exact Hin].
Qed.

Lemma foundS_spec l a : foundS l a = true <-> exists r, In r l /\ fst r = a.
Proof.
  unfold foundS. rewrite existsb_exists. split; intros [r [H1 H2]]; exists r; (split; [exact H1|]).
  - apply N.eqb_eq. exact H2.
  - apply N.eqb_eq. exact H2.
Qed.

Lemma rank_le_length l a : (rankS l a <= length l)%nat.
Proof. unfold rankS. induction l as [|x t IH]; cbn [filter length]; [lia|]. destruct (fst x <? a); cbn [length]; lia. Qed.

Lemma in_firstn_le (l : list range) j k r : (j <= k)%nat -> In r (firstn j l) -> In r (firstn k l).
Proof.
  intros Hjk Hin. rewrite <- (firstn_skipn j (firstn k l)). apply in_or_app. left.
  rewrite firstn_firstn. rewrite Nat.min_l by lia. exact Hin.
Qed.

Lemma in_firstn_S (l : list range) j r : (j < length l)%nat -> In r (firstn (S j) l) -> In r (firstn j l) \/ r = nth j l (0, 0).
Proof.
  revert j. induction l as [|x t IH]; intros j Hj Hin; [cbn in Hj; lia|].
  destruct j as [|j]; cbn [firstn nth] in *.
  - destruct Hin as [<-|[]]. right. reflexivity.
  - cbn [length] in Hj. destruct Hin as [<-|Hin]; [left; left; reflexivity|].
    destruct (IH j ltac:(lia) Hin) as [H|H]; [left; right; exact H|right; exact H].
Qed.

Lemma last_max_chain : forall l lo d r, chain lo l -> In r l -> snd r <= snd (last l d).
Proof.
  induction l as [|r0 t IH]; intros lo d r Hc Hin; [destruct Hin|].
  cbn [chain] in Hc. destruct Hc as (H1 & H2 & H3).
  destruct t as [|r1 t1].
  - destruct Hin as [<-|[]]. cbn. lia.
  - change (last (r0 :: r1 :: t1) d) with (last (r1 :: t1) d).
    destruct Hin as [<-|Hin]; [|exact (IH (snd r0) d r H3 Hin)].
    pose proof (IH (snd r0) d r1 H3 (or_introl eq_refl)). cbn [chain] in H3. lia.
Qed.
Lemma last_max l lo d r : sorted_from lo l -> In r l -> snd r <= snd (last l d).
Proof.
  destruct l as [|r0 t]; [intros _ []|]. cbn [sorted_from]. intros (H1 & H2 & H3) Hin.
  destruct t as [|r1 t1]; [destruct Hin as [<-|[]]; cbn; lia|].
  change (last (r0 :: r1 :: t1) d) with (last (r1 :: t1) d).
  destruct Hin as [<-|Hin]; [|exact (last_max_chain _ (snd r0) d r H3 Hin)].
  pose proof (last_max_chain _ (snd r0) d r1 H3 (or_introl eq_refl)). cbn [chain] in H3. lia.
Qed.

Lemma nth_skipn' (l : list range) k j d : nth j (skipn k l) d = nth (k + j) l d.
Proof. revert l. induction k as [|k IH]; intros l; [reflexivity|]. destruct l as [|x t]; [destruct j; reflexivity|]. cbn [skipn]. rewrite IH. reflexivity. Qed.

(** the index search: every range before the starting index ends at or before a *)
Lemma start_idx_prefix l lo a : sorted_from lo l ->
  forall r, In r (firstn (start_idx l a) l) -> snd r <= a.
Proof.
  intros Hs r Hin. unfold start_idx in Hin. destruct (rank_prefix l lo a Hs) as [P1 P2].
  pose proof (rank_le_length l a) as Hk. remember (rankS l a) as k eqn:Ek.
  destruct (foundS l a) eqn:F.
  - apply foundS_spec in F. destruct F as [rf [Hrf Erf]].
    assert (Hrf' : In rf (skipn k l)).
    { rewrite <- (firstn_skipn k l) in Hrf. apply in_app_or in Hrf. destruct Hrf as [Hp|Hq]; [|exact Hq]. specialize (P1 rf Hp). lia. }
    apply In_nth with (d := (0, 0)) in Hrf'. destruct Hrf' as [j [Hj Ej]]. rewrite skipn_length in Hj. rewrite nth_skipn' in Ej.
    pose proof (sorted_before l lo (k + j) r Hs ltac:(lia) (in_firstn_le l k (k + j) r ltac:(lia) Hin)) as B. rewrite Ej in B. lia.
  - destruct k as [|j]; [destruct Hin|].
    assert (Hj : (j < length l)%nat) by lia.
    assert (Hrj : fst (nth j l (0, 0)) < a).
    { apply P1. clear -Hj. revert j Hj. induction l as [|x t IH]; intros j Hj; [cbn in Hj; lia|].
      destruct j; cbn [firstn nth]; [left; reflexivity|]. right. apply IH. cbn [length] in Hj. lia. }
    destruct (N.ltb_spec a (snd (nth j l (0, 0)))) as [C|C].
    + pose proof (sorted_before l lo j r Hs Hj Hin). lia.
    + destruct (in_firstn_S l j r Hj Hin) as [H|H]; [pose proof (sorted_before l lo j r Hs Hj H); lia|rewrite H; exact C].
Qed.

Theorem width_bs_spec l a b : Canon l -> a < b -> width_bs l a b = width l a b.
Proof.
  intros Hc Hab. destruct l as [|r0 t]; [reflexivity|]. unfold width_bs. remember (r0 :: t) as l eqn:El.
  destruct (N.leb_spec b (fst r0)) as [Q1|Q1]; cbn [orb].
  - (* everything starts at or after b *)
    subst l. cbn [Canon sorted_from] in Hc. destruct Hc as (_ & H2 & H3). cbn [width].
    rewrite (width_after_b t (snd r0) a b H3 ltac:(lia)). lia.
  - destruct (N.leb_spec (snd (last l r0)) a) as [Q2|Q2].
    + symmetry. apply width_before_a. intros r Hr. pose proof (last_max l 0 r0 r Hc Hr). lia.
    + rewrite (wloop_width _ 0) by (apply skipn_sorted; exact Hc).
      assert (E : width l a b = width (firstn (start_idx l a) l) a b + width (skipn (start_idx l a) l) a b)
        by (rewrite <- width_app, firstn_skipn; reflexivity).
      rewrite E, (width_before_a _ a b (start_idx_prefix l 0 a Hc)). reflexivity.
Qed.

Example width_bs_examples :
  let l := [(0, 4); (6, 9); (12, 20)] in
  map (fun q => width_bs l (fst q) (snd q)) [(0, 4); (3, 7); (4, 6); (5, 13); (9, 12); (19, 30); (20, 30); (0, 30); (8, 9)]
  = [4; 2; 0; 4; 0; 1; 0; 15; 1].
Proof. vm_compute. reflexivity. Qed.
