(** Model/AsciiStreamProofs.v — round trip of the streaming ASCII variant (Model/AsciiCodec.v):
    from_ascii_stream q w (to_ascii_stream q dmax use_len es) = SOk dmax es
    for every list of well-formed elements of depth <= dmax <= MAX_DEPTH, both notations, in file
    order (the reader neither sorts nor validates). *)
From Coq Require Import List NArith Arith Lia Bool Permutation.
From MOC.Base Require Import RangeSet.
From MOC.Model Require Import Qty Query Build Repr AsciiCodec AsciiProofs.
Import ListNotations.
Open Scope N_scope.

Arguments N.add : simpl never.
Arguments N.mul : simpl never.
Arguments N.sub : simpl never.
Arguments N.pow : simpl never.
Arguments N.eqb : simpl never.
Arguments N.leb : simpl never.
Arguments N.ltb : simpl never.

(** ---------- str::parse of an unsigned integer on what Display prints ---------- *)
Lemma digits_forallb ds : digits ds -> forallb is_digit ds = true.
Proof. intros H. apply forallb_forall. unfold digits in H. rewrite Forall_forall in H. exact H. Qed.

Lemma parse_uint_adec w x : w <= 64 -> x < 2 ^ w -> parse_uint w (adec x) = Some x.
Proof.
  intros Hw Hx.
  assert (Hx64 : x < 2 ^ 64) by (eapply N.lt_le_trans; [exact Hx|apply N.pow_le_mono_r; lia]).
  destruct (dec_spec x Hx64) as [E1 [E2 E3]].
  unfold parse_uint. destruct (adec x) as [|c t] eqn:ED; [congruence|].
  assert (Hc : c <> 43).
  { inversion E2 as [|? ? Hd _]; subst. apply is_digit_spec in Hd. lia. }
  assert (Es : match c :: t with 43 :: t0 => t0 | _ => c :: t end = c :: t).
  { destruct c as [|p]; [reflexivity|]. do 6 (destruct p as [p|p|]; try reflexivity). exfalso. apply Hc. reflexivity. }
  rewrite Es. rewrite (digits_forallb _ E2), E3.
  destruct (N.ltb_spec x (2 ^ w)); [reflexivity|lia].
Qed.

(** ---------- trim is the identity on a text that starts and ends with a non-blank ---------- *)
Lemma drop_ws_head c m : is_trim_ws c = false -> drop_ws (c :: m) = c :: m.
Proof. intros H. cbn [drop_ws]. rewrite H. reflexivity. Qed.

Lemma trim_wrap c m x : is_trim_ws c = false -> is_trim_ws x = false -> trim (c :: m ++ [x]) = c :: m ++ [x].
Proof.
  intros Hc Hx. unfold trim. rewrite (drop_ws_head c _ Hc).
  change (c :: m ++ [x]) with ((c :: m) ++ [x]). rewrite rev_app_distr. cbn [rev app].
  rewrite (drop_ws_head x _ Hx).
  replace (x :: rev m ++ [c]) with (rev ((c :: m) ++ [x])) by (rewrite rev_app_distr; reflexivity).
  apply rev_involutive.
Qed.

Lemma trim_single c : is_trim_ws c = false -> trim [c] = [c].
Proof. intros Hc. unfold trim. cbn [drop_ws rev app]. rewrite Hc. cbn [rev app drop_ws]. rewrite Hc. reflexivity. Qed.

Lemma digit_not_blank c : is_digit c = true -> is_trim_ws c = false.
Proof.
  intros H. apply is_digit_spec in H. unfold is_trim_ws.
  destruct (N.leb_spec 9 c); destruct (N.leb_spec c 13); destruct (N.eqb_spec c 32); cbn; try reflexivity; lia.
Qed.

(** a text made of a digit, anything, a digit *)
Lemma trim_digit_ends a mid b : digits a -> a <> [] -> digits b -> b <> [] -> trim (a ++ mid ++ b) = a ++ mid ++ b.
Proof.
  intros Da Na Db Nb.
  destruct a as [|c a']; [congruence|]. inversion Da as [|? ? Hc _]; subst.
  destruct (exists_last Nb) as [b' [x Eb]]. subst b.
  assert (Hx : is_digit x = true).
  { unfold digits in Db. rewrite Forall_forall in Db. apply Db. apply in_or_app. right. left. reflexivity. }
  replace ((c :: a') ++ mid ++ b' ++ [x]) with (c :: (a' ++ mid ++ b') ++ [x]) by (cbn [app]; rewrite <- !app_assoc; reflexivity).
  apply trim_wrap; apply digit_not_blank; assumption.
Qed.

Lemma trim_digits a : digits a -> a <> [] -> trim a = a.
Proof.
  intros Da Na. destruct (exists_last Na) as [a' [x Ea]]. subst a.
  assert (Hx : is_digit x = true).
  { unfold digits in Da. rewrite Forall_forall in Da. apply Da. apply in_or_app. right. left. reflexivity. }
  destruct a' as [|c a''].
  - apply trim_single. apply digit_not_blank. exact Hx.
  - inversion Da as [|? ? Hc _]; subst. cbn [app]. apply trim_wrap; apply digit_not_blank; assumption.
Qed.

Lemma digits_notin c ds : is_digit c = false -> digits ds -> ~ In c ds.
Proof. intros Hc Hd Hin. unfold digits in Hd. rewrite Forall_forall in Hd. specialize (Hd c Hin). congruence. Qed.

Lemma contains_spec c s : contains c s = true <-> In c s.
Proof.
  unfold contains. rewrite existsb_exists. split.
  - intros [x [Hx E]]. apply N.eqb_eq in E. subst. exact Hx.
  - intros H. exists c. split; [exact H|apply N.eqb_refl].
Qed.

Lemma contains_false c s : ~ In c s -> contains c s = false.
Proof. intros H. destruct (contains c s) eqn:E; [|reflexivity]. apply contains_spec in E. contradiction. Qed.

(** ---------- one element line ---------- *)
Section Item.
  Variable q : qty.
  Variable w : N.
  Hypothesis Hw : okw w.

  Definition line_of (ul : bool) (x : aelem) : list N :=
    match x with
    | ECell d i => adec d ++ [47] ++ adec i
    | ERange d s e => if ul then adec d ++ [47] ++ adec s ++ [43] ++ adec (e - s) else adec d ++ [47] ++ adec s ++ [45] ++ adec e
    end.

  Lemma stream_line_of ul x : stream_line ul x = line_of ul x ++ [10].
  Proof. destruct x as [d i|d s e]; cbn [stream_line line_of]; [|destruct ul]; rewrite <- !app_assoc; reflexivity. Qed.

  Lemma adec_facts x : x < 2 ^ 64 -> adec x <> [] /\ digits (adec x).
  Proof. intros H. destruct (dec_spec x H) as [A [B _]]. split; assumption. Qed.

  Lemma lt64 x : x < 2 ^ w -> x < 2 ^ 64.
  Proof. intros H. eapply N.lt_le_trans; [exact H|]. apply N.pow_le_mono_r; [lia|]. apply okw_le64. exact Hw. Qed.

  Lemma parse_item_line ul x dmax : dmax <= max_depth q w -> elem_wf q dmax x ->
    parse_item q w (line_of ul x) = Some x.
  Proof.
    intros Hd [Hx1 Hx2].
    pose proof (okw_le64 w Hw) as Hw64. pose proof (max_depth_255 q w Hw) as H255.
    assert (Hdepth : adepth x <= max_depth q w) by lia.
    pose proof (pow_dim_le q w (adepth x) Hw Hdepth) as Hn.
    assert (D8 : adepth x < 2 ^ 8) by (change (2 ^ 8) with 256; lia).
    assert (D64 : adepth x < 2 ^ 64) by (change (2 ^ 64) with 18446744073709551616; lia).
    destruct (adec_facts _ D64) as [Dn Dd].
    assert (N47 : ~ In 47 (adec (adepth x))) by (apply digits_notin; [reflexivity|exact Dd]).
    unfold parse_item.
    destruct x as [d i|d s e]; cbn [line_of adepth elem_ok] in *.
    - assert (I64 : i < 2 ^ 64) by (apply lt64; lia). destruct (adec_facts _ I64) as [In_ Id].
      rewrite (trim_digit_ends (adec d) [47] (adec i) Dd Dn Id In_).
      destruct (adec d ++ [47] ++ adec i) as [|c0 r0] eqn:EL; [exfalso; destruct (adec d); [congruence|discriminate]|].
      rewrite <- EL. clear EL c0 r0. cbn [app].
      rewrite (split_once_first 47 (adec i) (adec d) N47).
      rewrite (parse_uint_adec 8 d ltac:(lia) D8).
      destruct (N.ltb_spec (max_depth q w) d); [lia|].
      rewrite (contains_false 45 (adec i)) by (apply digits_notin; [reflexivity|exact Id]).
      rewrite (contains_false 43 (adec i)) by (apply digits_notin; [reflexivity|exact Id]).
      rewrite (parse_uint_adec w i Hw64 ltac:(lia)).
      destruct (N.ltb_spec i (n_cells q d)); [reflexivity|lia].
    - destruct Hx2 as [Hse He].
      assert (S64 : s < 2 ^ 64) by (apply lt64; lia). destruct (adec_facts _ S64) as [Sn Sd].
      destruct ul.
      + assert (L64 : e - s < 2 ^ 64) by (apply lt64; lia). destruct (adec_facts _ L64) as [Ln Ld].
        replace (adec d ++ [47] ++ adec s ++ [43] ++ adec (e - s)) with (adec d ++ ([47] ++ adec s ++ [43]) ++ adec (e - s)) by (rewrite <- !app_assoc; reflexivity).
        rewrite (trim_digit_ends (adec d) _ (adec (e - s)) Dd Dn Ld Ln).
        destruct (adec d ++ ([47] ++ adec s ++ [43]) ++ adec (e - s)) as [|c0 r0] eqn:EL; [exfalso; destruct (adec d); [congruence|discriminate]|].
        rewrite <- EL. clear EL c0 r0. rewrite <- !app_assoc. cbn [app].
        rewrite (split_once_first 47 (adec s ++ 43 :: adec (e - s)) (adec d) N47).
        rewrite (parse_uint_adec 8 d ltac:(lia) D8).
        destruct (N.ltb_spec (max_depth q w) d); [lia|].
        rewrite (contains_false 45) by (intros Hin; apply in_app_or in Hin; destruct Hin as [Hin|[Hin|Hin]];
          [exact (digits_notin 45 _ eq_refl Sd Hin)|discriminate Hin|exact (digits_notin 45 _ eq_refl Ld Hin)]).
        assert (C43 : contains 43 (adec s ++ 43 :: adec (e - s)) = true) by (apply contains_spec; apply in_or_app; right; left; reflexivity).
        rewrite C43.
        rewrite (split_once_first 43 (adec (e - s)) (adec s)) by (apply digits_notin; [reflexivity|exact Sd]).
        rewrite (parse_uint_adec w s Hw64 ltac:(lia)), (parse_uint_adec w (e - s) Hw64 ltac:(lia)).
        cbn zeta. rewrite (sat_add_small w s (e - s)) by lia.
        replace (s + (e - s)) with e by lia.
        destruct (N.ltb_spec s e); [|lia]. destruct (N.leb_spec e (n_cells q d)); [reflexivity|lia].
      + assert (E64 : e < 2 ^ 64) by (apply lt64; lia). destruct (adec_facts _ E64) as [En Ed].
        replace (adec d ++ [47] ++ adec s ++ [45] ++ adec e) with (adec d ++ ([47] ++ adec s ++ [45]) ++ adec e) by (rewrite <- !app_assoc; reflexivity).
        rewrite (trim_digit_ends (adec d) _ (adec e) Dd Dn Ed En).
        destruct (adec d ++ ([47] ++ adec s ++ [45]) ++ adec e) as [|c0 r0] eqn:EL; [exfalso; destruct (adec d); [congruence|discriminate]|].
        rewrite <- EL. clear EL c0 r0. rewrite <- !app_assoc. cbn [app].
        rewrite (split_once_first 47 (adec s ++ 45 :: adec e) (adec d) N47).
        rewrite (parse_uint_adec 8 d ltac:(lia) D8).
        destruct (N.ltb_spec (max_depth q w) d); [lia|].
        assert (C45 : contains 45 (adec s ++ 45 :: adec e) = true) by (apply contains_spec; apply in_or_app; right; left; reflexivity).
        rewrite C45.
        rewrite (split_once_first 45 (adec e) (adec s)) by (apply digits_notin; [reflexivity|exact Sd]).
        rewrite (parse_uint_adec w s Hw64 ltac:(lia)), (parse_uint_adec w e Hw64 ltac:(lia)).
        destruct (N.ltb_spec s e); [|lia]. destruct (N.leb_spec e (n_cells q d)); [reflexivity|lia].
  Qed.

End Item.

Lemma adec_aux_digits : forall f x l_acc, digits l_acc -> digits (adec_aux f x l_acc).
Proof.
  induction f as [|f IH]; intros x l_acc H; cbn [adec_aux]; [exact H|].
  assert (H' : digits ((48 + x mod 10) :: l_acc)).
  { constructor; [|exact H]. apply is_digit_spec.
    pose proof (N.mod_lt x 10 ltac:(lia)). remember (x mod 10) as r. lia. }
  destruct (x / 10 =? 0); [exact H'|apply IH; exact H'].
Qed.
Lemma adec_digits x : digits (adec x).
Proof. apply adec_aux_digits. constructor. Qed.

Lemma line_of_no_nl ul x : ~ In 10 (line_of ul x).
Proof.
  assert (A : forall y, ~ In 10 (adec y)) by (intros y; apply digits_notin; [reflexivity|apply adec_digits]).
  destruct x as [d i|d s e]; cbn [line_of]; [|destruct ul]; intros Hin;
    repeat (apply in_app_or in Hin; destruct Hin as [Hin|Hin]; [try (exact (A _ Hin)); try (destruct Hin as [Hin|[]]; discriminate Hin)|]);
    try (exact (A _ Hin)).
Qed.

(** ---------- lines ---------- *)
Lemma lines_doc (ls : list (list N)) : Forall (fun l => ~ In 10 l) ls ->
  lines (flat_map (fun l => l ++ [10]) ls) = ls.
Proof.
  intros H. unfold lines.
  replace (flat_map (fun l => l ++ [10]) ls) with (flat_map (fun l => l ++ [10]) ls ++ []) by apply app_nil_r.
  rewrite (split_on_pieces 10 ls [] H ltac:(intros [])).
  rewrite rev_app_distr. cbn [rev app]. apply rev_involutive.
Qed.

Section Stream.
  Variable q : qty.
  Variable w : N.
  Hypothesis Hw : okw w.

  Lemma filter_map_items ul dmax es : dmax <= max_depth q w -> Forall (elem_wf q dmax) es ->
    filter_map (parse_item q w) (map (line_of ul) es) = es.
  Proof.
    intros Hd. induction 1 as [|x es Hx _ IH]; [reflexivity|].
    cbn [map filter_map]. rewrite (parse_item_line q w Hw ul x dmax Hd Hx). rewrite IH. reflexivity.
  Qed.

  Lemma header1 : split_eq_trim ([113; 116; 121; 61] ++ qname q) = Some ([113; 116; 121], qname q).
  Proof. destruct q; vm_compute; reflexivity. Qed.

  Lemma header2 d : d < 256 ->
    split_eq_trim ([100; 101; 112; 116; 104; 61] ++ adec d) = Some ([100; 101; 112; 116; 104], adec d).
  Proof.
    intros Hd.
    assert (D64 : d < 2 ^ 64) by (change (2 ^ 64) with 18446744073709551616; lia).
    destruct (dec_spec d D64) as [Dn [Dd _]].
    unfold split_eq_trim.
    destruct (exists_last Dn) as [b' [x Eb]].
    assert (Hx : is_digit x = true).
    { unfold digits in Dd. rewrite Forall_forall in Dd. apply Dd. rewrite Eb. apply in_or_app. right. left. reflexivity. }
    assert (T1 : trim ([100; 101; 112; 116; 104; 61] ++ adec d) = [100; 101; 112; 116; 104; 61] ++ adec d).
    { rewrite Eb. replace ([100; 101; 112; 116; 104; 61] ++ b' ++ [x]) with (100 :: ([101; 112; 116; 104; 61] ++ b') ++ [x])
        by (cbn [app]; reflexivity).
      apply trim_wrap; [reflexivity|apply digit_not_blank; exact Hx]. }
    rewrite T1.
    change ([100; 101; 112; 116; 104; 61] ++ adec d) with ([100; 101; 112; 116; 104] ++ 61 :: adec d).
    rewrite split_once_first by (intros [H|[H|[H|[H|[H|[]]]]]]; discriminate H).
    rewrite (trim_digits (adec d) Dd Dn). reflexivity.
  Qed.

  Lemma list_eqb_refl a : list_eqb a a = true.
  Proof. induction a as [|x a IH]; [reflexivity|]. cbn [list_eqb]. rewrite N.eqb_refl. exact IH. Qed.

  Theorem ascii_stream_roundtrip dmax ul es : dmax <= max_depth q w -> Forall (elem_wf q dmax) es ->
    from_ascii_stream q w (to_ascii_stream q dmax ul es) = SOk dmax es.
  Proof.
    intros Hd Hes.
    pose proof (max_depth_255 q w Hw) as H255.
    assert (Edoc : to_ascii_stream q dmax ul es =
                   flat_map (fun l => l ++ [10]) (([113; 116; 121; 61] ++ qname q) :: ([100; 101; 112; 116; 104; 61] ++ adec dmax) :: map (line_of ul) es)).
    { assert (B : flat_map (stream_line ul) es = flat_map (fun l => l ++ [10]) (map (line_of ul) es)).
      { clear Hes. induction es as [|x t IH]; [reflexivity|]. cbn [flat_map map]. rewrite stream_line_of, IH. reflexivity. }
      unfold to_ascii_stream. cbn [flat_map]. rewrite B, <- !app_assoc. reflexivity. }
    unfold from_ascii_stream. rewrite Edoc, lines_doc.
    - rewrite header1. rewrite !list_eqb_refl. cbn [andb].
      rewrite (header2 dmax ltac:(lia)). rewrite list_eqb_refl.
      rewrite (parse_uint_adec 8 dmax ltac:(lia) ltac:(change (2 ^ 8) with 256; lia)).
      destruct (N.ltb_spec (max_depth q w) dmax); [lia|].
      rewrite (filter_map_items ul dmax es Hd Hes). reflexivity.
    - constructor; [|constructor].
      + destruct q; intros Hin; repeat (destruct Hin as [Hin|Hin]; [discriminate Hin|]); exact Hin.
      + intros Hin. apply in_app_or in Hin. destruct Hin as [Hin|Hin].
        * repeat (destruct Hin as [Hin|Hin]; [discriminate Hin|]); exact Hin.
        * exact (digits_notin 10 _ eq_refl (adec_digits dmax) Hin).
      + apply Forall_forall. intros l Hl. apply in_map_iff in Hl. destruct Hl as [x [<- _]]. apply line_of_no_nl.
  Qed.
End Stream.
