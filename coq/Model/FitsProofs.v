(** Model/FitsProofs.v — the whole-file round trip of the FITS codec of Model/FitsCodec.v:
    fits_read (fits_write q w d l) = FOk (leaf of q) w d 0 (DRanges l)
    for every quantity, every supported width, every depth below 256 (the u8 of the header) and every
    range list whose bounds fit the width (every valid MOC does).
    The header part depends on (q, w, d) only, a finite domain: it is checked by computation for each of
    the 3 x 3 x 256 combinations and lifted; the NAXIS2 card (unbounded row count) and the data part
    are proved symbolically. *)
From Coq Require Import List NArith Arith Lia Bool String Ascii.
From MOC.Base Require Import RangeSet.
From MOC.Model Require Import Qty Query Build Repr Serial AsciiCodec AsciiProofs AsciiStreamProofs FitsCodec.
Import ListNotations.
Open Scope N_scope.
Open Scope list_scope.

Arguments N.add : simpl never.
Arguments N.mul : simpl never.
Arguments N.sub : simpl never.
Arguments N.div : simpl never.
Arguments N.pow : simpl never.
Arguments N.eqb : simpl never.
Arguments N.leb : simpl never.
Arguments N.ltb : simpl never.

(** ---------- blocks ---------- *)
Definition blank : list N := repeat 32 80.

Lemma chunks_concat : forall (cs : list (list N)) (r : list N), Forall (fun c => List.length c = 80%nat) cs ->
  chunks (List.length cs) (List.concat cs ++ r) = cs.
Proof.
  induction cs as [|c cs IH]; intros r H; [reflexivity|].
  inversion H as [|? ? Hc Hcs]; subst. cbn [List.length chunks List.concat].
  rewrite <- app_assoc. rewrite (firstn_app_exact c _ 80 Hc), (skipn_app_exact c _ 80 Hc).
  rewrite IH by exact Hcs. reflexivity.
Qed.

Lemma concat_length80 : forall (cs : list (list N)), Forall (fun c => List.length c = 80%nat) cs ->
  List.length (List.concat cs) = (80 * List.length cs)%nat.
Proof.
  induction cs as [|c cs IH]; intros H; [reflexivity|].
  inversion H as [|? ? Hc Hcs]; subst. cbn [List.concat List.length]. rewrite app_length, Hc, (IH Hcs). lia.
Qed.

Lemma repeat_blank k : repeat 32 (80 * k) = List.concat (repeat blank k).
Proof.
  induction k as [|k IH]; [reflexivity|].
  replace (80 * S k)%nat with (80 + 80 * k)%nat by lia. rewrite repeat_app, IH. reflexivity.
Qed.

Lemma hdr_block_cards cs : Forall (fun c => List.length c = 80%nat) cs -> (List.length cs <= 36)%nat ->
  hdr_block cs = List.concat (cs ++ repeat blank (36 - List.length cs)).
Proof.
  intros H Hn. unfold hdr_block. rewrite concat_app.
  replace (2880 - 80 * List.length cs)%nat with (80 * (36 - List.length cs))%nat by lia.
  rewrite repeat_blank. reflexivity.
Qed.

Lemma read_block_hdr cs r : Forall (fun c => List.length c = 80%nat) cs -> (List.length cs <= 36)%nat ->
  read_block (hdr_block cs ++ r) = Some (cs ++ repeat blank (36 - List.length cs), r).
Proof.
  intros H Hn. rewrite (hdr_block_cards cs H Hn).
  set (all := cs ++ repeat blank (36 - List.length cs)).
  assert (Hall : Forall (fun c => List.length c = 80%nat) all).
  { apply Forall_app. split; [exact H|]. apply Forall_forall. intros c Hc. apply repeat_spec in Hc. subst c. reflexivity. }
  assert (Lall : List.length all = 36%nat).
  { unfold all. rewrite app_length, repeat_length. lia. }
  assert (L : List.length (List.concat all) = 2880%nat) by (rewrite (concat_length80 all Hall), Lall; reflexivity).
  unfold read_block.
  assert (Lt : (List.length (List.concat all ++ r) <? 2880)%nat = false).
  { apply Nat.ltb_ge. rewrite app_length. lia. }
  rewrite Lt.
  rewrite (firstn_app_exact _ _ 2880 L), (skipn_app_exact _ _ 2880 L).
  replace 36%nat with (List.length all) by exact Lall.
  replace (List.concat all) with (List.concat all ++ []) by apply app_nil_r.
  rewrite (chunks_concat all [] Hall). reflexivity.
Qed.

(** ---------- cards ---------- *)
Lemma pad80_length s : (List.length s <= 80)%nat -> List.length (pad80 s) = 80%nat.
Proof. intros H. unfold pad80. rewrite app_length, repeat_length. lia. Qed.

Lemma adec_aux_length : forall f x l_acc, (List.length (adec_aux f x l_acc) <= f + List.length l_acc)%nat.
Proof.
  induction f as [|f IH]; intros x l_acc; cbn [adec_aux]; [lia|].
  destruct (x / 10 =? 0); [cbn [List.length]; lia|].
  specialize (IH (x / 10) ((48 + x mod 10) :: l_acc)). cbn [List.length] in IH. lia.
Qed.
Lemma adec_length x : (List.length (adec x) <= 20)%nat.
Proof. unfold adec. pose proof (adec_aux_length 20 x []). cbn [List.length] in H. lia. Qed.

Lemma kw_record_length kw v : List.length kw = 8%nat -> (List.length v <= 70)%nat -> List.length (kw_record kw v) = 80%nat.
Proof. intros Hk Hv. unfold kw_record. apply pad80_length. rewrite !app_length, Hk. cbn [List.length]. lia. Qed.

Lemma mand_record_length kw v : List.length kw = 8%nat -> List.length (mand_record kw v) = 80%nat.
Proof.
  intros Hk. unfold mand_record. apply pad80_length. pose proof (adec_length v).
  rewrite !app_length, repeat_length, Hk. cbn [List.length]. lia.
Qed.

(** the NAXIS2 card: any row count below 2^64 is read back *)
Lemma trim_start_spaces k r : trim_start (repeat 32 k ++ r) = trim_start r.
Proof. induction k as [|k IH]; [reflexivity|]. cbn [repeat app trim_start]. change (is_ascii_ws 32) with true. exact IH. Qed.

Lemma trim_start_digit c r : is_digit c = true -> trim_start (c :: r) = c :: r.
Proof.
  intros H. cbn [trim_start]. apply is_digit_spec in H.
  assert (E : is_ascii_ws c = false).
  { unfold is_ascii_ws. destruct (N.eqb_spec c 32); [lia|]. destruct (N.eqb_spec c 9); [lia|].
    destruct (N.eqb_spec c 10); [lia|]. destruct (N.eqb_spec c 12); [lia|]. destruct (N.eqb_spec c 13); [lia|]. reflexivity. }
  rewrite E. reflexivity.
Qed.

Lemma nodigit_spaces k : nodigit_head (repeat 32 k).
Proof. destruct k; cbn; [exact I|reflexivity]. Qed.

Lemma uint_val_field bits v k pad : v < 2 ^ bits -> bits <= 64 ->
  forall kw, List.length kw = 10%nat ->
  uint_val bits (kw ++ repeat 32 k ++ adec v ++ repeat 32 pad) = Datatypes.inr v.
Proof.
  intros Hv Hb kw Hk.
  assert (H64 : v < 2 ^ 64) by (eapply N.lt_le_trans; [exact Hv|apply N.pow_le_mono_r; lia]).
  destruct (dec_spec v H64) as [Dn [Dd Dv]].
  unfold uint_val, value_of. rewrite (skipn_app_exact kw _ 10 Hk). rewrite trim_start_spaces.
  destruct (adec v) as [|c t] eqn:E; [congruence|].
  pose proof (Forall_inv Dd) as Hc. cbn beta in Hc.
  cbn [app]. rewrite (trim_start_digit c _ Hc).
  change (c :: t ++ repeat 32 pad) with ((c :: t) ++ repeat 32 pad).
  rewrite (span_digits_app (c :: t) (repeat 32 pad) Dd (nodigit_spaces pad)).
  rewrite Dv. destruct (N.ltb_spec v (2 ^ bits)); [reflexivity|lia].
Qed.

Lemma naxis2_card n : n < 2 ^ 64 ->
  check_kw_uint 64 (mand_record (s2l "NAXIS2  ") n) (s2l "NAXIS2 ") = Datatypes.inr n.
Proof.
  intros Hn. unfold check_kw_uint, mand_record, pad80.
  set (k := Nat.sub 20 (List.length (adec n))).
  set (p := Nat.sub 80 (List.length (s2l "NAXIS2  " ++ [61; 32] ++ repeat 32 k ++ adec n))).
  assert (E1 : check_kw ((s2l "NAXIS2  " ++ [61; 32] ++ repeat 32 k ++ adec n) ++ repeat 32 p) (s2l "NAXIS2 ") = None) by reflexivity.
  assert (E2 : check_ind ((s2l "NAXIS2  " ++ [61; 32] ++ repeat 32 k ++ adec n) ++ repeat 32 p) = None) by reflexivity.
  rewrite E1, E2.
  replace ((s2l "NAXIS2  " ++ [61; 32] ++ repeat 32 k ++ adec n) ++ repeat 32 p)
    with ((s2l "NAXIS2  " ++ [61; 32]) ++ repeat 32 k ++ adec n ++ repeat 32 p) by (rewrite <- !app_assoc; reflexivity).
  apply uint_val_field; [exact Hn|lia|reflexivity].
Qed.

(** ---------- the data part ---------- *)
Lemma read_ranges_rows nb : forall l fuel pad, (0 < nb)%nat -> InWidth nb l -> (List.length l <= fuel)%nat ->
  (List.length pad < nb + nb)%nat \/ l = l ->
  read_ranges fuel nb (N.of_nat (List.length l)) (encode_rows nb l ++ pad) = l.
Proof.
  induction l as [|[a b] t IH]; intros fuel pad Hnb Hw Hf _.
  - cbn [List.length encode_rows flat_map app]. destruct fuel; [reflexivity|]. cbn [read_ranges]. reflexivity.
  - inversion Hw as [|? ? [Ha Hb] Ht]; subst. cbn [fst snd] in Ha, Hb.
    destruct fuel as [|fuel]; [cbn [List.length] in Hf; lia|].
    cbn [read_ranges].
    assert (L1 : List.length (be_bytes nb a) = nb) by apply be_bytes_length.
    assert (L2 : List.length (be_bytes nb b) = nb) by apply be_bytes_length.
    cbn [encode_rows flat_map]. fold (encode_rows nb t). unfold row_bytes. cbn [fst snd].
    match goal with |- context [N.eqb ?x 0] =>
      assert (N0 : N.eqb x 0 = false) by (apply N.eqb_neq; cbn [List.length]; lia); rewrite N0 end.
    match goal with |- context [Nat.ltb ?x (nb + nb)] =>
      assert (Len : Nat.ltb x (nb + nb) = false) by (apply Nat.ltb_ge; rewrite !app_length, L1, L2; lia); rewrite Len end.
    cbn [orb].
    rewrite <- !app_assoc.
    rewrite (firstn_app_exact _ _ nb L1), (skipn_app_exact _ _ nb L1), (firstn_app_exact _ _ nb L2).
    rewrite !be_roundtrip by assumption.
    f_equal.
    replace (be_bytes nb a ++ be_bytes nb b ++ encode_rows nb t ++ pad) with ((be_bytes nb a ++ be_bytes nb b) ++ encode_rows nb t ++ pad) by (rewrite <- app_assoc; reflexivity).
    rewrite (skipn_app_exact _ _ (nb + nb)) by (rewrite app_length; lia).
    match goal with |- context [N.sub ?x 1] =>
      replace (N.sub x 1) with (N.of_nat (List.length t)) by (cbn [List.length]; lia) end.
    apply IH; [exact Hnb|exact Ht|cbn [List.length] in Hf; lia|right; reflexivity].
Qed.

(** ---------- the header of the extension: finite sweep over (q, w, d) ---------- *)
Definition leaf_of (q : qty) : leaf := match q with Hpx => LSRange | Time => LTRange | Freq => LFRange end.
Definition leaf_eqb (a b : leaf) : bool :=
  match a, b with
  | LSNuniq, LSNuniq | LSRange, LSRange | LTRange, LTRange | LFRange, LFRange | LSTRange, LSTRange | LST29, LST29 => true
  | _, _ => false
  end.

Definition fixed_cards (w nrows : N) : list (list N) :=
  [pad80 (s2l "XTENSION= 'BINTABLE'"); pad80 (s2l "BITPIX  =                    8");
   pad80 (s2l "NAXIS   =                    2"); mand_record (s2l "NAXIS1  ") (w / 8);
   mand_record (s2l "NAXIS2  ") nrows; pad80 (s2l "PCOUNT  =                    0");
   pad80 (s2l "GCOUNT  =                    1"); pad80 (s2l "TFIELDS =                    1")].

Definition tail_cards (q : qty) (w d : N) : list (list N) :=
  moc_cards q w d ++ [pad80 (s2l "END")].

Lemma ext_header_cards q w d nrows : ext_header q w d nrows = hdr_block (fixed_cards w nrows ++ tail_cards q w d).
Proof. unfold ext_header, fixed_cards, tail_cards. cbn [app]. rewrite ?app_assoc. reflexivity. Qed.

Definition hdr_tail_ok (q : qty) (w d : N) : bool :=
  let tc := tail_cards q w d in
  forallb (fun c => Nat.eqb (List.length c) 80) tc && Nat.leb (List.length tc) 28 &&
  match kw_cards (tc ++ repeat blank (28 - List.length tc)) [] with
  | Datatypes.inr (m, true) =>
    match dispatch m with
    | Datatypes.inr (lf, d1, d2) =>
      leaf_eqb lf (leaf_of q) && (d1 =? d) && (d2 =? 0) &&
      match width_of lf m (w / 8) with Datatypes.inr w' => w' =? w | Datatypes.inl _ => false end
    | Datatypes.inl _ => false
    end
  | _ => false
  end.

Definition hdr_fixed_ok (w : N) : bool :=
  let c := fixed_cards w 0 in
  match check_kv (nth 0 c []) (s2l "XTENSION") (s2l "'BINTABLE'"), check_kv (nth 1 c []) (s2l "BITPIX  ") (s2l "8"),
        check_kv (nth 2 c []) (s2l "NAXIS  ") (s2l "2"), check_kw_uint 8 (nth 3 c []) (s2l "NAXIS1  "),
        check_kv (nth 5 c []) (s2l "PCOUNT  ") (s2l "0"), check_kv (nth 6 c []) (s2l "GCOUNT  ") (s2l "1"),
        check_kv (nth 7 c []) (s2l "TFIELDS ") (s2l "1") with
  | None, None, None, Datatypes.inr nb, None, None, None => nb =? w / 8
  | _, _, _, _, _, _, _ => false
  end.

Lemma hdr_sweep : forallb (fun q => forallb (fun w => hdr_fixed_ok w && forallb (hdr_tail_ok q w) (anseq 0 256)) [16; 32; 64]) [Hpx; Time; Freq] = true.
Proof. vm_compute. reflexivity. Qed.

Lemma hdr_tail_ok_all q w d : okw w -> d < 256 -> hdr_tail_ok q w d = true /\ hdr_fixed_ok w = true.
Proof.
  intros Hw Hd. pose proof hdr_sweep as S.
  rewrite forallb_forall in S.
  assert (Hq : In q [Hpx; Time; Freq]) by (destruct q; cbn; auto).
  specialize (S q Hq). rewrite forallb_forall in S.
  assert (Hw' : In w [16; 32; 64]) by (destruct Hw as [->|[->| ->]]; cbn; auto).
  specialize (S w Hw'). apply andb_true_iff in S. destruct S as [S1 S2].
  rewrite forallb_forall in S2. split; [|exact S1]. apply S2. apply nseq_in. cbn. lia.
Qed.

(** ---------- the whole file ---------- *)
Lemma primary_ok r : consume_primary (primary_hdu ++ r) = Datatypes.inr r.
Proof.
  unfold consume_primary, primary_hdu.
  rewrite read_block_hdr; [|repeat constructor|cbn; lia].
  match goal with |- context [nth 0 ?X []] => set (cs := X) end.
  assert (E1 : check_kv (nth 0 cs []) (s2l "SIMPLE ") (s2l "T") = None) by (vm_compute; reflexivity).
  assert (E2 : check_kv (nth 2 cs []) (s2l "NAXIS ") (s2l "0") = None) by (vm_compute; reflexivity).
  assert (E3 : contains_end (skipn 3 cs) = true) by (vm_compute; reflexivity).
  rewrite E1, E2, E3. reflexivity.
Qed.

Lemma fixed_cards_len w nrows : Forall (fun c => List.length c = 80%nat) (fixed_cards w nrows).
Proof.
  unfold fixed_cards. repeat constructor; try (apply mand_record_length; reflexivity).
Qed.

Lemma encode_rows_len nb l : List.length (encode_rows nb l) = (2 * nb * List.length l)%nat.
Proof. apply encode_rows_length. Qed.

Theorem fits_file_roundtrip q w d l : okw w -> d < 256 -> InWidth (N.to_nat (w / 8)) l ->
  2 * N.of_nat (List.length l) < 2 ^ 64 ->
  fits_read (fits_write q w d l) = FOk (leaf_of q) w d 0 (DRanges l).
Proof.
  intros Hw Hd Hin Hn.
  destruct (hdr_tail_ok_all q w d Hw Hd) as [HT HF].
  unfold fits_write. cbn zeta.
  set (nb := N.to_nat (w / 8)) in *.
  set (data := encode_rows nb l).
  set (pad := repeat 0 (N.to_nat (fits_pad (N.of_nat (List.length data))))).
  set (nrows := 2 * N.of_nat (List.length l)) in *.
  unfold fits_read. rewrite <- ?app_assoc. rewrite primary_ok.
  rewrite ext_header_cards.
  (* the tail cards: lengths and count from the sweep *)
  unfold hdr_tail_ok in HT. cbn zeta in HT.
  apply andb_true_iff in HT. destruct HT as [HT HK]. apply andb_true_iff in HT. destruct HT as [HL HC].
  assert (TL : Forall (fun c => List.length c = 80%nat) (tail_cards q w d)).
  { apply Forall_forall. intros c Hc. rewrite forallb_forall in HL. specialize (HL c Hc). apply Nat.eqb_eq in HL. exact HL. }
  apply Nat.leb_le in HC.
  rewrite read_block_hdr.
  2:{ apply Forall_app. split; [apply fixed_cards_len|exact TL]. }
  2:{ rewrite app_length. cbn [fixed_cards List.length]. lia. }
  (* the eight mandatory cards *)
  unfold hdr_fixed_ok in HF. cbn zeta in HF.
  assert (N8 : forall k, (k < 8)%nat -> k <> 4%nat -> forall X, nth k ((fixed_cards w nrows ++ tail_cards q w d) ++ X) [] = nth k (fixed_cards w 0) []).
  { intros k Hk H4 X. do 8 (destruct k as [|k]; [try reflexivity; try congruence|]). lia. }
  rewrite !N8 by lia.
  assert (N4 : forall X, nth 4 ((fixed_cards w nrows ++ tail_cards q w d) ++ X) [] = mand_record (s2l "NAXIS2  ") nrows) by reflexivity.
  rewrite N4.
  destruct (check_kv (nth 0 (fixed_cards w 0) []) (s2l "XTENSION") (s2l "'BINTABLE'")); [discriminate|].
  destruct (check_kv (nth 1 (fixed_cards w 0) []) (s2l "BITPIX  ") (s2l "8")); [discriminate|].
  destruct (check_kv (nth 2 (fixed_cards w 0) []) (s2l "NAXIS  ") (s2l "2")); [discriminate|].
  destruct (check_kw_uint 8 (nth 3 (fixed_cards w 0) []) (s2l "NAXIS1  ")) as [e|nbytes]; [discriminate|].
  rewrite (naxis2_card nrows Hn).
  destruct (check_kv (nth 5 (fixed_cards w 0) []) (s2l "PCOUNT  ") (s2l "0")); [discriminate|].
  destruct (check_kv (nth 6 (fixed_cards w 0) []) (s2l "GCOUNT  ") (s2l "1")); [discriminate|].
  destruct (check_kv (nth 7 (fixed_cards w 0) []) (s2l "TFIELDS ") (s2l "1")); [discriminate|].
  apply N.eqb_eq in HF. subst nbytes.
  (* the keyword loop *)
  assert (SK : skipn 8 ((fixed_cards w nrows ++ tail_cards q w d) ++ repeat blank (36 - List.length (fixed_cards w nrows ++ tail_cards q w d)))
               = tail_cards q w d ++ repeat blank (28 - List.length (tail_cards q w d))).
  { rewrite <- app_assoc. unfold fixed_cards. cbn [app skipn List.length]. f_equal; try f_equal; lia. }
  rewrite SK.
  cbn [kw_blocks].
  destruct (kw_cards (tail_cards q w d ++ repeat blank (28 - List.length (tail_cards q w d))) []) as [e|[m [|]]]; try discriminate.
  destruct (dispatch m) as [e|[[lf d1] d2]]; [discriminate|].
  destruct (width_of lf m (w / 8)) as [e|w'] eqn:EW.
  { rewrite !andb_false_r in HK. discriminate. }
  apply andb_true_iff in HK. destruct HK as [HK K4]. apply andb_true_iff in HK. destruct HK as [HK K3].
  apply andb_true_iff in HK. destruct HK as [K1 K2].
  apply N.eqb_eq in K4. apply N.eqb_eq in K3. apply N.eqb_eq in K2. subst w' d2 d1.
  assert (Elf : lf = leaf_of q) by (destruct lf, q; cbn in K1 |- *; first [reflexivity|discriminate K1]).
  subst lf.
  assert (RR : read_ranges (List.length (data ++ pad)) nb (nrows / 2) (data ++ pad) = l).
  { unfold nrows. rewrite N.mul_comm, N.div_mul by lia.
    apply read_ranges_rows; [| exact Hin | | right; reflexivity].
    - unfold nb. destruct Hw as [->|[->| ->]]; vm_compute; lia.
    - rewrite app_length. unfold data. rewrite encode_rows_len.
      assert (0 < nb)%nat by (unfold nb; destruct Hw as [->|[->| ->]]; vm_compute; lia). nia. }
  fold nb. destruct q; cbn [leaf_of]; rewrite RR; reflexivity.
Qed.

(** ---------- structure of the written file ---------- *)
Lemma hdr_block_length cs : Forall (fun c => List.length c = 80%nat) cs -> (List.length cs <= 36)%nat ->
  List.length (hdr_block cs) = 2880%nat.
Proof.
  intros H Hn. rewrite (hdr_block_cards cs H Hn). rewrite concat_length80.
  - rewrite app_length, repeat_length. lia.
  - apply Forall_app. split; [exact H|]. apply Forall_forall. intros c Hc. apply repeat_spec in Hc. subst c. reflexivity.
Qed.

Theorem fits_write_blocks q w d l : okw w -> d < 256 ->
  N.of_nat (List.length (fits_write q w d l)) mod 2880 = 0 /\
  N.of_nat (List.length (fits_write q w d l)) =
    2 * 2880 + N.of_nat (List.length (encode_rows (N.to_nat (w / 8)) l)) + fits_pad (N.of_nat (List.length (encode_rows (N.to_nat (w / 8)) l))).
Proof.
  intros Hw Hd. destruct (hdr_tail_ok_all q w d Hw Hd) as [HT _].
  unfold hdr_tail_ok in HT. cbn zeta in HT.
  apply andb_true_iff in HT. destruct HT as [HT _]. apply andb_true_iff in HT. destruct HT as [HL HC].
  assert (TL : Forall (fun c => List.length c = 80%nat) (tail_cards q w d)).
  { apply Forall_forall. intros c Hc. rewrite forallb_forall in HL. specialize (HL c Hc). apply Nat.eqb_eq in HL. exact HL. }
  apply Nat.leb_le in HC.
  set (n := List.length (encode_rows (N.to_nat (w / 8)) l)).
  assert (L : N.of_nat (List.length (fits_write q w d l)) = 2 * 2880 + N.of_nat n + fits_pad (N.of_nat n)).
  { unfold fits_write. cbn zeta. fold n. rewrite !app_length, repeat_length.
    unfold primary_hdu. rewrite hdr_block_length; [|repeat constructor|cbn; lia].
    rewrite ext_header_cards, hdr_block_length.
    - rewrite !Nat2N.inj_add, N2Nat.id. change (N.of_nat 2880) with 2880. lia.
    - apply Forall_app. split; [apply fixed_cards_len|exact TL].
    - rewrite app_length. cbn [fixed_cards List.length]. lia. }
  split; [|exact L]. rewrite L.
  pose proof (fits_block_structure (N.of_nat n)) as B.
  replace (2 * 2880 + N.of_nat n + fits_pad (N.of_nat n)) with ((N.of_nat n + fits_pad (N.of_nat n)) + 2 * 2880) by lia.
  rewrite N.mod_add by lia. exact B.
Qed.

(** ---------- the reader never runs out of fuel: it always returns a MOC or an error of the code ---------- *)
Lemma read_block_cases b :
  ((List.length b < 2880)%nat /\ read_block b = None) \/
  ((2880 <= List.length b)%nat /\ read_block b = Some (chunks 36 (firstn 2880 b), skipn 2880 b)).
Proof.
  unfold read_block. destruct (Nat.ltb_spec (List.length b) 2880); [left|right]; split; auto.
Qed.

Lemma skip_to_end_fuel : forall fuel b, (List.length b < fuel)%nat -> skip_to_end fuel b <> Datatypes.inl FFuel.
Proof.
  induction fuel as [|f IH]; intros b Hb; [lia|].
  cbn [skip_to_end]. destruct (read_block_cases b) as [[H E]|[H E]]; rewrite E; [discriminate|].
  destruct (contains_end (chunks 36 (firstn 2880 b))); [discriminate|]. apply IH.
  pose proof (skipn_length 2880 b) as SL. lia.
Qed.

Lemma uint_val_nf bits rec e : uint_val bits rec = Datatypes.inl e -> e <> FFuel.
Proof.
  unfold uint_val. destruct (span_digits (value_of rec)) as [ds r]. destruct ds as [|c t].
  - intros H. inversion H. discriminate.
  - destruct (dval (c :: t) <? 2 ^ bits); intros H; inversion H. discriminate.
Qed.

Lemma enum_val_nf rec choices e : enum_val rec choices = Datatypes.inl e -> e <> FFuel.
Proof.
  unfold enum_val. destruct (str_val rec) as [v|]; [|intros H; inversion H; discriminate].
  generalize 0. induction choices as [|c r IH]; intros i H.
  - inversion H. discriminate.
  - destruct (list_eqb v c); [discriminate|]. apply (IH (i + 1)). exact H.
Qed.

Lemma string_val_nf rec e : string_val rec = Datatypes.inl e -> e <> FFuel.
Proof. unfold string_val. destruct (str_val rec); intros H; inversion H. discriminate. Qed.

Lemma depth_val_nf rec e : depth_val rec = Datatypes.inl e -> e <> FFuel.
Proof.
  unfold depth_val. destruct (uint_val 8 rec) as [e'|d] eqn:E; intros H; inversion H; subst.
  apply (uint_val_nf 8 rec). exact E.
Qed.

Lemma is_moc_kw_nf rec i e : is_moc_kw rec = Some (i, Datatypes.inl e) -> e <> FFuel.
Proof.
  unfold is_moc_kw.
  repeat match goal with |- (if ?c then _ else _) = _ -> _ => destruct c end;
    try discriminate; intros H; injection H as _ H;
    first [apply (enum_val_nf _ _ _ H) | apply (string_val_nf _ _ H) | apply (depth_val_nf _ _ H) | idtac].
  destruct (uint_val 32 rec) as [e'|n] eqn:E; inversion H; subst. apply (uint_val_nf 32 rec). exact E.
Qed.

Lemma kw_cards_no_fuel : forall cs m, kw_cards cs m <> Datatypes.inl FFuel.
Proof.
  induction cs as [|rec t IH]; intros m; cbn [kw_cards]; [discriminate|].
  destruct (is_moc_kw rec) as [[i [e|v]]|] eqn:E.
  - intros H. inversion H; subst. exact (is_moc_kw_nf rec i FFuel E eq_refl).
  - apply IH.
  - destruct (list_eqb (firstn 4 rec) (s2l "END ")); [discriminate|apply IH].
Qed.

Lemma kw_blocks_fuel : forall fuel cs rest m, (List.length rest < fuel)%nat -> forall r,
  kw_blocks fuel cs rest m = Datatypes.inl r -> r <> FFuel.
Proof.
  induction fuel as [|f IH]; intros cs rest m Hf r; [lia|].
  cbn [kw_blocks]. destruct (kw_cards cs m) as [e|[m' [|]]] eqn:E.
  - intros H. inversion H; subst. intros Z; subst. exact (kw_cards_no_fuel cs m E).
  - discriminate.
  - destruct (read_block_cases rest) as [[H1 E1]|[H1 E1]]; rewrite E1.
    + intros H. inversion H. discriminate.
    + apply IH. pose proof (skipn_length 2880 rest). lia.
Qed.

Lemma read_nuniq_fuel : forall fuel w nb n dmax data l_acc, (0 < nb)%nat -> (List.length data < fuel)%nat ->
  read_nuniq fuel w nb n dmax data l_acc <> Datatypes.inl FFuel.
Proof.
  induction fuel as [|f IH]; intros w nb n dmax data l_acc Hnb Hf; [lia|].
  cbn [read_nuniq]. destruct (n =? 0); [discriminate|].
  destruct (Nat.ltb_spec (List.length data) nb); [discriminate|].
  assert (Hs : (List.length (skipn nb data) < f)%nat) by (rewrite skipn_length; lia).
  destruct (be_value (firstn nb data) =? 0); [apply IH; assumption|].
  destruct (be_value (firstn nb data) <? 4); [discriminate|].
  destruct (dmax <? fst (from_uniq_hpx (be_value (firstn nb data)))); [discriminate|].
  destruct (n_cells Hpx (fst (from_uniq_hpx (be_value (firstn nb data)))) <=? snd (from_uniq_hpx (be_value (firstn nb data)))); [discriminate|].
  apply IH; assumption.
Qed.

Lemma check_kv_nf rec kw v e : check_kv rec kw v = Some e -> e <> FFuel.
Proof.
  unfold check_kv, check_kw, check_ind, check_val.
  destruct (starts_with kw rec); [|intros H; inversion H; discriminate].
  destruct (list_eqb _ _); [|intros H; inversion H; discriminate].
  destruct (starts_with v _); intros H; inversion H. discriminate.
Qed.

Lemma check_kw_uint_nf bits rec kw e : check_kw_uint bits rec kw = Datatypes.inl e -> e <> FFuel.
Proof.
  unfold check_kw_uint, check_kw, check_ind.
  destruct (starts_with kw rec); [|intros H; inversion H; discriminate].
  destruct (list_eqb _ _); [|intros H; inversion H; discriminate].
  apply uint_val_nf.
Qed.

Definition nf {A} (r : sum ferr A) : Prop := forall e, r = Datatypes.inl e -> e <> FFuel.

Lemma by_ordering_nf m a b c : nf a -> nf b -> nf c -> nf (by_ordering m a b c).
Proof.
  intros Ha Hb Hc. unfold by_ordering.
  destruct (kw_get m 2) as [[n| |d|n]|]; try (intros e H; inversion H; discriminate).
  destruct n as [|p]; [assumption|].
  repeat (destruct p as [p|p|]; try assumption; try (intros e H; inversion H; discriminate)).
Qed.

Lemma nf_inr {A} (x : A) : nf (Datatypes.inr x : sum ferr A).
Proof. intros e H. discriminate. Qed.
Lemma nf_unc {A} : nf (Datatypes.inl FUncompatibleKeywordContent : sum ferr A).
Proof. intros e H. inversion H. discriminate. Qed.
Lemma nf_miss {A} : nf (Datatypes.inl FMissingKeyword : sum ferr A).
Proof. intros e H. inversion H. discriminate. Qed.

Lemma with_leaf_nf r d1 d2 : nf r -> nf (with_leaf r d1 d2).
Proof. intros Hr e H. unfold with_leaf in H. destruct r as [e'|lf]; [|discriminate]. inversion H; subst. apply (Hr e eq_refl). Qed.

Lemma disp_space_nf m : nf (disp_space m).
Proof.
  unfold disp_space. destruct (depth_at m 8); [|apply nf_miss]. destruct (kw_get m 3); [|apply nf_miss].
  apply with_leaf_nf, by_ordering_nf; first [apply nf_inr|apply nf_unc].
Qed.
Lemma disp_time_nf m : nf (disp_time m).
Proof.
  unfold disp_time. destruct (depth_at m 9); [|apply nf_miss].
  apply with_leaf_nf, by_ordering_nf; first [apply nf_inr|apply nf_unc].
Qed.
Lemma disp_st_nf m : nf (disp_st m).
Proof.
  unfold disp_st. destruct (depth_at m 9); [|apply nf_miss]. destruct (depth_at m 8); [|apply nf_miss].
  apply with_leaf_nf, by_ordering_nf; first [apply nf_inr|apply nf_unc].
Qed.
Lemma disp_freq_nf m : nf (disp_freq m).
Proof.
  unfold disp_freq. destruct (depth_at m 16); [|apply nf_miss].
  apply with_leaf_nf, by_ordering_nf; first [apply nf_inr|apply nf_unc].
Qed.

Lemma dispatch_v2_nf m : nf (dispatch_v2 m).
Proof.
  unfold dispatch_v2.
  destruct (kw_get m 1) as [[n| |d|n]|]; try apply nf_miss.
  destruct n as [|p]; [apply disp_time_nf|].
  repeat (destruct p as [p|p|]; try apply nf_miss; try apply disp_space_nf; try apply disp_st_nf; try apply disp_freq_nf).
Qed.

Lemma dispatch_v1_nf m : nf (dispatch_v1 m).
Proof.
  unfold dispatch_v1. destruct (depth_at m 10) as [d|]; [|apply nf_miss].
  pose proof (by_ordering_nf m (Datatypes.inr LSNuniq) (Datatypes.inr LSRange) (Datatypes.inr LST29) (nf_inr _) (nf_inr _) (nf_inr _)) as B.
  destruct (by_ordering m _ _ _) as [e|lf].
  - intros e' H. inversion H; subst. apply (B e' eq_refl).
  - destruct lf; try apply nf_inr. unfold st29_depths.
    destruct (depth_at m 9), (depth_at m 8); first [apply nf_inr|apply nf_miss].
Qed.

Lemma dispatch_nf m : nf (dispatch m).
Proof. unfold dispatch. destruct (is_v2 m); [apply dispatch_v2_nf|apply dispatch_v1_nf]. Qed.

Lemma width_of_nf lf m nb : nf (width_of lf m nb).
Proof.
  unfold width_of. destruct (kw_get m 12) as [[t| |d|n]|]; try apply nf_miss; try apply nf_unc.
  destruct lf; repeat match goal with |- nf (if ?c then _ else _) => destruct c end; first [apply nf_inr|apply nf_unc].
Qed.

Lemma width_of_pos lf m nb w : width_of lf m nb = Datatypes.inr w -> (0 < N.to_nat (w / 8))%nat.
Proof.
  unfold width_of. destruct (kw_get m 12) as [[t| |d|n]|]; try discriminate.
  destruct lf; repeat match goal with |- (if ?c then _ else _) = _ -> _ => destruct c end;
    try discriminate; intros H; inversion H; subst; vm_compute; lia.
Qed.

Ltac kv_step :=
  match goal with |- context [check_kv ?a ?b ?c] =>
    let E := fresh "E" in let e := fresh "e" in
    destruct (check_kv a b c) as [e|] eqn:E;
    [let H := fresh in intros H; injection H as H; exact (check_kv_nf _ _ _ _ E H)|]
  end.

(* the keyword strings stay folded in what follows: unification must not evaluate them *)
Local Opaque s2l.

(** whatever the bytes, the reader returns a MOC or one of the errors of the code *)
Theorem fits_read_total b : fits_read b <> FErr FFuel.
Proof.
  unfold fits_read, consume_primary.
  destruct (read_block_cases b) as [[Hb0 Eb0]|[Hb0 Eb0]]; rewrite Eb0; [discriminate|].
  clear Hb0 Eb0. generalize (skipn 2880 b) (chunks 36 (firstn 2880 b)). intros rest0 cs0.
  kv_step. kv_step.
  assert (P : forall x, (if contains_end (skipn 3 cs0) then Datatypes.inr rest0 else skip_to_end (S (List.length rest0)) rest0) = Datatypes.inl x -> x <> FFuel).
  { intros x. destruct (contains_end _); [discriminate|]. intros H Z. subst x. exact (skip_to_end_fuel _ _ (Nat.lt_succ_diag_r _) H). }
  destruct (if contains_end (skipn 3 cs0) then Datatypes.inr rest0 else skip_to_end (S (List.length rest0)) rest0) as [x|b1] eqn:EP.
  { intros H. injection H as H. subst x. exact (P FFuel eq_refl eq_refl). }
  clear P EP.
  destruct (read_block_cases b1) as [[Hb1 Eb1]|[Hb1 Eb1]]; rewrite Eb1; [discriminate|].
  clear Hb1 Eb1. generalize (skipn 2880 b1) (chunks 36 (firstn 2880 b1)). intros rest1 cs1.
  kv_step. kv_step. kv_step.
  destruct (check_kw_uint 8 _ _) as [e|nbytes] eqn:EU1.
  { intros H. injection H as H. exact (check_kw_uint_nf _ _ _ _ EU1 H). }
  destruct (check_kw_uint 64 _ _) as [e|nelems] eqn:EU2.
  { intros H. injection H as H. exact (check_kw_uint_nf _ _ _ _ EU2 H). }
  kv_step. kv_step. kv_step.
  destruct (kw_blocks _ _ _ _) as [e|[m data]] eqn:EK.
  { intros H. inversion H; subst. exact (kw_blocks_fuel _ _ _ _ (Nat.lt_succ_diag_r _) _ EK eq_refl). }
  destruct (dispatch m) as [e|[[lf d1] d2]] eqn:ED.
  { intros H. injection H as H. subst e. exact (dispatch_nf m FFuel ED eq_refl). }
  destruct (width_of lf m nbytes) as [e|w] eqn:EW.
  { intros H. injection H as H. subst e. exact (width_of_nf lf m nbytes FFuel EW eq_refl). }
  destruct lf; try discriminate.
  destruct (read_nuniq _ _ _ _ _ _ _) as [e|cells] eqn:EN; [|discriminate].
  intros H. inversion H; subst.
  exact (read_nuniq_fuel _ _ _ _ _ _ _ (width_of_pos _ _ _ _ EW) (Nat.lt_succ_diag_r _) EN).
Qed.

Definition naxis2_kw : list N := s2l "NAXIS2  ".
Definition naxis2_expected : list N := s2l "NAXIS2 ".
Lemma naxis2_card_named n : n < 2 ^ 64 ->
  check_kw_uint 64 (mand_record naxis2_kw n) naxis2_expected = Datatypes.inr n.
Proof. exact (naxis2_card n). Qed.

(** ---------- the multi-order-map reader never runs out of fuel either ---------- *)
Lemma mom_rows_fuel : forall fuel nskip n dmax data l_acc, (List.length data < fuel)%nat ->
  mom_rows fuel nskip n dmax data l_acc <> Datatypes.inl FFuel.
Proof.
  induction fuel as [|f IH]; intros nskip n dmax data l_acc Hf; [lia|].
  cbn [mom_rows]. destruct (n =? 0); [discriminate|].
  destruct (Nat.ltb_spec (List.length data) (16 + nskip)); [discriminate|].
  cbv zeta. destruct (be_value (firstn 8 data) <? 4); [discriminate|].
  destruct (_ || _); [discriminate|].
  destruct (is_nan_bits _); [discriminate|].
  apply IH. rewrite skipn_length. lia.
Qed.

Theorem mom_read_total b : mom_read b <> MomErr FFuel.
Proof.
  unfold mom_read, consume_primary.
  destruct (read_block_cases b) as [[Hb0 Eb0]|[Hb0 Eb0]]; rewrite Eb0; [discriminate|].
  clear Hb0 Eb0. generalize (skipn 2880 b) (chunks 36 (firstn 2880 b)). intros rest0 cs0.
  kv_step. kv_step.
  assert (P : forall x, (if contains_end (skipn 3 cs0) then Datatypes.inr rest0 else skip_to_end (S (List.length rest0)) rest0) = Datatypes.inl x -> x <> FFuel).
  { intros x. destruct (contains_end _); [discriminate|]. intros H Z. subst x. exact (skip_to_end_fuel _ _ (Nat.lt_succ_diag_r _) H). }
  destruct (if contains_end (skipn 3 cs0) then Datatypes.inr rest0 else skip_to_end (S (List.length rest0)) rest0) as [x|b1] eqn:EP.
  { intros H. injection H as H. subst x. exact (P FFuel eq_refl eq_refl). }
  clear P EP.
  destruct (read_block_cases b1) as [[Hb1 Eb1]|[Hb1 Eb1]]; rewrite Eb1; [discriminate|].
  clear Hb1 Eb1. generalize (skipn 2880 b1) (chunks 36 (firstn 2880 b1)). intros rest1 cs1.
  kv_step. kv_step. kv_step.
  destruct (check_kw_uint 64 _ (s2l "NAXIS1  ")) as [e|nbytes] eqn:EU1.
  { intros H. injection H as H. exact (check_kw_uint_nf _ _ _ _ EU1 H). }
  destruct (check_kw_uint 64 _ (s2l "NAXIS2 ")) as [e|nrows] eqn:EU2.
  { intros H. injection H as H. exact (check_kw_uint_nf _ _ _ _ EU2 H). }
  kv_step. kv_step.
  destruct (check_kw_uint 64 _ (s2l "TFIELDS ")) as [e|nf] eqn:EU3.
  { intros H. injection H as H. exact (check_kw_uint_nf _ _ _ _ EU3 H). }
  kv_step. kv_step. kv_step. kv_step.
  destruct (kw_blocks _ _ _ _) as [e|[m data]] eqn:EK.
  { intros H. inversion H; subst. exact (kw_blocks_fuel _ _ _ _ (Nat.lt_succ_diag_r _) _ EK eq_refl). }
  destruct (kw_get m 11); [|discriminate].
  destruct (kw_get m 2) as [[n| |d|n]|]; try discriminate.
  destruct n as [|p]; [|discriminate].
  destruct (kw_get m 3); [|discriminate].
  destruct (depth_at m 10) as [d|]; [|discriminate].
  destruct (29 <? d); [discriminate|]. destruct (_ || _); [discriminate|].
  destruct (mom_rows _ _ _ _ _ _) as [e|rows] eqn:EM; [|discriminate].
  intros H. inversion H; subst. exact (mom_rows_fuel _ _ _ _ _ _ (Nat.lt_succ_diag_r _) EM).
Qed.

(** ---------- the sky-map reader (header and row availability) never runs out of fuel ---------- *)
Lemma check_kw_nf rec kw e : check_kw rec kw = Some e -> e <> FFuel.
Proof. unfold check_kw. destruct (starts_with kw rec); intros H; inversion H. discriminate. Qed.
Lemma check_ind_nf rec e : check_ind rec = Some e -> e <> FFuel.
Proof. unfold check_ind. destruct (list_eqb _ _); intros H; inversion H. discriminate. Qed.

Ltac kw_step :=
  match goal with |- context [check_kw ?a ?b] =>
    let E := fresh "E" in let e := fresh "e" in
    destruct (check_kw a b) as [e|] eqn:E;
    [let H := fresh in intros H; injection H as H; exact (check_kw_nf _ _ _ E H)|]
  end.
Ltac ind_step :=
  match goal with |- context [check_ind ?a] =>
    let E := fresh "E" in let e := fresh "e" in
    destruct (check_ind a) as [e|] eqn:E;
    [let H := fresh in intros H; injection H as H; exact (check_ind_nf _ _ E H)|]
  end.

Theorem sky_read_total b : sky_read b <> SkyErr FFuel.
Proof.
  unfold sky_read, consume_primary.
  destruct (read_block_cases b) as [[Hb0 Eb0]|[Hb0 Eb0]]; rewrite Eb0; [discriminate|].
  clear Hb0 Eb0. generalize (skipn 2880 b) (chunks 36 (firstn 2880 b)). intros rest0 cs0.
  kv_step. kv_step.
  assert (P : forall x, (if contains_end (skipn 3 cs0) then Datatypes.inr rest0 else skip_to_end (S (List.length rest0)) rest0) = Datatypes.inl x -> x <> FFuel).
  { intros x. destruct (contains_end _); [discriminate|]. intros H Z. subst x. exact (skip_to_end_fuel _ _ (Nat.lt_succ_diag_r _) H). }
  destruct (if contains_end (skipn 3 cs0) then Datatypes.inr rest0 else skip_to_end (S (List.length rest0)) rest0) as [x|b1] eqn:EP.
  { intros H. injection H as H. subst x. exact (P FFuel eq_refl eq_refl). }
  clear P EP.
  destruct (read_block_cases b1) as [[Hb1 Eb1]|[Hb1 Eb1]]; rewrite Eb1; [discriminate|].
  clear Hb1 Eb1. generalize (skipn 2880 b1) (chunks 36 (firstn 2880 b1)). intros rest1 cs1.
  kv_step. kv_step. kv_step.
  destruct (check_kw_uint 64 _ (s2l "NAXIS1  ")) as [e|nbytes] eqn:EU1.
  { intros H. injection H as H. exact (check_kw_uint_nf _ _ _ _ EU1 H). }
  destruct (check_kw_uint 64 _ (s2l "NAXIS2 ")) as [e|nrows] eqn:EU2.
  { intros H. injection H as H. exact (check_kw_uint_nf _ _ _ _ EU2 H). }
  kv_step. kv_step.
  destruct (check_kw_uint 64 _ (s2l "TFIELDS ")) as [e|nf] eqn:EU3.
  { intros H. injection H as H. exact (check_kw_uint_nf _ _ _ _ EU3 H). }
  kw_step. ind_step. destruct (str_val _); [|discriminate].
  kw_step. ind_step. destruct (str_val _) as [tf|]; [|discriminate].
  cbv zeta.
  destruct (if _ || _ then Some (true, 1) else _) as [[is64 np]|]; [|discriminate].
  destruct (kw_blocks _ _ _ _) as [e|[m data]] eqn:EK.
  { intros H. inversion H; subst. exact (kw_blocks_fuel _ _ _ _ (Nat.lt_succ_diag_r _) _ EK eq_refl). }
  destruct (kw_get m 11); [|discriminate].
  destruct (kw_get m 15) as [[ix| |dx|nx]|]; try discriminate.
  destruct ix as [|px]; [|discriminate].
  destruct (depth_at m 10) as [d|].
  - destruct (29 <? d); [discriminate|]. destruct (negb _); [discriminate|]. destruct (_ || _); [discriminate|].
    destruct (kw_get m 2) as [[o| |d'|n']|]; try discriminate.
    destruct (_ || _); [|discriminate]. destruct (_ <? _); discriminate.
  - destruct (kw_get m 14) as [[o| |d'|ns]|]; try discriminate.
    destruct (_ && _); [|discriminate]. destruct (log2_pow2 40 ns) as [d|]; [|discriminate].
    destruct (29 <? d); [discriminate|]. destruct (negb _); [discriminate|]. destruct (_ || _); [discriminate|].
    destruct (kw_get m 2) as [[o| |d'|n']|]; try discriminate.
    destruct (_ || _); [|discriminate]. destruct (_ <? _); discriminate.
Qed.
