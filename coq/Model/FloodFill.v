(** Model/FloodFill.v — (F) RangeMOC::split_into_joint_mocs_gen (src/moc/range/mod.rs) as written:
    the cells of the MOC as zuniq values shifted left by one (the lowest bit is the visited flag),
    in the order of cells(); while the vector is not empty: flag the first element, push it on the
    stack; pop a zuniq, decode it (depth, idx), ask the external edge of that cell at the MOC depth and
    for every edge cell binary-search  to_zuniq(depth_max, neig) << 1 : Ok(i) -> flag and push element i;
    Err(i) -> element i-1, then element i, if not ff_flagged and containing the edge cell
    (tidx == neig >> 2 (depth_max - tdepth)) is ff_flagged and pushed; when something was pushed the stack is
    sorted (pop takes the largest); when the stack is empty the ff_flagged elements (in vector order) are a
    component and are removed from the vector.
    [ext] (the external edge of a cell at the MOC depth, edges only or edges and corners) is a parameter.
    Theorem split_partition (FloodFillProofs.v): whatever [ext] answers, the loops end within their
    fuel and the components are non-empty lists of cells whose concatenation is a permutation of the
    input cells, each in vector order. *)
From Coq Require Import List NArith Arith Lia Bool.
Import ListNotations.
Open Scope N_scope.

Section Flood.
  Variable maxd : N.                    (* MAX_DEPTH of the index type: 6, 13, 29 *)
  Variable dmax : N.                    (* depth of the MOC *)
  Variable ext : N -> N -> list N.      (* depth, idx -> cells of depth dmax of the external edge *)

  Definition ff_zuniq (d i : N) : N := (2 * i + 1) * 4 ^ (maxd - d).

  Fixpoint tzeros (fuel : nat) (z : N) : N :=
    match fuel with
    | O => 0
    | S f => if z mod 2 =? 1 then 0 else 1 + tzeros f (z / 2)
    end.
  Definition ff_from_zuniq (z : N) : N * N :=
    let t := tzeros 130 z in (maxd - t / 2, z / 2 ^ (t + 1)).

  Definition ff_flagged (x : N) : bool := x mod 2 =? 1.

  Fixpoint set_flag (i : nat) (l : list N) : list N :=
    match l, i with
    | [], _ => []
    | x :: t, O => (x + 1) :: t
    | x :: t, S j => x :: set_flag j t
    end.

  (** slice::binary_search on a sorted vector without duplicates: the index of the key, or the number of
      elements below it *)
  Definition ff_count_lt (key : N) (l : list N) : nat := length (filter (fun x => x <? key) l).

  Definition ff_try_mark (neig : N) (i : nat) (st : list N * list N) : list N * list N :=
    match nth_error (fst st) i with
    | Some zf =>
        if ff_flagged zf then st
        else let c := ff_from_zuniq (zf / 2) in
             if snd c =? neig / 4 ^ (dmax - fst c) then (set_flag i (fst st), snd st ++ [zf / 2]) else st
    | None => st
    end.

  Definition ff_visit (st : list N * list N) (neig : N) : list N * list N :=
    let key := 2 * ff_zuniq dmax neig in
    let i := ff_count_lt key (fst st) in
    match nth_error (fst st) i with
    | Some x =>
        if x =? key then (set_flag i (fst st), snd st ++ [x / 2])
        else let st1 := match i with O => st | S j => ff_try_mark neig j st end in
             ff_try_mark neig i st1
    | None => match i with O => st | S j => ff_try_mark neig j st end
    end.

  Fixpoint ff_insert (x : N) (l : list N) : list N :=
    match l with [] => [x] | y :: t => if x <=? y then x :: l else y :: ff_insert x t end.
  Definition ff_sort (l : list N) : list N := fold_right ff_insert [] l.

  Fixpoint ff_inner (fuel : nat) (elems stack : list N) : option (list N) :=
    match fuel with
    | O => None
    | S f =>
      match stack with
      | [] => Some elems
      | _ =>
        let z := last stack 0 in
        let stack' := removelast stack in
        let c := ff_from_zuniq z in
        let st := fold_left ff_visit (ext (fst c) (snd c)) (elems, stack') in
        let stack'' := if (length stack' <? length (snd st))%nat then ff_sort (snd st) else snd st in
        ff_inner f (fst st) stack''
      end
    end.

  Fixpoint ff_outer (fuel : nat) (elems : list N) (l_acc : list (list (N * N))) : option (list (list (N * N))) :=
    match fuel with
    | O => None
    | S f =>
      match elems with
      | [] => Some l_acc
      | x :: t =>
        match ff_inner (S (length elems)) ((x + 1) :: t) [x / 2] with
        | None => None
        | Some e2 =>
            let comp := map (fun y => ff_from_zuniq (y / 2)) (filter ff_flagged e2) in
            ff_outer f (filter (fun y => negb (ff_flagged y)) e2) (l_acc ++ [comp])
        end
      end
    end.

  Definition ff_split (cells : list (N * N)) : option (list (list (N * N))) :=
    let elems := map (fun c => 2 * ff_zuniq (fst c) (snd c)) cells in
    ff_outer (S (length elems)) elems [].
End Flood.

(** the external edge of cell (d, i) at depth dmax from a depth-dmax neighbour function: the neighbours
    of its sub-cells that are not sub-cells (as a set: the order in which the implementation lists them
    does not influence the components) *)
Fixpoint nseqN (a : N) (n : nat) : list N := match n with O => [] | S k => a :: nseqN (a + 1) k end.
Definition ext_of (nb : N -> list N) (dmax d i : N) : list N :=
  let k := 4 ^ (dmax - d) in
  let subs := nseqN (i * k) (N.to_nat k) in
  filter (fun n => negb ((i * k <=? n) && (n <? (i + 1) * k))) (flat_map nb subs).

(** ---------- hole filling (RangeMOC::fill_holes / fill_holes_smaller_than) ----------
    the complement of the MOC is split (edge-or-vertex external edges); fill_holes(n) sorts the components by
    decreasing coverage (stable sort) and adds all of them but the 1 + n largest; fill_holes_smaller_than(f)
    adds the components whose coverage is <= f.  The coverage of a component is its number of cells of depth
    dmax over 12 x 4^dmax: compared here as integers (the implementation compares the f64 quotients, which
    order in the same way as long as the cell counts are below 2^53). *)
Definition comp_area (dmax : N) (comp : list (N * N)) : N :=
  fold_left (fun acc c => acc + 4 ^ (dmax - fst c)) comp 0.

Fixpoint insert_desc (dmax : N) (x : list (N * N)) (l : list (list (N * N))) : list (list (N * N)) :=
  match l with
  | [] => [x]
  | y :: t => if comp_area dmax y <=? comp_area dmax x then x :: l else y :: insert_desc dmax x t
  end.
Definition sort_desc (dmax : N) (l : list (list (N * N))) : list (list (N * N)) := fold_right (insert_desc dmax) [] l.

Definition ff_fill (maxd dmax : N) (ext : N -> N -> list N) (cmp_cells : list (N * N)) (except : nat) : option (list (list (N * N))) :=
  match ff_split maxd dmax ext cmp_cells with
  | Some comps => Some (skipn (S except) (sort_desc dmax comps))
  | None => None
  end.

(** coverage <= num / den *)
Definition ff_fill_smaller (maxd dmax : N) (ext : N -> N -> list N) (cmp_cells : list (N * N)) (num den : N) : option (list (list (N * N))) :=
  match ff_split maxd dmax ext cmp_cells with
  | Some comps => Some (filter (fun c => comp_area dmax c * den <=? num * (12 * 4 ^ dmax)) comps)
  | None => None
  end.
