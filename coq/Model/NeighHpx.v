(** Model/NeighHpx.v — validity of the expansion of Model/Neigh.v and the derived
    characterisations of contraction and borders (C17). *)
From Coq Require Import List NArith Lia Bool.
From MOC.Base Require Import RangeSet.
From MOC.Model Require Import Qty Query Build Ops1D Neigh.
Import ListNotations.
Open Scope N_scope.

Section Hpx.
Variable nb : N -> list N.
Variables w d : N.
Hypothesis Hd : d <= max_depth Hpx w.
(** neighbours stay inside the domain of depth d *)
Hypothesis nb_dom : forall c n, c < n_cells Hpx d -> In n (nb c) -> n < n_cells Hpx d.

Let sh := shift Hpx w d.
Let ncm := n_cells_max Hpx w.

Lemma ncm_cells : ncm = n_cells Hpx d * 2 ^ sh.
Proof.
  unfold ncm, sh, n_cells_max, n_cells, shift.
  replace (dim Hpx * max_depth Hpx w) with (dim Hpx * d + dim Hpx * (max_depth Hpx w - d)) by nia.
  rewrite N.pow_add_r. lia.
Qed.

Lemma cellin_lt l c : ValidMoc Hpx w d l -> cellin sh l c -> c < n_cells Hpx d.
Proof.
  intros [_ HV _] H. unfold cellin in H. apply (valid_cov_lt _ _ _ HV) in H. fold ncm in H.
  rewrite ncm_cells in H. pose proof (pow2_pos sh). nia.
Qed.

Lemma build_cells_valid cells : (forall c, In c cells -> c < n_cells Hpx d) ->
  ValidMoc Hpx w d (build_cells Hpx w d cells).
Proof.
  intros Hc. constructor; [exact Hd| |].
  - constructor; [apply canon_of_canon|]. apply allb_bounded. unfold build_cells. apply canon_of_allb.
    unfold AllB. rewrite Forall_forall. intros r Hr. apply in_map_iff in Hr. destruct Hr as [c [<- Hin]].
    specialize (Hc c Hin). unfold cell_range. cbn [fst snd]. fold sh ncm. rewrite ncm_cells.
    pose proof (pow2_pos sh). split; nia.
  - unfold build_cells. apply canon_of_allb. unfold AllB. rewrite Forall_forall. intros r Hr.
    apply in_map_iff in Hr. destruct Hr as [c [<- _]]. unfold cell_range, mult2k. cbn [fst snd]. fold sh.
    split; apply N.mod_mul; apply N.pow_nonzero; lia.
Qed.

Theorem expanded_valid l : ValidMoc Hpx w d l -> ValidMoc Hpx w d (expanded_spec nb w d l).
Proof.
  intros HV. unfold expanded_spec. apply build_cells_valid. intros c Hc.
  destruct HV as [X1 X2 HA]. assert (HV : ValidMoc Hpx w d l) by (constructor; assumption).
  apply in_expand_cells in Hc. destruct Hc as [Hc|[c' [H1 H2]]].
  - apply (cellin_lt l c HV). apply in_cells_of; assumption.
  - apply (nb_dom c' c); [|exact H2]. apply (cellin_lt l c' HV). apply in_cells_of; assumption.
Qed.

Lemma compl_validmoc l : ValidMoc Hpx w d l -> ValidMoc Hpx w d (compl ncm l).
Proof. intros HV. exact (proj1 (proj2 (moc_not_correct Hpx w d l HV))). Qed.

(** the contracted MOC is the complement of the expansion of the complement *)
Theorem contracted_exact l x : ValidMoc Hpx w d l ->
  (cov (contracted_spec nb w d l) x <-> x < ncm /\ ~ cov (expanded_spec nb w d (compl ncm l)) x).
Proof.
  intros HV. unfold contracted_spec. fold ncm.
  destruct (expanded_valid _ (compl_validmoc l HV)) as [_ [E1 E2] _]. apply compl_cov; assumption.
Qed.

Theorem contracted_valid l : ValidMoc Hpx w d l -> ValidMoc Hpx w d (contracted_spec nb w d l).
Proof. intros HV. unfold contracted_spec. fold ncm. apply compl_validmoc. apply expanded_valid. apply compl_validmoc. exact HV. Qed.

(** a cell of M stays in the contracted MOC iff none of its neighbours-by-expansion is outside M *)
Theorem contracted_cells l x : ValidMoc Hpx w d l ->
  (cov (contracted_spec nb w d l) x <->
   cov l x /\ ~ exists c', c' < n_cells Hpx d /\ ~ cellin sh l c' /\ In (x / 2 ^ sh) (nb c')).
Proof.
  intros HV. rewrite (contracted_exact l x HV).
  rewrite (expanded_exact nb w d _ x (compl_validmoc l HV)). cbv zeta. fold sh.
  assert (CI : forall c, cellin sh (compl ncm l) c <-> c < n_cells Hpx d /\ ~ cellin sh l c).
  { intros c. unfold cellin. destruct HV as [_ [V1 V2] _]. rewrite (compl_cov ncm l _ V1 V2). rewrite ncm_cells.
    rewrite <- (N.mul_lt_mono_pos_r (2 ^ sh)) by apply pow2_pos. reflexivity. }
  assert (SC : forall y, cov l y <-> cellin sh l (y / 2 ^ sh)).
  { intros y. unfold cellin. destruct HV as [_ _ HA]. pose proof (pow2_pos sh) as HP.
    unfold cov. unfold Aligned, AllB in HA. rewrite Forall_forall in HA.
    destruct (divmod_facts (2 ^ sh) y HP) as [D1 D2].
    assert (KEY : forall a b, mult2k sh a -> mult2k sh b ->
              (a <= y /\ y < b <-> a <= y / 2 ^ sh * 2 ^ sh /\ y / 2 ^ sh * 2 ^ sh < b)).
    { intros a b Ma Mb. unfold mult2k in Ma, Mb.
      pose proof (N.div_mod a (2 ^ sh) ltac:(lia)) as Ea. pose proof (N.div_mod b (2 ^ sh) ltac:(lia)) as Eb.
      rewrite Ma, N.add_0_r in Ea. rewrite Mb, N.add_0_r in Eb.
      set (a' := a / 2 ^ sh) in *. set (b' := b / 2 ^ sh) in *. set (P := 2 ^ sh) in *. set (c := y / P) in *.
      split; intros [H1 H2].
      - assert (a' <= c) by (apply N.div_le_lower_bound; lia).
        assert (c < b') by (apply N.div_lt_upper_bound; lia). split; nia.
      - assert (c < b') by nia. split; nia. }
    split; intros [r [Hin Hr]]; exists r; (split; [exact Hin|]); destruct (HA _ Hin) as [A1 A2];
      unfold inr in *; apply (KEY _ _ A1 A2); exact Hr. }
  rewrite CI. split.
  - intros [Hx Hn]. split.
    + apply (proj2 (SC x)). destruct (covb l (x / 2 ^ sh * 2 ^ sh)) eqn:E; [apply covb_spec in E; exact E|exfalso].
      apply Hn. left. split.
      * rewrite ncm_cells in Hx. apply N.div_lt_upper_bound; [pose proof (pow2_pos sh); lia|lia].
      * unfold cellin. rewrite <- covb_spec. congruence.
    + intros [c' [H1 [H2 H3]]]. apply Hn. right. exists c'. split; [apply CI; tauto|exact H3].
  - intros [Hx Hn]. split; [destruct HV as [_ HVV _]; apply (valid_cov_lt _ _ _ HVV Hx)|].
    intros [[_ H]|[c' [H1 H2]]]; [apply H; apply (proj1 (SC x)); exact Hx|].
    apply Hn. exists c'. apply CI in H1. tauto.
Qed.

(** borders *)
Theorem ext_border_exact l x : ValidMoc Hpx w d l ->
  (cov (ext_border_spec nb w d l) x <-> cov (expanded_spec nb w d l) x /\ ~ cov l x).
Proof.
  intros HV. unfold ext_border_spec. fold ncm.
  destruct (expanded_valid l HV) as [_ E _]. destruct HV as [_ V _]. apply minus_cov; assumption.
Qed.

Theorem int_border_exact l x : ValidMoc Hpx w d l ->
  (cov (int_border_spec nb w d l) x <-> cov l x /\ ~ cov (contracted_spec nb w d l) x).
Proof.
  intros HV. unfold int_border_spec. fold ncm.
  destruct (contracted_valid l HV) as [_ E _]. destruct HV as [_ V _]. apply minus_cov; assumption.
Qed.

End Hpx.
