(** Model/STBuilder.v — (F) the streaming ST-MOC builder fed with (time cell, space cell) pairs
    (src/moc2d/builder/maxdepths_cell.rs FixedDepthSTMocBuilder::buff_to_moc), on a buffer sorted by
    time cell (duplicates allowed), as written:
      the pairs of one time cell feed a space builder; when the time cell changes, the space MOC just
      built is compared with the previous one (prev_moc_2): equal -> the previous time cell joins the
      current time builder; different -> the element (time builder, prev_moc_2) is emitted and a new
      time builder starts with the previous time cell; the first change only records prev_moc_2 (the
      first time cell is already in the time builder); the end of the buffer repeats the same decision
      and emits the last element(s).
    The two FixedDepthMocBuilders are taken through their specification (C06): a canonical list
    covering exactly the pushed cells ([mk1], [mk2] with hypotheses met by Build.build_cells).
    Theorem: the elements cover (t, x) exactly when some pair (c1, c2) of the buffer has t in time
    cell c1 and x in space cell c2; no element has an empty time or space MOC. *)
From Coq Require Import List NArith Arith Lia Bool.
From MOC.Base Require Import RangeSet.
From MOC.Model Require Import Qty Query Build Repr ST.
Import ListNotations.
Open Scope N_scope.

Section Builder.
Variables in1 in2 : N -> N -> Prop.                 (* in1 c t : instant t lies in time cell c *)
Variables mk1 mk2 : list N -> list range.           (* MOC built from a list of cells *)
Hypothesis mk1_cov : forall cells t, cov (mk1 cells) t <-> exists c, In c cells /\ in1 c t.
Hypothesis mk2_cov : forall cells x, cov (mk2 cells) x <-> exists c, In c cells /\ in2 c x.
Hypothesis mk1_ne : forall cells, cells <> [] -> mk1 cells <> [].
Hypothesis mk2_ne : forall cells, cells <> [] -> mk2 cells <> [].

Record bst := { from1 : N; b1 : list N; b2 : list N; prev2 : option (list range); outp : stmoc }.

Definition bstep (s : bst) (p : N * N) : bst :=
  let (c1, c2) := p in
  if from1 s =? c1 then {| from1 := from1 s; b1 := b1 s; b2 := b2 s ++ [c2]; prev2 := prev2 s; outp := outp s |}
  else (* from1 s < c1 (sorted buffer) *)
    let moc2 := mk2 (b2 s) in
    match prev2 s with
    | Some p2 =>
        if negb (ranges_eqb moc2 p2)
        then {| from1 := c1; b1 := [from1 s]; b2 := [c2]; prev2 := Some moc2; outp := outp s ++ [(mk1 (b1 s), p2)] |}
        else {| from1 := c1; b1 := b1 s ++ [from1 s]; b2 := [c2]; prev2 := Some p2; outp := outp s |}
    | None => {| from1 := c1; b1 := b1 s; b2 := [c2]; prev2 := Some moc2; outp := outp s |}
    end.

Definition bfinish (s : bst) : stmoc :=
  let moc2 := mk2 (b2 s) in
  match prev2 s with
  | Some p2 =>
      if negb (ranges_eqb moc2 p2) then outp s ++ [(mk1 (b1 s), p2); (mk1 [from1 s], moc2)]
      else outp s ++ [(mk1 (b1 s ++ [from1 s]), moc2)]
  | None => outp s ++ [(mk1 (b1 s), moc2)]
  end.

Definition buff_to_moc (buff : list (N * N)) : stmoc :=
  match buff with
  | [] => []
  | (c1, c2) :: t => bfinish (fold_left bstep t {| from1 := c1; b1 := [c1]; b2 := [c2]; prev2 := None; outp := [] |})
  end.

(** ---------- invariant ---------- *)
Definition pairs (P : list (N * N)) (t x : N) : Prop := exists p, In p P /\ in1 (fst p) t /\ in2 (snd p) x.
Definition pairs_lt (P : list (N * N)) (f : N) (t x : N) : Prop := exists p, In p P /\ fst p < f /\ in1 (fst p) t /\ in2 (snd p) x.

Record BInv (P : list (N * N)) (s : bst) : Prop :=
  { bi_le : forall p, In p P -> fst p <= from1 s;
    bi_b2 : forall c2, In c2 (b2 s) <-> In (from1 s, c2) P;
    bi_b2ne : b2 s <> [];
    bi_b1ne : b1 s <> [];
    bi_none : prev2 s = None -> outp s = [] /\ b1 s = [from1 s] /\ forall p, In p P -> fst p = from1 s;
    bi_some : forall p2, prev2 s = Some p2 ->
                p2 <> [] /\ (forall t x, cov2 (outp s) t x \/ ((exists c, In c (b1 s) /\ in1 c t) /\ cov p2 x) <-> pairs_lt P (from1 s) t x);
    bi_out : forall e, In e (outp s) -> fst e <> [] /\ snd e <> [] }.

Lemma cov2_app1 X e t x : cov2 (X ++ [e]) t x <-> cov2 X t x \/ (cov (fst e) t /\ cov (snd e) x).
Proof.
  rewrite cov2_app. unfold cov2 at 2. split.
  - intros [K|[e' [[<-|[]] K]]]; [left; exact K|right; exact K].
  - intros [K|K]; [left; exact K|right; exists e; split; [left; reflexivity|exact K]].
Qed.

Lemma bstep_inv P s p : BInv P s -> from1 s <= fst p -> BInv (P ++ [p]) (bstep s p).
Proof.
  intros [Le B2 B2ne B1ne Non Som Out] Hp. destruct p as [c1 c2]. cbn [fst] in Hp. unfold bstep.
  destruct (N.eqb_spec (from1 s) c1) as [E|E].
  - (* same time cell *)
    subst c1. constructor; cbn [from1 b1 b2 prev2 outp]; try assumption.
    + intros q Hq. apply in_app_or in Hq. destruct Hq as [Hq|[<-|[]]]; [exact (Le q Hq)|cbn; lia].
    + intros c. rewrite !in_app_iff, B2. cbn [In]. split; [intros [K|[<-|[]]]; [left; exact K|right; left; reflexivity]|intros [K|[K|[]]]; [left; exact K|inversion K; right; left; reflexivity]].
    + intros K. apply app_eq_nil in K. destruct K as [_ K]. discriminate.
    + intros Hn. destruct (Non Hn) as (A & B & C). split; [exact A|]. split; [exact B|].
      intros q Hq. apply in_app_or in Hq. destruct Hq as [Hq|[<-|[]]]; [exact (C q Hq)|reflexivity].
    + intros p2 Hp2. destruct (Som p2 Hp2) as [N2 C]. split; [exact N2|]. intros t x. rewrite C. unfold pairs_lt. split.
      * intros [q [Hq K]]. exists q. split; [apply in_or_app; left; exact Hq|exact K].
      * intros [q [Hq K]]. apply in_app_or in Hq. destruct Hq as [Hq|[<-|[]]]; [exists q; split; assumption|cbn [fst] in K; lia].
  - (* the time cell changes *)
    assert (Hlt : from1 s < c1) by lia.
    (* the pairs of the group just closed *)
    assert (G : forall t x, ((exists c, In c [from1 s] /\ in1 c t) /\ cov (mk2 (b2 s)) x) <->
                             (exists q, In q P /\ fst q = from1 s /\ in1 (fst q) t /\ in2 (snd q) x)).
    { intros t x. rewrite mk2_cov. split.
      - intros [[c [[<-|[]] K1]] [c' [Hc' K2]]]. exists (from1 s, c'). split; [apply B2; exact Hc'|]. cbn [fst snd]. auto.
      - intros [[q1 q2] [Hq [Eq [K1 K2]]]]. cbn [fst snd] in *. subst q1. split; [exists (from1 s); split; [left; reflexivity|exact K1]|].
        exists q2. split; [apply B2; exact Hq|exact K2]. }
    assert (SplitLt : forall t x, pairs_lt (P ++ [(c1, c2)]) c1 t x <->
              pairs_lt P (from1 s) t x \/ (exists q, In q P /\ fst q = from1 s /\ in1 (fst q) t /\ in2 (snd q) x)).
    { intros t x. unfold pairs_lt. split.
      - intros [q [Hq (A & K)]]. apply in_app_or in Hq. destruct Hq as [Hq|[<-|[]]]; [|cbn [fst] in A; lia].
        pose proof (Le q Hq) as L. destruct (N.eq_dec (fst q) (from1 s)) as [Eq|Nq]; [right; exists q; tauto|left; exists q; split; [exact Hq|split; [lia|exact K]]].
      - intros [[q [Hq (A & K)]]|[q [Hq (A & K)]]]; exists q; (split; [apply in_or_app; left; exact Hq|split; [lia|exact K]]). }
    assert (NewB2 : forall c, In c [c2] <-> In (c1, c) (P ++ [(c1, c2)])).
    { intros c. rewrite in_app_iff. cbn [In]. split; [intros [<-|[]]; right; left; reflexivity|].
      intros [K|[K|[]]]; [specialize (Le _ K); cbn [fst] in Le; lia|inversion K; left; reflexivity]. }
    assert (NewLe : forall q, In q (P ++ [(c1, c2)]) -> fst q <= c1).
    { intros q Hq. apply in_app_or in Hq. destruct Hq as [Hq|[<-|[]]]; [specialize (Le q Hq); lia|cbn; lia]. }
    destruct (prev2 s) as [p2|] eqn:Pv.
    + destruct (Som p2 eq_refl) as [N2 C].
      destruct (negb (ranges_eqb (mk2 (b2 s)) p2)) eqn:Q.
      * (* a different coverage: emit *)
        constructor; cbn [from1 b1 b2 prev2 outp].
        -- exact NewLe.
        -- exact NewB2.
        -- discriminate.
        -- discriminate.
        -- intros K; discriminate.
        -- intros p3 Hp3. inversion Hp3; subst p3. split; [apply mk2_ne; exact B2ne|].
           intros t x. rewrite SplitLt, <- C, <- G, cov2_app1. cbn [fst snd]. rewrite mk1_cov. tauto.
        -- intros e He. apply in_app_or in He. destruct He as [He|[<-|[]]]; [exact (Out e He)|]. cbn [fst snd]. split; [apply mk1_ne; exact B1ne|exact N2].
      * (* the same coverage: the closed time cell joins the time builder *)
        apply negb_false_iff, ranges_eqb_spec in Q.
        constructor; cbn [from1 b1 b2 prev2 outp].
        -- exact NewLe.
        -- exact NewB2.
        -- discriminate.
        -- intros K. apply app_eq_nil in K. destruct K as [_ K]. discriminate.
        -- intros K; discriminate.
        -- intros p3 Hp3. inversion Hp3; subst p3. split; [exact N2|].
           intros t x. rewrite SplitLt, <- C, <- G, Q. split.
           ++ intros [K|[[c [Hc K1]] K2]]; [left; left; exact K|]. apply in_app_or in Hc. destruct Hc as [Hc|Hc]; [left; right; split; [exists c; split; assumption|exact K2]|right; split; [exists c; split; assumption|exact K2]].
           ++ intros [[K|[[c [Hc K1]] K2]]|[[c [Hc K1]] K2]]; [left; exact K|right; split; [exists c; split; [apply in_or_app; left; exact Hc|exact K1]|exact K2]|right; split; [exists c; split; [apply in_or_app; right; exact Hc|exact K1]|exact K2]].
        -- exact Out.
    + (* first change of time cell *)
      destruct (Non eq_refl) as (O1 & O2 & O3).
      constructor; cbn [from1 b1 b2 prev2 outp].
      -- exact NewLe.
      -- exact NewB2.
      -- discriminate.
      -- exact B1ne.
      -- intros K; discriminate.
      -- intros p3 Hp3. inversion Hp3; subst p3. split; [apply mk2_ne; exact B2ne|].
         intros t x. rewrite SplitLt, <- G, O1, O2. split.
         ++ intros [[e [[] _]]|K]. exact (or_intror K).
         ++ intros [[q [Hq (A & _)]]|K]; [specialize (O3 q Hq); lia|right; exact K].
      -- rewrite O1. intros e [].
Qed.

Fixpoint tsorted (lo : N) (l : list (N * N)) : Prop :=
  match l with [] => True | p :: t => lo <= fst p /\ tsorted (fst p) t end.

Lemma bstep_from s p : from1 (bstep s p) = fst p.
Proof.
  destruct p as [c1 c2]. unfold bstep. destruct (N.eqb_spec (from1 s) c1) as [E|E]; [exact E|].
  destruct (prev2 s); [destruct (negb (ranges_eqb (mk2 (b2 s)) l))|]; reflexivity.
Qed.

Lemma fold_binv : forall R P s, BInv P s -> tsorted (from1 s) R -> BInv (P ++ R) (fold_left bstep R s).
Proof.
  induction R as [|p R IH]; intros P s I Hs; cbn [fold_left]; [rewrite app_nil_r; exact I|].
  cbn [tsorted] in Hs. destruct Hs as [H1 H2].
  replace (P ++ p :: R) with ((P ++ [p]) ++ R) by (rewrite <- app_assoc; reflexivity).
  apply IH; [exact (bstep_inv P s p I H1)|rewrite bstep_from; exact H2].
Qed.

Lemma bfinish_spec P s : BInv P s ->
  (forall t x, cov2 (bfinish s) t x <-> pairs P t x) /\ forall e, In e (bfinish s) -> fst e <> [] /\ snd e <> [].
Proof.
  intros [Le B2 B2ne B1ne Non Som Out]. unfold bfinish.
  assert (G : forall t x, ((exists c, In c [from1 s] /\ in1 c t) /\ cov (mk2 (b2 s)) x) <->
                           (exists q, In q P /\ fst q = from1 s /\ in1 (fst q) t /\ in2 (snd q) x)).
  { intros t x. rewrite mk2_cov. split.
    - intros [[c [[<-|[]] K1]] [c' [Hc' K2]]]. exists (from1 s, c'). split; [apply B2; exact Hc'|]. cbn [fst snd]. auto.
    - intros [[q1 q2] [Hq [Eq [K1 K2]]]]. cbn [fst snd] in *. subst q1. split; [exists (from1 s); split; [left; reflexivity|exact K1]|].
      exists q2. split; [apply B2; exact Hq|exact K2]. }
  assert (Split : forall t x, pairs P t x <-> pairs_lt P (from1 s) t x \/ (exists q, In q P /\ fst q = from1 s /\ in1 (fst q) t /\ in2 (snd q) x)).
  { intros t x. unfold pairs, pairs_lt. split.
    - intros [q [Hq K]]. pose proof (Le q Hq) as L. destruct (N.eq_dec (fst q) (from1 s)) as [Eq|Nq]; [right; exists q; tauto|left; exists q; split; [exact Hq|split; [lia|exact K]]].
    - intros [[q [Hq (A & K)]]|[q [Hq (A & K)]]]; exists q; (split; [exact Hq|exact K]). }
  destruct (prev2 s) as [p2|] eqn:Pv.
  - destruct (Som p2 eq_refl) as [N2 C]. destruct (negb (ranges_eqb (mk2 (b2 s)) p2)) eqn:Q.
    + split.
      * intros t x. rewrite Split, <- C, <- G.
        replace (outp s ++ [(mk1 (b1 s), p2); (mk1 [from1 s], mk2 (b2 s))]) with ((outp s ++ [(mk1 (b1 s), p2)]) ++ [(mk1 [from1 s], mk2 (b2 s))]) by (rewrite <- app_assoc; reflexivity).
        rewrite !cov2_app1. cbn [fst snd]. rewrite !mk1_cov. tauto.
      * intros e He. apply in_app_or in He. destruct He as [He|[<-|[<-|[]]]]; [exact (Out e He)| |]; cbn [fst snd].
        -- split; [apply mk1_ne; exact B1ne|exact N2].
        -- split; [apply mk1_ne; discriminate|apply mk2_ne; exact B2ne].
    + apply negb_false_iff, ranges_eqb_spec in Q. split.
      * intros t x. rewrite Split, <- C, <- G, cov2_app1. cbn [fst snd]. rewrite mk1_cov, Q. split.
        -- intros [K|[[c [Hc K1]] K2]]; [left; left; exact K|]. apply in_app_or in Hc. destruct Hc as [Hc|Hc]; [left; right; split; [exists c; split; assumption|exact K2]|right; split; [exists c; split; assumption|exact K2]].
        -- intros [[K|[[c [Hc K1]] K2]]|[[c [Hc K1]] K2]]; [left; exact K|right; split; [exists c; split; [apply in_or_app; left; exact Hc|exact K1]|exact K2]|right; split; [exists c; split; [apply in_or_app; right; exact Hc|exact K1]|exact K2]].
      * intros e He. apply in_app_or in He. destruct He as [He|[<-|[]]]; [exact (Out e He)|]. cbn [fst snd].
        split; [apply mk1_ne; intros K; apply app_eq_nil in K; destruct K as [_ K]; discriminate|apply mk2_ne; exact B2ne].
  - destruct (Non eq_refl) as (O1 & O2 & O3). split.
    + intros t x. rewrite Split, <- G, O1, O2. cbn [app]. unfold cov2. split.
      * intros [e [[<-|[]] [K1 K2]]]. cbn [fst snd] in *. right. split; [apply mk1_cov; exact K1|exact K2].
      * intros [[q [Hq (A & _)]]|[K1 K2]]; [specialize (O3 q Hq); lia|].
        exists (mk1 [from1 s], mk2 (b2 s)). split; [left; reflexivity|]. cbn [fst snd]. split; [apply mk1_cov; exact K1|exact K2].
    + rewrite O1. cbn [app]. intros e [<-|[]]. cbn [fst snd]. split; [apply mk1_ne; exact B1ne|apply mk2_ne; exact B2ne].
Qed.

Theorem buff_to_moc_spec buff : tsorted 0 buff ->
  (forall t x, cov2 (buff_to_moc buff) t x <-> pairs buff t x) /\ forall e, In e (buff_to_moc buff) -> fst e <> [] /\ snd e <> [].
Proof.
  destruct buff as [|[c1 c2] R]; intros Hs; cbn [buff_to_moc].
  - split; [|intros e []]. intros t x. split; [intros [e [[] _]]|intros [p [[] _]]].
  - cbn [tsorted fst] in Hs. destruct Hs as [_ Hs].
    assert (I0 : BInv [(c1, c2)] {| from1 := c1; b1 := [c1]; b2 := [c2]; prev2 := None; outp := [] |}).
    { constructor; cbn [from1 b1 b2 prev2 outp].
      - intros p [<-|[]]. cbn. lia.
      - intros c. cbn [In]. split; [intros [<-|[]]; left; reflexivity|intros [K|[]]; inversion K; left; reflexivity].
      - discriminate.
      - discriminate.
      - intros _. split; [reflexivity|]. split; [reflexivity|]. intros p [<-|[]]. reflexivity.
      - intros p2 K. discriminate.
      - intros e []. }
    pose proof (fold_binv R [(c1, c2)] _ I0 Hs) as IF. cbn [app] in IF. exact (bfinish_spec _ _ IF).
Qed.
End Builder.

(** ---------- instantiated with the fixed-depth cell builders and an insertion sort on the time cell ---------- *)
Definition in_cell (q : qty) (d c x : N) : Prop := x / 2 ^ shift q 64 d = c.

Lemma build_cells_ne q d cells : cells <> [] -> build_cells q 64 d cells <> [].
Proof.
  destruct cells as [|c t]; [congruence|]. intros _ E.
  assert (H : cov (build_cells q 64 d (c :: t)) (c * 2 ^ shift q 64 d)).
  { apply build_cells_covers. exists c. split; [left; reflexivity|]. apply N.div_mul. apply N.pow_nonzero. lia. }
  rewrite E in H. destruct (cov_nil _ H).
Qed.

Fixpoint insp (p : N * N) (l : list (N * N)) : list (N * N) :=
  match l with [] => [p] | a :: t => if fst p <=? fst a then p :: a :: t else a :: insp p t end.
Definition sortp (l : list (N * N)) : list (N * N) := fold_right insp [] l.

Lemma insp_in p l q : In q (insp p l) <-> q = p \/ In q l.
Proof. induction l as [|a t IH]; cbn [insp In]; [intuition|]. destruct (fst p <=? fst a); cbn [In]; [intuition|]. rewrite IH. intuition. Qed.
Lemma sortp_in l q : In q (sortp l) <-> In q l.
Proof. induction l as [|a t IH]; cbn [sortp fold_right In]; [reflexivity|]. fold (sortp t). rewrite insp_in, IH. intuition. Qed.
Lemma insp_sorted p : forall l lo, tsorted lo l -> lo <= fst p -> tsorted lo (insp p l).
Proof.
  induction l as [|a t IH]; intros lo H Hp; cbn [insp tsorted]; [split; [exact Hp|exact I]|].
  cbn [tsorted] in H. destruct H as [H1 H2]. destruct (N.leb_spec (fst p) (fst a)) as [L|L]; cbn [tsorted].
  - split; [exact Hp|]. split; [exact L|exact H2].
  - split; [exact H1|]. apply IH; [exact H2|lia].
Qed.
Lemma sortp_sorted l : tsorted 0 (sortp l).
Proof. induction l as [|a t IH]; cbn [sortp fold_right]; [exact I|]. apply insp_sorted; [exact IH|lia]. Qed.

Definition st_build (dt ds : N) (buff : list (N * N)) : stmoc :=
  buff_to_moc (build_cells Time 64 dt) (build_cells Hpx 64 ds) (sortp buff).

Theorem st_build_spec dt ds buff :
  (forall t x, cov2 (st_build dt ds buff) t x <-> exists p, In p buff /\ in_cell Time dt (fst p) t /\ in_cell Hpx ds (snd p) x) /\
  forall e, In e (st_build dt ds buff) -> fst e <> [] /\ snd e <> [].
Proof.
  destruct (buff_to_moc_spec (in_cell Time dt) (in_cell Hpx ds) (build_cells Time 64 dt) (build_cells Hpx 64 ds)
              (fun cells t => build_cells_covers Time 64 dt cells t) (fun cells x => build_cells_covers Hpx 64 ds cells x)
              (build_cells_ne Time dt) (build_cells_ne Hpx ds) (sortp buff) (sortp_sorted buff)) as [C E].
  split; [|exact E]. intros t x. unfold st_build. rewrite C. unfold pairs. split; intros [p [Hp K]]; exists p; (split; [apply sortp_in; exact Hp|exact K]).
Qed.

Example st_build_example :
  (* time depth 61 (cells = instants), space depth 0 *)
  st_build 61 0 [(5, 3); (2, 1); (3, 1); (2, 0); (7, 3); (6, 3); (3, 1)]
  = [([(2, 3)], [(0, 2 * 2 ^ 58)]); ([(3, 4)], [(2 ^ 58, 2 * 2 ^ 58)]); ([(5, 8)], [(3 * 2 ^ 58, 4 * 2 ^ 58)])].
Proof. vm_compute. reflexivity. Qed.
