(** Base/RangeSet.v — half-open range lists over N: coverage, canonical form,
    uniqueness of the canonical form, and the SPECIFICATION (S) set algebra
    (insert, complement, union, intersection, difference, symmetric difference,
    degradation).  Nothing here transliterates Rust code: these are the simplest
    executable functions having the property, proved sound and complete so that
    the extracted oracle never raises a false alarm.  *)
From Coq Require Import List NArith Lia Bool.
Import ListNotations.
Open Scope N_scope.

Definition range := (N * N)%type.

Definition inr (r : range) (x : N) : Prop := fst r <= x /\ x < snd r.
Definition inrb (r : range) (x : N) : bool := (fst r <=? x) && (x <? snd r).

Definition cov (l : list range) (x : N) : Prop := exists r, In r l /\ inr r x.
Fixpoint covb (l : list range) (x : N) : bool :=
  match l with [] => false | r :: t => inrb r x || covb t x end.

Lemma inrb_spec r x : inrb r x = true <-> inr r x.
Proof. unfold inrb, inr. rewrite andb_true_iff, N.leb_le, N.ltb_lt. tauto. Qed.

Lemma cov_nil x : ~ cov [] x.
Proof. intros [r [[] _]]. Qed.

Lemma cov_cons r l x : cov (r :: l) x <-> inr r x \/ cov l x.
Proof.
  unfold cov; split.
  - intros [r' [[->|Hin] Hr]]; [left; exact Hr | right; exists r'; auto].
  - intros [Hr | [r' [Hin Hr]]]; [exists r; simpl; auto | exists r'; simpl; auto].
Qed.

Lemma cov_app l1 l2 x : cov (l1 ++ l2) x <-> cov l1 x \/ cov l2 x.
Proof.
  induction l1 as [|r l1 IH]; simpl.
  - split; [auto | intros [H|H]; [destruct (cov_nil _ H) | exact H]].
  - rewrite !cov_cons, IH. tauto.
Qed.

Lemma covb_spec l x : covb l x = true <-> cov l x.
Proof.
  induction l as [|r l IH]; simpl.
  - split; [discriminate | intros H; destruct (cov_nil _ H)].
  - rewrite orb_true_iff, inrb_spec, IH, cov_cons. tauto.
Qed.

(** [chain lo l]: every range is non-empty, starts STRICTLY after [lo], and each
    range starts strictly after the end of the previous one (disjoint and not
    adjacent).  [sorted_from lo l]: same but the first start may equal [lo]. *)
Fixpoint chain (lo : N) (l : list range) : Prop :=
  match l with
  | [] => True
  | r :: t => lo < fst r /\ fst r < snd r /\ chain (snd r) t
  end.

Definition sorted_from (lo : N) (l : list range) : Prop :=
  match l with
  | [] => True
  | r :: t => lo <= fst r /\ fst r < snd r /\ chain (snd r) t
  end.

Definition Canon (l : list range) : Prop := sorted_from 0 l.

Definition Bounded (ub : N) (l : list range) : Prop := Forall (fun r => snd r <= ub) l.

Fixpoint chainb (lo : N) (l : list range) : bool :=
  match l with
  | [] => true
  | r :: t => (lo <? fst r) && (fst r <? snd r) && chainb (snd r) t
  end.
Definition canonb (l : list range) : bool :=
  match l with
  | [] => true
  | r :: t => (fst r <? snd r) && chainb (snd r) t
  end.
Definition boundedb (ub : N) (l : list range) : bool := forallb (fun r => snd r <=? ub) l.

Lemma chainb_spec l : forall lo, chainb lo l = true <-> chain lo l.
Proof.
  induction l as [|r l IH]; simpl; intros lo; [tauto|].
  rewrite !andb_true_iff, !N.ltb_lt, IH. tauto.
Qed.

Lemma canonb_spec l : canonb l = true <-> Canon l.
Proof.
  destruct l as [|r l]; simpl; [tauto|].
  unfold Canon; simpl. rewrite andb_true_iff, N.ltb_lt, chainb_spec. intuition lia.
Qed.

Lemma boundedb_spec ub l : boundedb ub l = true <-> Bounded ub l.
Proof.
  unfold boundedb, Bounded. rewrite forallb_forall, Forall_forall.
  split; intros H r Hr; specialize (H r Hr); [apply N.leb_le | apply N.leb_le]; exact H.
Qed.

Lemma chain_weaken l : forall lo lo', lo' <= lo -> chain lo l -> chain lo' l.
Proof. destruct l as [|r l]; simpl; intros; intuition lia. Qed.

Lemma chain_sorted lo l : chain lo l -> sorted_from lo l.
Proof. destruct l; simpl; intuition lia. Qed.

Lemma sorted_from_weaken l lo lo' : lo' <= lo -> sorted_from lo l -> sorted_from lo' l.
Proof. destruct l; simpl; intuition lia. Qed.

Lemma chain_cov_gt l : forall lo x, chain lo l -> cov l x -> lo < x.
Proof.
  induction l as [|r l IH]; intros lo x Hc Hx.
  - destruct (cov_nil _ Hx).
  - simpl in Hc. destruct Hc as (H1 & H2 & H3).
    apply cov_cons in Hx. destruct Hx as [[Ha Hb]|Hx]; [lia|].
    specialize (IH _ _ H3 Hx). lia.
Qed.

Lemma sorted_cov_ge l lo x : sorted_from lo l -> cov l x -> lo <= x.
Proof.
  destruct l as [|r l]; intros Hs Hx.
  - destruct (cov_nil _ Hx).
  - simpl in Hs. destruct Hs as (H1 & H2 & H3).
    apply cov_cons in Hx. destruct Hx as [[Ha Hb]|Hx]; [lia|].
    pose proof (chain_cov_gt _ _ _ H3 Hx). lia.
Qed.

Lemma chain_tail_canon lo l : chain lo l -> Canon l.
Proof. intros H. apply (sorted_from_weaken l lo 0); [lia|]. apply chain_sorted. exact H. Qed.

(** Uniqueness of the canonical form. *)
Lemma sorted_unique : forall l1 l2 lo1 lo2,
  sorted_from lo1 l1 -> sorted_from lo2 l2 ->
  (forall x, cov l1 x <-> cov l2 x) -> l1 = l2.
Proof.
  induction l1 as [|[a b] t IH]; intros [|[a' b'] t'] lo1 lo2 H1 H2 Heq.
  - reflexivity.
  - exfalso. simpl in H2. destruct H2 as (_ & Hab & _).
    apply (cov_nil a'). apply Heq. apply cov_cons. left. split; simpl; lia.
  - exfalso. simpl in H1. destruct H1 as (_ & Hab & _).
    apply (cov_nil a). apply Heq. apply cov_cons. left. split; simpl; lia.
  - simpl in H1, H2. destruct H1 as (Hlo1 & Hab & Hc1). destruct H2 as (Hlo2 & Hab' & Hc2).
    assert (Ha : a = a').
    { assert (C1 : cov ((a',b')::t') a) by (apply Heq, cov_cons; left; split; simpl; lia).
      assert (C2 : cov ((a,b)::t) a') by (apply Heq, cov_cons; left; split; simpl; lia).
      apply cov_cons in C1, C2.
      assert (a' <= a).
      { destruct C1 as [[? ?]|C1]; simpl in *; [lia|]. pose proof (chain_cov_gt _ _ _ Hc2 C1). lia. }
      assert (a <= a').
      { destruct C2 as [[? ?]|C2]; simpl in *; [lia|]. pose proof (chain_cov_gt _ _ _ Hc1 C2). lia. }
      lia. }
    subst a'.
    assert (Hb : b = b').
    { destruct (N.lt_trichotomy b b') as [Hlt|[Heq'|Hgt]]; [|exact Heq'|]; exfalso.
      - assert (C : cov ((a,b)::t) b) by (apply Heq, cov_cons; left; split; simpl; lia).
        apply cov_cons in C. destruct C as [[? ?]|C]; simpl in *; [lia|].
        pose proof (chain_cov_gt _ _ _ Hc1 C). lia.
      - assert (C : cov ((a,b')::t') b') by (apply Heq, cov_cons; left; split; simpl; lia).
        apply cov_cons in C. destruct C as [[? ?]|C]; simpl in *; [lia|].
        pose proof (chain_cov_gt _ _ _ Hc2 C). lia. }
    subst b'. f_equal.
    apply (IH t' b b (chain_sorted _ _ Hc1) (chain_sorted _ _ Hc2)).
    intros x; split; intros Hx.
    + pose proof (chain_cov_gt _ _ _ Hc1 Hx).
      assert (C : cov ((a,b)::t') x) by (apply Heq, cov_cons; right; exact Hx).
      apply cov_cons in C. destruct C as [[? ?]|C]; simpl in *; [lia|exact C].
    + pose proof (chain_cov_gt _ _ _ Hc2 Hx).
      assert (C : cov ((a,b)::t) x) by (apply Heq, cov_cons; right; exact Hx).
      apply cov_cons in C. destruct C as [[? ?]|C]; simpl in *; [lia|exact C].
Qed.

Theorem canon_unique l1 l2 :
  Canon l1 -> Canon l2 -> (forall x, cov l1 x <-> cov l2 x) -> l1 = l2.
Proof. intros H1 H2. exact (sorted_unique l1 l2 0 0 H1 H2). Qed.

(** * Specification algebra *)

(** Insert the (non-empty) range [s,e) in a canonical list, fusing everything it
    overlaps or touches. *)
Fixpoint add (s e : N) (l : list range) : list range :=
  match l with
  | [] => [(s, e)]
  | (a, b) :: t =>
      if e <? a then (s, e) :: l
      else if b <? s then (a, b) :: add s e t
      else add (N.min s a) (N.max e b) t
  end.

Lemma add_cov l : forall s e x, s < e ->
  (cov (add s e l) x <-> inr (s, e) x \/ cov l x).
Proof.
  induction l as [|[a b] t IH]; intros s e x Hse; simpl.
  - rewrite cov_cons. tauto.
  - destruct (e <? a) eqn:E1; [rewrite !cov_cons; tauto|].
    destruct (b <? s) eqn:E2.
    + rewrite !cov_cons, IH by exact Hse. tauto.
    + apply N.ltb_ge in E1, E2.
      rewrite IH by lia. rewrite cov_cons. unfold inr; simpl.
      split.
      * intros [[H1 H2]|H]; [|tauto].
        destruct (N.lt_ge_cases x a) as [Hxa|Hxa]; [left; lia|].
        destruct (N.lt_ge_cases x b) as [Hxb|Hxb]; [right; left; lia|left; lia].
      * intros [[H1 H2]|[[H1 H2]|H]]; [left; lia|left; lia|tauto].
Qed.

(** invariant used for canonicity of [add]: result is [chain lo] when s > lo *)
Lemma add_chain l : forall s e lo, s < e -> lo < s -> chain lo l -> chain lo (add s e l).
Proof.
  induction l as [|[a b] t IH]; intros s e lo Hse Hlo Hc; simpl.
  - simpl; intuition.
  - simpl in Hc. destruct Hc as (H1 & H2 & H3).
    destruct (e <? a) eqn:E1.
    + apply N.ltb_lt in E1. simpl. intuition.
    + destruct (b <? s) eqn:E2.
      * apply N.ltb_lt in E2. simpl. split; [exact H1|]. split; [exact H2|].
        apply IH; assumption.
      * apply N.ltb_ge in E1, E2. apply IH; [lia|lia|].
        apply (chain_weaken t b); [|exact H3]. (* need chain (max e b)?? *)
        lia.
Qed.

Lemma add_sorted l : forall s e lo, s < e -> lo <= s -> sorted_from lo l -> sorted_from lo (add s e l).
Proof.
  induction l as [|[a b] t IH]; intros s e lo Hse Hlo Hc; simpl.
  - simpl; intuition.
  - simpl in Hc. destruct Hc as (H1 & H2 & H3).
    destruct (e <? a) eqn:E1.
    + apply N.ltb_lt in E1. simpl. intuition.
    + destruct (b <? s) eqn:E2.
      * apply N.ltb_lt in E2. simpl. split; [exact H1|]. split; [exact H2|].
        apply add_chain; assumption.
      * apply N.ltb_ge in E1, E2. apply IH; [lia|lia|].
        apply (sorted_from_weaken t b); [lia|]. apply chain_sorted. exact H3.
Qed.

Lemma add_canon l s e : s < e -> Canon l -> Canon (add s e l).
Proof. intros Hse Hc. apply add_sorted; [exact Hse|lia|exact Hc]. Qed.

(** [AllB P l]: every bound of every range satisfies [P] (used for the upper
    bound and for depth alignment). *)
Definition AllB (P : N -> Prop) (l : list range) : Prop :=
  Forall (fun r => P (fst r) /\ P (snd r)) l.

Lemma add_allb (P : N -> Prop) l : forall s e, P s -> P e -> AllB P l -> AllB P (add s e l).
Proof.
  induction l as [|[a b] t IH]; intros s e Hs He Hl; simpl.
  - constructor; [simpl; auto|constructor].
  - inversion Hl as [|? ? [Ha Hb] Ht]; subst. simpl in Ha, Hb.
    destruct (e <? a); [constructor; simpl; auto|].
    destruct (b <? s).
    + constructor; [simpl; auto|]. apply IH; assumption.
    + apply IH; [| |exact Ht].
      * destruct (N.min_spec s a) as [[_ ->]|[_ ->]]; assumption.
      * destruct (N.max_spec e b) as [[_ ->]|[_ ->]]; assumption.
Qed.

Lemma allb_bounded ub l : AllB (fun x => x <= ub) l -> Bounded ub l.
Proof. unfold AllB, Bounded. rewrite !Forall_forall. intros H r Hr. apply (H r Hr). Qed.

Lemma canon_bounded_allb ub l : Canon l -> Bounded ub l -> AllB (fun x => x <= ub) l.
Proof.
  intros Hc Hb. unfold AllB, Bounded in *. rewrite Forall_forall in *. intros r Hr.
  specialize (Hb r Hr). split; [|exact Hb].
  assert (fst r < snd r); [|lia].
  clear Hb. revert Hc Hr. unfold Canon. generalize 0.
  induction l as [|r' l IH]; intros lo Hc Hr; [destruct Hr|].
  simpl in Hc. destruct Hc as (H1 & H2 & H3). destruct Hr as [->|Hr]; [exact H2|].
  apply (IH (snd r')); [apply chain_sorted; exact H3|exact Hr].
Qed.

(** Union = insert every range of [B] into [A]. *)
Definition union (A B : list range) : list range :=
  fold_left (fun acc r => add (fst r) (snd r) acc) B A.

Definition NonEmptyR (l : list range) : Prop := Forall (fun r => fst r < snd r) l.

Lemma canon_nonempty l : Canon l -> NonEmptyR l.
Proof.
  unfold Canon, NonEmptyR. generalize 0. induction l as [|r l IH]; intros lo Hc; constructor.
  - simpl in Hc; tauto.
  - simpl in Hc. destruct Hc as (_ & _ & H3). apply (IH (snd r)). apply chain_sorted. exact H3.
Qed.

Lemma union_cov B : forall A x, NonEmptyR B -> (cov (union A B) x <-> cov A x \/ cov B x).
Proof.
  unfold union. induction B as [|[s e] B IH]; intros A x HB; simpl.
  - split; [auto|intros [H|H]; [exact H|destruct (cov_nil _ H)]].
  - inversion HB as [|? ? Hse HB']; subst. simpl in Hse.
    rewrite IH by exact HB'. rewrite add_cov by exact Hse. rewrite cov_cons. tauto.
Qed.

Lemma union_canon B : forall A, NonEmptyR B -> Canon A -> Canon (union A B).
Proof.
  unfold union. induction B as [|[s e] B IH]; intros A HB HA; simpl; [exact HA|].
  inversion HB as [|? ? Hse HB']; subst. simpl in Hse.
  apply IH; [exact HB'|]. apply add_canon; assumption.
Qed.

Lemma union_allb (P : N -> Prop) B : forall A, AllB P A -> AllB P B -> AllB P (union A B).
Proof.
  unfold union. induction B as [|[s e] B IH]; intros A HA HB; simpl; [exact HA|].
  inversion HB as [|? ? [Hs He] HB']; subst. simpl in Hs, He.
  apply IH; [|exact HB']. apply add_allb; assumption.
Qed.

(** Canonicalisation of an arbitrary list of ranges (empty ranges dropped). *)
Definition canon_of (l : list range) : list range :=
  union [] (filter (fun r => fst r <? snd r) l).

Lemma filter_nonempty l : NonEmptyR (filter (fun r => fst r <? snd r) l).
Proof.
  unfold NonEmptyR. rewrite Forall_forall. intros r Hr. apply filter_In in Hr.
  destruct Hr as [_ Hr]. apply N.ltb_lt. exact Hr.
Qed.

Lemma cov_filter_nonempty l x : cov (filter (fun r => fst r <? snd r) l) x <-> cov l x.
Proof.
  unfold cov; split; intros [r [Hin Hr]]; exists r; split; auto.
  - apply filter_In in Hin. tauto.
  - apply filter_In. split; [exact Hin|]. apply N.ltb_lt. destruct Hr. lia.
Qed.

Lemma canon_of_cov l x : cov (canon_of l) x <-> cov l x.
Proof.
  unfold canon_of. rewrite union_cov by apply filter_nonempty.
  rewrite cov_filter_nonempty. split; [intros [H|H]; [destruct (cov_nil _ H)|exact H]|auto].
Qed.

Lemma canon_of_canon l : Canon (canon_of l).
Proof. unfold canon_of. apply union_canon; [apply filter_nonempty|exact I]. Qed.

(** Complement inside [lo, ub). *)
Fixpoint compl_from (lo ub : N) (l : list range) : list range :=
  match l with
  | [] => if lo <? ub then [(lo, ub)] else []
  | (a, b) :: t => if lo <? a then (lo, a) :: compl_from b ub t else compl_from b ub t
  end.
Definition compl (ub : N) (l : list range) : list range := compl_from 0 ub l.

Lemma compl_from_cov l : forall lo ub x, sorted_from lo l -> Bounded ub l ->
  (cov (compl_from lo ub l) x <-> (lo <= x /\ x < ub) /\ ~ cov l x).
Proof.
  induction l as [|[a b] t IH]; intros lo ub x Hs Hb; simpl.
  - destruct (lo <? ub) eqn:E.
    + rewrite cov_cons. unfold inr; simpl. split.
      * intros [H|H]; [split; [exact H|apply cov_nil]|destruct (cov_nil _ H)].
      * intros [H _]; left; exact H.
    + apply N.ltb_ge in E. split; [intros H; destruct (cov_nil _ H)|intros [H _]; lia].
  - simpl in Hs. destruct Hs as (H1 & H2 & H3).
    inversion Hb as [|? ? Hbu Hb']; subst. simpl in Hbu.
    assert (IH' := IH b ub x (chain_sorted _ _ H3) Hb').
    assert (Ht : cov t x -> b < x) by (apply chain_cov_gt; exact H3).
    destruct (lo <? a) eqn:E.
    + apply N.ltb_lt in E. rewrite !cov_cons, IH'. unfold inr; simpl.
      split.
      * intros [[Ha Hb2]|[[Ha Hb2] Hn]].
        -- split; [lia|]. intros [[? ?]|Hc]; [lia|]. specialize (Ht Hc). lia.
        -- split; [lia|]. intros [[? ?]|Hc]; [lia|]. tauto.
      * intros [[Ha Hb2] Hn]. destruct (N.lt_ge_cases x a); [left; lia|right].
        split; [|tauto]. split; [|exact Hb2].
        destruct (N.lt_ge_cases x b); [|assumption]. exfalso. apply Hn. left. lia.
    + apply N.ltb_ge in E. assert (lo = a) by lia. subst lo.
      rewrite IH', cov_cons. unfold inr; simpl.
      split.
      * intros [[Ha Hb2] Hn]. split; [lia|]. intros [[? ?]|Hc]; [lia|tauto].
      * intros [[Ha Hb2] Hn]. split; [|tauto]. split; [|exact Hb2].
        destruct (N.lt_ge_cases x b); [|assumption]. exfalso. apply Hn. left. lia.
Qed.

Lemma compl_from_sorted l : forall lo ub, sorted_from lo l -> Bounded ub l ->
  sorted_from lo (compl_from lo ub l) /\
  (forall lo', lo' < lo -> chain lo' (compl_from lo ub l)).
Proof.
  induction l as [|[a b] t IH]; intros lo ub Hs Hb; simpl.
  - destruct (lo <? ub) eqn:E; simpl; [apply N.ltb_lt in E|]; intuition lia.
  - simpl in Hs. destruct Hs as (H1 & H2 & H3).
    inversion Hb as [|? ? Hbu Hb']; subst. simpl in Hbu.
    destruct (IH b ub (chain_sorted _ _ H3) Hb') as [IH1 IH2].
    destruct (lo <? a) eqn:E.
    + apply N.ltb_lt in E. simpl. split.
      * split; [lia|]. split; [exact E|]. apply IH2. exact H2.
      * intros lo' Hlo'. split; [exact Hlo'|]. split; [exact E|]. apply IH2. exact H2.
    + apply N.ltb_ge in E. split.
      * apply (sorted_from_weaken _ b); [lia|exact IH1].
      * intros lo' Hlo'. apply IH2. lia.
Qed.

Lemma compl_cov ub l x : Canon l -> Bounded ub l ->
  (cov (compl ub l) x <-> x < ub /\ ~ cov l x).
Proof.
  intros Hc Hb. unfold compl. rewrite compl_from_cov by assumption.
  intuition lia.
Qed.

Lemma compl_canon ub l : Canon l -> Bounded ub l -> Canon (compl ub l).
Proof. intros Hc Hb. apply (compl_from_sorted l 0 ub Hc Hb). Qed.

Lemma compl_from_allb (P : N -> Prop) l : forall lo ub, P lo -> P ub -> AllB P l ->
  AllB P (compl_from lo ub l).
Proof.
  induction l as [|[a b] t IH]; intros lo ub Hlo Hub Hl; simpl.
  - destruct (lo <? ub); constructor; [simpl; auto|constructor].
  - inversion Hl as [|? ? [Ha Hb] Ht]; subst. simpl in Ha, Hb.
    destruct (lo <? a); [constructor; [simpl; auto|]|]; apply IH; assumption.
Qed.

Lemma compl_bounded ub l : Canon l -> Bounded ub l -> Bounded ub (compl ub l).
Proof.
  intros Hc Hb. apply allb_bounded. apply compl_from_allb; [lia|lia|].
  apply canon_bounded_allb; assumption.
Qed.

(** Derived operators. *)
Definition inter (ub : N) (A B : list range) : list range :=
  compl ub (union (compl ub A) (compl ub B)).
Definition minus (ub : N) (A B : list range) : list range := inter ub A (compl ub B).
Definition xor (ub : N) (A B : list range) : list range :=
  union (minus ub A B) (minus ub B A).

Record Valid (ub : N) (l : list range) : Prop :=
  { v_canon : Canon l; v_bounded : Bounded ub l }.

Lemma valid_compl ub l : Valid ub l -> Valid ub (compl ub l).
Proof. intros [Hc Hb]. split; [apply compl_canon|apply compl_bounded]; assumption. Qed.

Lemma valid_union ub A B : Valid ub A -> Valid ub B -> Valid ub (union A B).
Proof.
  intros [Ha Ha'] [Hb Hb']. split.
  - apply union_canon; [apply canon_nonempty; exact Hb|exact Ha].
  - apply allb_bounded. apply union_allb; apply canon_bounded_allb; assumption.
Qed.

Lemma valid_union_cov ub A B x : Valid ub A -> Valid ub B ->
  (cov (union A B) x <-> cov A x \/ cov B x).
Proof. intros _ [Hb _]. apply union_cov. apply canon_nonempty. exact Hb. Qed.

Lemma valid_cov_lt ub l x : Valid ub l -> cov l x -> x < ub.
Proof.
  intros [_ Hb] [r [Hin [_ Hr]]]. unfold Bounded in Hb. rewrite Forall_forall in Hb.
  specialize (Hb r Hin). lia.
Qed.

Lemma valid_inter ub A B : Valid ub A -> Valid ub B -> Valid ub (inter ub A B).
Proof. intros HA HB. unfold inter. apply valid_compl, valid_union; apply valid_compl; assumption. Qed.

Lemma inter_cov ub A B x : Valid ub A -> Valid ub B ->
  (cov (inter ub A B) x <-> cov A x /\ cov B x).
Proof.
  intros HA HB. unfold inter.
  pose proof (valid_compl _ _ HA) as HcA. pose proof (valid_compl _ _ HB) as HcB.
  pose proof (valid_union _ _ _ HcA HcB) as [Hu1 Hu2].
  rewrite compl_cov by assumption.
  rewrite (valid_union_cov ub) by assumption.
  destruct HA as [HA1 HA2]. destruct HB as [HB1 HB2].
  rewrite !compl_cov by assumption.
  pose proof (valid_cov_lt ub A x (Build_Valid _ _ HA1 HA2)).
  destruct (covb A x) eqn:EA; destruct (covb B x) eqn:EB;
    try (apply covb_spec in EA); try (apply covb_spec in EB);
    try (assert (~ cov A x) by (rewrite <- covb_spec; congruence));
    try (assert (~ cov B x) by (rewrite <- covb_spec; congruence)); tauto.
Qed.

Lemma valid_minus ub A B : Valid ub A -> Valid ub B -> Valid ub (minus ub A B).
Proof. intros HA HB. apply valid_inter; [exact HA|apply valid_compl; exact HB]. Qed.

Lemma minus_cov ub A B x : Valid ub A -> Valid ub B ->
  (cov (minus ub A B) x <-> cov A x /\ ~ cov B x).
Proof.
  intros HA HB. unfold minus. rewrite inter_cov; [|exact HA|apply valid_compl; exact HB].
  destruct HB as [HB1 HB2]. rewrite compl_cov by assumption.
  pose proof (valid_cov_lt ub A x HA). tauto.
Qed.

Lemma valid_xor ub A B : Valid ub A -> Valid ub B -> Valid ub (xor ub A B).
Proof. intros HA HB. apply valid_union; apply valid_minus; assumption. Qed.

Lemma xor_cov ub A B x : Valid ub A -> Valid ub B ->
  (cov (xor ub A B) x <-> (cov A x /\ ~ cov B x) \/ (cov B x /\ ~ cov A x)).
Proof.
  intros HA HB. unfold xor.
  rewrite (valid_union_cov ub) by (apply valid_minus; assumption).
  rewrite !minus_cov by assumption. tauto.
Qed.

(** Alignment on multiples of [2^k]. *)
Definition mult2k (k : N) (x : N) : Prop := x mod 2 ^ k = 0.
Definition Aligned (k : N) (l : list range) : Prop := AllB (mult2k k) l.
Definition alignedb (k : N) (l : list range) : bool :=
  forallb (fun r => (fst r mod 2 ^ k =? 0) && (snd r mod 2 ^ k =? 0)) l.

Lemma alignedb_spec k l : alignedb k l = true <-> Aligned k l.
Proof.
  unfold alignedb, Aligned, AllB, mult2k. rewrite forallb_forall, Forall_forall.
  split; intros H r Hr; specialize (H r Hr).
  - apply andb_true_iff in H. rewrite !N.eqb_eq in H. exact H.
  - apply andb_true_iff. rewrite !N.eqb_eq. exact H.
Qed.

Lemma mult2k_0 k : mult2k k 0.
Proof. unfold mult2k. apply N.mod_0_l. apply N.pow_nonzero. lia. Qed.

Lemma aligned_compl k ub l : mult2k k ub -> Aligned k l -> Aligned k (compl ub l).
Proof. intros Hub Hl. apply compl_from_allb; [apply mult2k_0|exact Hub|exact Hl]. Qed.

Lemma aligned_union k A B : Aligned k A -> Aligned k B -> Aligned k (union A B).
Proof. apply union_allb. Qed.

Lemma aligned_inter k ub A B : mult2k k ub -> Aligned k A -> Aligned k B -> Aligned k (inter ub A B).
Proof. intros. unfold inter. apply aligned_compl; [assumption|]. apply aligned_union; apply aligned_compl; assumption. Qed.

Lemma aligned_minus k ub A B : mult2k k ub -> Aligned k A -> Aligned k B -> Aligned k (minus ub A B).
Proof. intros. unfold minus. apply aligned_inter; [assumption|assumption|]. apply aligned_compl; assumption. Qed.

Lemma aligned_xor k ub A B : mult2k k ub -> Aligned k A -> Aligned k B -> Aligned k (xor ub A B).
Proof. intros. unfold xor. apply aligned_union; apply aligned_minus; assumption. Qed.

Lemma mult2k_le k k' x : k' <= k -> mult2k k x -> mult2k k' x.
Proof.
  unfold mult2k. intros Hk Hx.
  assert (E : 2 ^ k = 2 ^ k' * 2 ^ (k - k')) by (rewrite <- N.pow_add_r; f_equal; lia).
  assert (H2 : 2 ^ k' <> 0) by (apply N.pow_nonzero; lia).
  assert (H3 : 2 ^ (k - k') <> 0) by (apply N.pow_nonzero; lia).
  apply N.mod_divide in Hx; [|rewrite E; lia].
  apply N.mod_divide; [exact H2|].
  destruct Hx as [c Hc]. exists (c * 2 ^ (k - k')). rewrite Hc, E. lia.
Qed.

Lemma aligned_le k k' l : k' <= k -> Aligned k l -> Aligned k' l.
Proof.
  intros Hk. unfold Aligned, AllB. apply Forall_impl. intros r [H1 H2].
  split; eapply mult2k_le; eassumption.
Qed.

(** Degradation: every range is widened to the enclosing multiples of [2^k]. *)
Definition down (k x : N) : N := x / 2 ^ k * 2 ^ k.
Definition up (k x : N) : N := (x + (2 ^ k - 1)) / 2 ^ k * 2 ^ k.
Definition degrade (k : N) (l : list range) : list range :=
  canon_of (map (fun r => (down k (fst r), up k (snd r))) l).

Lemma pow2_pos k : 0 < 2 ^ k.
Proof. assert (2 ^ k <> 0) by (apply N.pow_nonzero; lia). lia. Qed.

Lemma divmod_facts p x : 0 < p -> x / p * p <= x /\ x < x / p * p + p.
Proof.
  intros Hp. assert (Hp0 : p <> 0) by lia.
  pose proof (N.mul_div_le x p Hp0). pose proof (N.mul_succ_div_gt x p Hp0).
  rewrite (N.mul_comm (x / p) p). rewrite N.mul_succ_r in *. lia.
Qed.

Lemma down_spec k x : down k x <= x /\ x < down k x + 2 ^ k /\ mult2k k (down k x).
Proof.
  unfold down, mult2k. pose proof (pow2_pos k) as Hp.
  destruct (divmod_facts (2 ^ k) x Hp) as [H1 H2].
  split; [exact H1|]. split; [exact H2|]. apply N.mod_mul. lia.
Qed.

Lemma up_spec k x : x <= up k x /\ up k x < x + 2 ^ k /\ mult2k k (up k x).
Proof.
  unfold up, mult2k. pose proof (pow2_pos k) as Hp.
  destruct (divmod_facts (2 ^ k) (x + (2 ^ k - 1)) Hp) as [H1 H2].
  split; [lia|]. split; [lia|]. apply N.mod_mul. lia.
Qed.

Lemma same_cell_iff k x y : x / 2 ^ k = y / 2 ^ k <-> down k x = down k y.
Proof.
  unfold down. pose proof (pow2_pos k). split; [intros ->; reflexivity|].
  intros H'. apply N.mul_cancel_r in H'; [exact H'|lia].
Qed.

Lemma mult_gap k u v : mult2k k u -> mult2k k v -> u < v -> u + 2 ^ k <= v.
Proof.
  unfold mult2k. pose proof (pow2_pos k) as Hp. intros Hu Hv Huv.
  apply N.mod_divide in Hu; [|lia]. apply N.mod_divide in Hv; [|lia].
  destruct Hu as [c ->]. destruct Hv as [c' ->].
  apply N.mul_lt_mono_pos_r in Huv; [|exact Hp].
  assert (H : (c + 1) * 2 ^ k <= c' * 2 ^ k) by (apply N.mul_le_mono_r; lia).
  lia.
Qed.

Lemma down_up_range k a b x : a < b ->
  (down k a <= x /\ x < up k b <-> exists y, (a <= y /\ y < b) /\ y / 2 ^ k = x / 2 ^ k).
Proof.
  intros Hab. pose proof (pow2_pos k) as Hp.
  destruct (down_spec k a) as (Da1 & Da2 & Da3).
  destruct (up_spec k b) as (Ub1 & Ub2 & Ub3).
  destruct (down_spec k x) as (Dx1 & Dx2 & Dx3).
  split.
  - intros [H1 H2].
    set (dx := down k x) in *.
    assert (Hdx_ub : dx < b).
    { destruct (N.lt_ge_cases dx b); [assumption|exfalso].
      assert (dx < up k b) by lia. pose proof (mult_gap k _ _ Dx3 Ub3 H0). lia. }
    assert (Hdx_lb : a < dx + 2 ^ k).
    { destruct (N.le_gt_cases (down k a) dx) as [Hle|Hgt]; [lia|exfalso].
      pose proof (mult_gap k _ _ Dx3 Da3 Hgt). lia. }
    exists (N.max a dx). split; [lia|].
    apply same_cell_iff. fold dx.
    unfold down. unfold mult2k in Dx3. apply N.mod_divide in Dx3; [|lia]. destruct Dx3 as [c Hc].
    assert (Hq : N.max a dx / 2 ^ k = c).
    { symmetry. apply (N.div_unique _ _ _ (N.max a dx - dx)); lia. }
    rewrite Hq. lia.
  - intros [y [[Hy1 Hy2] Hy]]. apply same_cell_iff in Hy.
    destruct (down_spec k y) as (Dy1 & Dy2 & Dy3).
    rewrite Hy in *. clear Hy.
    split.
    + destruct (N.le_gt_cases (down k a) x) as [Hle|Hgt]; [assumption|exfalso].
      assert (Hlt : down k x < down k a) by lia.
      pose proof (mult_gap k _ _ Dx3 Da3 Hlt). lia.
    + destruct (N.lt_ge_cases x (up k b)) as [Hlt|Hge]; [assumption|exfalso].
      destruct (N.lt_ge_cases (down k x) (up k b)) as [Hlt2|Hge2].
      * pose proof (mult_gap k _ _ Dx3 Ub3 Hlt2). lia.
      * lia.
Qed.

Lemma degrade_cov k l x : NonEmptyR l ->
  (cov (degrade k l) x <-> exists y, cov l y /\ y / 2 ^ k = x / 2 ^ k).
Proof.
  intros Hne. unfold degrade. rewrite canon_of_cov.
  unfold cov at 1. split.
  - intros [r [Hin Hr]]. apply in_map_iff in Hin. destruct Hin as [[a b] [<- Hin]].
    unfold NonEmptyR in Hne. rewrite Forall_forall in Hne. specialize (Hne _ Hin). simpl in Hne.
    unfold inr in Hr; simpl in Hr. apply down_up_range in Hr; [|exact Hne].
    destruct Hr as [y [Hy1 Hy2]]. exists y. split; [|exact Hy2]. exists (a, b). split; [exact Hin|exact Hy1].
  - intros [y [[[a b] [Hin Hy1]] Hy2]].
    unfold NonEmptyR in Hne. rewrite Forall_forall in Hne. specialize (Hne _ Hin). simpl in Hne.
    exists (down k a, up k b). split.
    + apply in_map_iff. exists (a, b). split; [reflexivity|exact Hin].
    + unfold inr; simpl. apply down_up_range; [exact Hne|]. exists y. split; [exact Hy1|exact Hy2].
Qed.

Lemma degrade_canon k l : Canon (degrade k l).
Proof. apply canon_of_canon. Qed.

Lemma canon_of_allb (P : N -> Prop) l : AllB P l -> AllB P (canon_of l).
Proof.
  intros H. unfold canon_of. apply union_allb; [constructor|].
  unfold AllB in *. rewrite Forall_forall in *. intros r Hr. apply filter_In in Hr. apply H. tauto.
Qed.

Lemma degrade_aligned k l : Aligned k (degrade k l).
Proof.
  unfold degrade. apply canon_of_allb. unfold AllB. rewrite Forall_forall.
  intros r Hr. apply in_map_iff in Hr. destruct Hr as [[a b] [<- _]]. simpl.
  split; [apply down_spec|apply up_spec].
Qed.

Lemma mult_le_up k b ub : mult2k k ub -> b <= ub -> up k b <= ub.
Proof.
  intros Hub Hb. destruct (up_spec k b) as (U1 & U2 & U3).
  destruct (N.le_gt_cases (up k b) ub) as [H|H]; [assumption|exfalso].
  pose proof (mult_gap k _ _ Hub U3 H). lia.
Qed.

Lemma degrade_bounded k ub l : mult2k k ub -> NonEmptyR l -> Bounded ub l -> Bounded ub (degrade k l).
Proof.
  intros Hub Hne Hb. apply allb_bounded. unfold degrade. apply canon_of_allb.
  unfold AllB. rewrite Forall_forall. intros r Hr. apply in_map_iff in Hr.
  destruct Hr as [[a b] [<- Hin]]. simpl.
  unfold Bounded in Hb. rewrite Forall_forall in Hb. specialize (Hb _ Hin). simpl in Hb.
  unfold NonEmptyR in Hne. rewrite Forall_forall in Hne. specialize (Hne _ Hin). simpl in Hne.
  pose proof (mult_le_up k b ub Hub Hb). destruct (down_spec k a) as (D1 & _ & _).
  split; lia.
Qed.
