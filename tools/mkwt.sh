#!/bin/bash
# usage: mkwt.sh <name>  -> creates a scratch worktree of /repo HEAD at /tmp/wt/<name>
set -e
n=$1
git -C /repo worktree add --detach /tmp/wt/$n HEAD >/dev/null 2>&1
cp /repo/Cargo.lock /tmp/wt/$n/Cargo.lock
mkdir -p /tmp/wt/${n}_out
echo /tmp/wt/$n
