#!/usr/bin/env python3
"""Regenerates MANIFEST.json from tools/manifest_src.json (per-property texts) so the
file stays valid and uniform."""
import json
V = "/verif"
src = json.load(open(f"{V}/tools/manifest_src.json"))
props = [json.loads(l) for l in open(f"{V}/properties.jsonl")]
checks, na = [], []
for p in props:
    pid = p["id"]
    c = src["checks"].get(pid)
    if not c:
        na.append({"property_id": pid, "reason": src["not_applicable"].get(pid, "not yet covered by a theorem + correspondence check in this development")})
        continue
    checks.append({
        "property_id": pid,
        "quick_cmd": f"bin/check {pid} quick",
        "thorough_cmd": f"bin/check {pid} thorough",
        "evidence_file": f"/verif/evidence/{pid}.json",
        "replay_cmd_template": f"bin/check {pid} quick --replay {{path}}",
        "engine": "coq+correspondence",
        "level_claimed": {"category": "proof", "text": c["text"], "design_ref": c.get("design_ref", "DESIGN.md 4")},
        "level_note": c["note"],
        "technique": c["technique"],
    })
m = {
    "version": 1,
    "setup_cmd": "bin/setup",
    "hooks": src["hooks"],
    "engines": [{"name": "coq+correspondence", "path": "/verif/bin/check", "serves_properties": [c["property_id"] for c in checks],
                 "kind_free_text": "Coq 8.16.1 theorems about hand-written executable Gallina models (coq/), extracted to an OCaml oracle (oracle/), tied to /repo on every run by a Rust correspondence harness (harness/) that runs the real implementation and the extracted model on the same cases"}],
    "checks": checks,
    "not_applicable": na,
    "notes": src.get("notes", ""),
}
json.dump(m, open(f"{V}/MANIFEST.json", "w"), indent=1)
print(f"{len(checks)} checks, {len(na)} not claimed")
