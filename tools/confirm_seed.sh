#!/bin/bash
# usage: confirm_seed.sh <worktree-name> <seed-id>
# Confirms a seeded change in the scratch worktree /tmp/wt/<name> (patch in /tmp/wt/<name>_out):
#  - with the change: workspace test suite has the same failures as the baseline (2 known), demo FAILS
#  - without the change: demo PASSES
# and stores patch, demo, meta and the confirmation log under /verif/seeded/<seed-id>/
set -u
n=$1; id=$2
WT=/tmp/wt/$n; OUT=/tmp/wt/${n}_out; DST=/verif/seeded/$id
mkdir -p $DST
export CARGO_NET_OFFLINE=true
cd $WT || exit 2
LOG=$DST/confirm.log
: > $LOG
# make sure the tree is clean then apply the patch
git checkout -q -- . ; git clean -fdq -e target -e Cargo.lock
cp /repo/Cargo.lock Cargo.lock 2>/dev/null
git apply $OUT/patch.diff || { echo "PATCH DOES NOT APPLY" | tee -a $LOG; exit 1; }
run_demo() {
  if [ -f $OUT/demo_test.rs ]; then
    crate_dir=$WT
    [ -f $OUT/demo_crate.txt ] && crate_dir=$WT/$(cat $OUT/demo_crate.txt)
    mkdir -p $crate_dir/tests && cp $OUT/demo_test.rs $crate_dir/tests/zz_demo_test.rs
    (cd $crate_dir && timeout 1800 cargo test --offline -j 8 --features storage --test zz_demo_test 2>&1 || true) > $DST/.demo.out 2>&1
    if ! grep -q "test result" $DST/.demo.out; then (cd $crate_dir && timeout 1800 cargo test --offline -j 8 --test zz_demo_test 2>&1 || true) > $DST/.demo.out 2>&1; fi
    rm -f $crate_dir/tests/zz_demo_test.rs; rmdir $crate_dir/tests 2>/dev/null
    grep -E "^test result|^test .*FAILED|error(\[|:)" $DST/.demo.out | head -20
    if grep -q "test result: ok" $DST/.demo.out && ! grep -q "test result: FAILED" $DST/.demo.out; then return 0; else return 1; fi
  elif [ -f $OUT/demo.sh ]; then
    (cd $WT && timeout 1800 cargo build --offline -j 8 --workspace > /dev/null 2>&1; WORKTREE=$WT timeout 1800 bash $OUT/demo.sh) > $DST/.demo.out 2>&1; rc=$?
    tail -5 $DST/.demo.out
    return $rc
  else
    echo "no demo"; return 2
  fi
}
echo "== with change: demo (expected to FAIL)" | tee -a $LOG
run_demo >> $LOG 2>&1; with=$?
echo "demo exit with change: $with" | tee -a $LOG
echo "== with change: workspace test suite" | tee -a $LOG
timeout 3000 cargo nextest run --workspace --no-fail-fast --tool-config-file pb:/w/lib/nextest.toml --profile pb --test-threads 8 --offline > $DST/.suite.out 2>&1
grep -E "^ +FAIL " $DST/.suite.out | sed "s/.*) //" | sort -u | tee -a $LOG
npass=$(grep -E "Summary" $DST/.suite.out | sed -E "s/.*: ([0-9]+) passed.*/\1/"); npass=${npass:-0}; nfail=$(grep -E "^ +FAIL " $DST/.suite.out | sed "s/.*) //" | sort -u | wc -l)
echo "suite: passed=$npass failed=$nfail" | tee -a $LOG
unexpected=$(grep -E "^ +FAIL " $DST/.suite.out | sed "s/.*) //" | sort -u | grep -v "integration_test\|test_union_assocdata_vsx" | wc -l)
grep -q "error: could not compile\|error\[E" $DST/.suite.out && { echo "COMPILE ERROR" | tee -a $LOG; unexpected=99; }
git apply -R $OUT/patch.diff
git clean -fdq -e target -e Cargo.lock
echo "== without change: demo (expected to PASS)" | tee -a $LOG
run_demo >> $LOG 2>&1; without=$?
echo "demo exit without change: $without" | tee -a $LOG
git checkout -q -- . ; git clean -fdq -e target -e Cargo.lock
cp $OUT/patch.diff $DST/patch.diff
[ -f $OUT/demo_test.rs ] && cp $OUT/demo_test.rs $DST/
[ -f $OUT/demo.sh ] && cp $OUT/demo.sh $DST/
[ -f $OUT/demo_crate.txt ] && cp $OUT/demo_crate.txt $DST/
[ -f $OUT/meta.json ] && cp $OUT/meta.json $DST/agent_meta.json
rm -f $DST/.demo.out $DST/.suite.out
if [ $with -ne 0 ] && [ $without -eq 0 ] && [ $unexpected -eq 0 ] && [ $npass -ge 123 ]; then echo "CONFIRMED" | tee -a $LOG; else echo "NOT CONFIRMED (with=$with without=$without unexpected_failures=$unexpected passed=$npass)" | tee -a $LOG; fi
