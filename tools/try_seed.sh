#!/bin/bash
# usage: try_seed.sh <seed-id> <property> [tier]  -- applies the seeded patch to /repo, runs the check (time-limited), reverts
id=$1; p=$2; tier=${3:-quick}
cd /repo && git apply /verif/seeded/$id/patch.diff || { echo "patch does not apply"; exit 2; }
cd /verif && timeout 1500 bin/check $p $tier > /tmp/try_${id}_$p.out 2>&1; rc=$?
pkill -f "mocverif $p" 2>/dev/null
git -C /repo checkout -- .
tail -3 /tmp/try_${id}_$p.out
echo "check exit=$rc"
