#!/bin/bash
# usage: try_seed.sh <seed-id> <property> [tier]  -- applies the seeded patch to /repo, runs the check, reverts
id=$1; p=$2; tier=${3:-quick}
cd /repo && git apply /verif/seeded/$id/patch.diff || { echo "patch does not apply"; exit 2; }
cd /verif && bin/check $p $tier > /tmp/try_${id}_$p.out 2>&1; rc=$?
git -C /repo checkout -- .
tail -3 /tmp/try_${id}_$p.out
echo "check exit=$rc"
