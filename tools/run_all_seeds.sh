#!/bin/bash
# Applies every seeded change in turn, runs the quick check of its property (time-limited), reverts,
# and writes seeded/RESULTS.md.  /repo must be clean and no other check may run meanwhile.
cd /verif
out=seeded/RESULTS.md
echo "| seed | property | quick check verdict | wall |" > $out
echo "|------|----------|---------------------|------|" >> $out
for d in seeded/S-*; do
  id=$(basename $d)
  p=$(echo $id | sed -E 's/^S-(C[0-9]+)-.*/\1/')
  [ -n "${ONLY:-}" ] && [[ ! " $ONLY " =~ " $id " ]] && continue
  t0=$(date +%s)
  res=$(timeout 1700 tools/try_seed.sh $id $p 2>&1 | tail -4)
  t1=$(date +%s)
  if echo "$res" | grep -q "^VIOLATION"; then v="caught (VIOLATION $(echo "$res" | grep -o 'no-failing-input-found' | head -1))"; elif echo "$res" | grep -q "check exit=0"; then v="MISSED"; else v="? $(echo "$res" | tail -1)"; fi
  echo "| $id | $p | $v | $((t1-t0)) s |" >> $out
  git -C /repo checkout -- . 2>/dev/null
done
cat $out
