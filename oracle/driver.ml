(* oracle/driver.ml — hand-written I/O shell around the extracted Coq models.
   Reads one request per line on stdin, prints one answer line on stdout and
   flushes (so the Rust harness can use it as a co-process, e.g. for shrinking).
   Parsing / printing only: every decision is taken by extracted code.
   Wire format: space separated tokens; naturals in decimal (< 2^64) ;
   range list = n s1 e1 ... sn en. *)
open Moc_model

(* ---------- N <-> decimal through Int64 (unsigned) ---------- *)
let rec pos_of_int64 (x : int64) : positive =
  (* x > 0, unsigned *)
  if Int64.equal x 1L then XH
  else
    let h = Int64.shift_right_logical x 1 in
    if Int64.equal (Int64.logand x 1L) 1L then XI (pos_of_int64 h) else XO (pos_of_int64 h)

let n_of_int64 (x : int64) : n = if Int64.equal x 0L then N0 else Npos (pos_of_int64 x)

let n_of_string (s : string) : n =
  (* decimal, possibly larger than 2^63 : use the 0u prefix *)
  n_of_int64 (Int64.of_string ("0u" ^ s))

let n_of_int (i : int) : n = n_of_int64 (Int64.of_int i)

exception Too_big

let rec int64_of_pos (p : positive) (depth : int) : int64 =
  if depth > 64 then raise Too_big
  else
    match p with
    | XH -> 1L
    | XO q -> Int64.shift_left (int64_of_pos q (depth + 1)) 1
    | XI q -> Int64.logor (Int64.shift_left (int64_of_pos q (depth + 1)) 1) 1L

let rec pos_bits (p : positive) : int = match p with XH -> 1 | XO q | XI q -> 1 + pos_bits q

let string_of_n (x : n) : string =
  match x with
  | N0 -> "0"
  | Npos p ->
      if pos_bits p > 64 then "BIG" else Printf.sprintf "%Lu" (int64_of_pos p 1)

let int_of_n (x : n) : int =
  match x with N0 -> 0 | Npos p -> Int64.to_int (int64_of_pos p 1)

(* ---------- token reader ---------- *)
type reader = { toks : string array; mutable pos : int }

exception Parse_error of string

let next r =
  if r.pos >= Array.length r.toks then raise (Parse_error "eol")
  else (
    let t = r.toks.(r.pos) in
    r.pos <- r.pos + 1;
    t)

let next_n r = try n_of_string (next r) with Failure _ -> raise (Parse_error "num")
let next_int r = try int_of_string (next r) with Failure _ -> raise (Parse_error "int")

let next_list r f =
  let k = next_int r in
  List.init k (fun _ -> f r)

let next_ranges r =
  next_list r (fun r ->
      let s = next_n r in
      let e = next_n r in
      (s, e))

let next_qty r =
  match next r with
  | "s" | "hpx" -> Hpx
  | "t" | "time" -> Time
  | "f" | "freq" -> Freq
  | _ -> raise (Parse_error "qty")

let next_op2 r =
  match next r with
  | "and" -> OAnd
  | "or" -> OOr
  | "xor" -> OXor
  | "minus" -> OMinus
  | _ -> raise (Parse_error "op2")

let rec next_expr r : expr =
  match next r with
  | "L" ->
      let d = next_n r in
      let l = next_ranges r in
      ELeaf (d, l)
  | "A" -> let a = next_expr r in let b = next_expr r in EOp2 (OAnd, a, b)
  | "O" -> let a = next_expr r in let b = next_expr r in EOp2 (OOr, a, b)
  | "X" -> let a = next_expr r in let b = next_expr r in EOp2 (OXor, a, b)
  | "M" -> let a = next_expr r in let b = next_expr r in EOp2 (OMinus, a, b)
  | "N" -> ENot (next_expr r)
  | "D" -> let t = next_n r in EDeg (t, next_expr r)
  | "I" -> let _ = next r in EId (KCheck, next_expr r)
  | _ -> raise (Parse_error "expr")

let next_stmoc r : stmoc =
  next_list r (fun r -> let t = next_ranges r in let s = next_ranges r in (t, s))

(* ---------- printers ---------- *)
let buf = Buffer.create 4096
let out_s s = Buffer.add_string buf s
let out_n x = Buffer.add_char buf ' '; Buffer.add_string buf (string_of_n x)
let out_int i = Buffer.add_char buf ' '; Buffer.add_string buf (string_of_int i)

let out_ranges l =
  out_int (List.length l);
  List.iter (fun (s, e) -> out_n s; out_n e) l

let out_bool b = out_s (if b then " 1" else " 0")

let out_moc (d, l) = out_n d; out_ranges l

(* diagnostic flags for an invalid range-2D result (classification only; the verdict is r2d_okb) *)
let r2d_flags w64 dt ds (x : stmoc) : string list =
  let fl = ref [] in
  let add f = if not (List.mem f !fl) then fl := !fl @ [f] in
  let rec go lo prev = function
    | [] -> ()
    | (t, s) :: rest -> (
        match t with
        | [ (a, b) ] ->
            if not (N.leb lo a) then add "T_OVERLAP_OR_UNSORTED";
            if not (N.ltb a b) then add "T_EMPTY_RANGE";
            if s = [] then add "S_EMPTY" else if not (valid_mocb Hpx w64 ds s) then add "S_NOT_VALID";
            if N.eqb a lo && (match prev with Some p -> p = s | None -> false) then add "NOT_FUSED";
            go b (Some s) rest
        | _ -> add "T_NOT_SINGLE_RANGE"; go lo prev rest)
  in
  go N0 None x; ignore dt; !fl

(* ---------- dispatch ---------- *)
let handle (r : reader) : unit =
  match next r with
  | "PING" -> out_s "OK PONG"
  | "OP2" ->
      let o = next_op2 r in
      let q = next_qty r in
      let w = next_n r in
      let da = next_n r in
      let a = next_ranges r in
      let db = next_n r in
      let b = next_ranges r in
      out_s "OK";
      out_moc (moc_op2 o q w da a db b)
  | "NOT" ->
      let q = next_qty r in
      let w = next_n r in
      let d = next_n r in
      let a = next_ranges r in
      out_s "OK";
      out_moc (moc_not q w d a)
  | "DEG" ->
      let q = next_qty r in
      let w = next_n r in
      let d = next_n r in
      let a = next_ranges r in
      let t = next_n r in
      out_s "OK";
      out_moc (moc_degrade q w d a t)
  | "VALID" ->
      let q = next_qty r in
      let w = next_n r in
      let d = next_n r in
      let a = next_ranges r in
      out_s "OK";
      out_bool (valid_mocb q w d a)
  | "QRY" ->
      (* QRY <ranges M> <nq> (a b)* -> per query: contains_val(a) contains_range intersects_range width *)
      let m = next_ranges r in
      let qs = next_ranges r in
      out_s "OK";
      List.iter
        (fun (a, b) ->
          out_bool (contains_val m a);
          out_bool (contains_range m a b);
          out_bool (intersects_range m a b);
          out_n (width m a b))
        qs
  | "QMOC" ->
      (* QMOC <ranges A> <ranges B> -> intersects, A contains B, msum A, overlapped_by A B *)
      let a = next_ranges r in
      let b = next_ranges r in
      out_s "OK";
      out_bool (intersects a b);
      out_bool (contains a b);
      out_n (msum a);
      out_ranges (overlapped_by a b)
  | "CANON" ->
      let l = next_ranges r in
      out_s "OK";
      out_ranges (canon_of l)
  | "BCELLS" ->
      let q = next_qty r in
      let w = next_n r in
      let d = next_n r in
      let cells = next_list r next_n in
      out_s "OK"; out_n d;
      out_ranges (build_cells q w d cells)
  | "BRANGES" ->
      let q = next_qty r in
      let w = next_n r in
      let d = next_n r in
      let l = next_ranges r in
      out_s "OK"; out_n d;
      out_ranges (build_ranges q w d l)
  | "BDCELLS" ->
      let q = next_qty r in
      let w = next_n r in
      let d = next_n r in
      let l = next_ranges r in
      out_s "OK"; out_n d;
      out_ranges (build_dcells q w d l)
  | "KWAY" ->
      let o = next_op2 r in
      let q = next_qty r in
      let w = next_n r in
      let l = next_list r (fun r -> let d = next_n r in let l = next_ranges r in (d, l)) in
      out_s "OK";
      out_moc (kway o q w l)
  | "NCELLS" ->
      let q = next_qty r in
      let w = next_n r in
      let d = next_n r in
      let l = next_ranges r in
      let cells = next_ranges r in
      out_s "OK";
      out_bool (canonb l && normal_cellsb q w d l cells)
  | "NUM" ->
      (* NUM q w n (depth idx)* -> per cell: nuniq zuniq *)
      let q = next_qty r in
      let w = next_n r in
      let cells = next_ranges r in
      out_s "OK";
      List.iter (fun (d, i) -> out_n (uniq_hpx d i); out_n (to_zuniq q w d i)) cells
  | "SCALE" ->
      let k = next_n r in
      let l = next_ranges r in
      out_s "OK";
      out_ranges (scale k l)
  | "FITSROWS" ->
      (* FITSROWS w ranges -> hex of the data part *)
      let w = next_int r in
      let l = next_ranges r in
      let rec nat_of_int i = if i <= 0 then O else S (nat_of_int (i - 1)) in
      let bytes = encode_rows (nat_of_int (w / 8)) l in
      out_s "OK ";
      List.iter (fun b -> Buffer.add_string buf (Printf.sprintf "%02x" (int_of_n b))) bytes
  | "STROWS" ->
      (* STROWS w X -> hex of the FITS v2 data part *)
      let w = next_int r in
      let x = next_stmoc r in
      let rec nat_of_int i = if i <= 0 then O else S (nat_of_int (i - 1)) in
      let msb = N.pow (n_of_int 2) (n_of_int (w - 1)) in
      let rows = encode2 msb x in
      let bytes = encode_rows (nat_of_int (w / 8)) rows in
      out_s "OK ";
      List.iter (fun b -> Buffer.add_string buf (Printf.sprintf "%02x" (int_of_n b))) bytes
  | "ST2R" ->
      (* like ST2 but the output is in range-2D form: shape judged by r2d_okb *)
      let o = next_op2 r in
      let dt = next_n r in
      let ds = next_n r in
      let out = next_stmoc r in
      let a = next_stmoc r in
      let b = next_stmoc r in
      let w64 = n_of_int 64 in
      let ub = n_cells_max Hpx w64 in
      let wf = wfb ub out && wfb ub a && wfb ub b in
      let valid = r2d_okb w64 ds N0 None out in
      let pts = wf && pts_opb o ub out a b in
      let flags = (if valid then [] else r2d_flags w64 dt ds out) @ (if wf then [] else ["S_NOT_WF"]) in
      out_s "OK"; out_bool valid; out_bool pts;
      out_s (" " ^ (if flags = [] then "-" else String.concat "," flags))
  | "LOOKUP" ->
      let x = next_stmoc r in
      let probes = next_ranges r in
      out_s "OK";
      List.iter (fun (t, s) -> out_bool (cov2b x t s)) probes
  | "TFOLD" ->
      let x = next_stmoc r in
      let t = next_ranges r in
      out_s "OK"; out_ranges (tfold x t)
  | "SFOLD" ->
      let x = next_stmoc r in
      let s = next_ranges r in
      out_s "OK"; out_ranges (sfold x s)
  | "STOBS" ->
      (* STOBS form dt ds out nobs (ta tb S)* : out judged against the observations' point set *)
      let form = next r in
      let dt = next_n r in
      let ds = next_n r in
      let out = next_stmoc r in
      let obs = next_list r (fun r -> let ta = next_n r in let tb = next_n r in let s = next_ranges r in ((ta, tb), s)) in
      let w64 = n_of_int 64 in
      let ub = n_cells_max Hpx w64 in
      let reference = obs_moc w64 dt obs in
      let wf = wfb ub out && wfb ub reference in
      let pts = wf && pts_eqb ub out reference in
      let valid, flags =
        if form = "M2" then begin
          let flag name f = if List.exists f out then [name] else [] in
          (valid2db w64 w64 dt ds out,
           flag "T_EMPTY" (fun (t, _) -> t = [])
           @ flag "S_EMPTY" (fun (_, s) -> s = [])
           @ flag "T_NOT_VALID" (fun (t, _) -> t <> [] && not (valid_mocb Time w64 dt t))
           @ flag "S_NOT_VALID" (fun (_, s) -> s <> [] && not (valid_mocb Hpx w64 ds s))
           @ (if time_orderedb N0 out then [] else ["T_ORDER_OR_OVERLAP_BETWEEN_ELEMENTS"]))
        end else begin
          let v = r2d_okb w64 ds N0 None out in
          (v, if v then [] else r2d_flags w64 dt ds out)
        end in
      let flags = flags @ (if wf then [] else ["S_NOT_WF"]) in
      out_s "OK"; out_bool valid; out_bool pts;
      out_s (" " ^ (if flags = [] then "-" else String.concat "," flags))
  | "ST2" ->
      (* ST2 op dt ds out A B : verdict of the verified checkers on the implementation output *)
      let o = next_op2 r in
      let dt = next_n r in
      let ds = next_n r in
      let out = next_stmoc r in
      let a = next_stmoc r in
      let b = next_stmoc r in
      let w64 = n_of_int 64 in
      let ub = n_cells_max Hpx w64 in
      let wf = wfb ub out && wfb ub a && wfb ub b in
      let valid = valid2db w64 w64 dt ds out in
      let pts = wf && pts_opb o ub out a b in
      (* diagnostic flags: each is an extracted sub-predicate of valid2db *)
      let flag name f = if List.exists f out then [name] else [] in
      let flags =
        flag "T_EMPTY" (fun (t, _) -> t = [])
        @ flag "S_EMPTY" (fun (_, s) -> s = [])
        @ flag "T_NOT_VALID" (fun (t, _) -> t <> [] && not (valid_mocb Time w64 dt t))
        @ flag "S_NOT_VALID" (fun (_, s) -> s <> [] && not (valid_mocb Hpx w64 ds s))
        @ (if time_orderedb N0 out then [] else ["T_ORDER_OR_OVERLAP_BETWEEN_ELEMENTS"])
        @ (if wf then [] else ["S_NOT_WF"]) in
      out_s "OK"; out_bool valid; out_bool pts;
      out_s (" " ^ (if flags = [] then "-" else String.concat "," flags))
  | "EXPR" ->
      let q = next_qty r in
      let w = next_n r in
      let e = next_expr r in
      out_s "OK";
      out_moc (eval q w e)
  | k -> out_s ("ERR unknown-kind " ^ k)

let () =
  try
    while true do
      let line = input_line stdin in
      Buffer.clear buf;
      let toks =
        Array.of_list (List.filter (fun s -> s <> "") (String.split_on_char ' ' (String.trim line)))
      in
      (try handle { toks; pos = 0 } with
      | Parse_error m ->
          Buffer.clear buf;
          out_s ("ERR parse " ^ m)
      | Too_big ->
          Buffer.clear buf;
          out_s "ERR too-big"
      | Stack_overflow ->
          Buffer.clear buf;
          out_s "ERR stack-overflow");
      print_string (Buffer.contents buf);
      print_char '\n';
      flush stdout
    done
  with End_of_file -> ()
