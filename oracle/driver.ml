(* oracle/driver.ml — hand-written I/O shell around the extracted Coq models.
   Reads one request per line on stdin, prints one answer line on stdout and
   flushes (so the Rust harness can use it as a co-process, e.g. for shrinking).
   Parsing / printing only: every decision is taken by extracted code.
   Wire format: space separated tokens; naturals in decimal (< 2^64) ;
   range list = n s1 e1 ... sn en. *)
open Moc_model
type string = Stdlib.String.t

(* ---------- N <-> decimal through Int64 (unsigned) ---------- *)
let rec pos_of_int64 (x : int64) : positive =
  (* x > 0, unsigned *)
  if Int64.equal x 1L then XH
  else
    let h = Int64.shift_right_logical x 1 in
    if Int64.equal (Int64.logand x 1L) 1L then XI (pos_of_int64 h) else XO (pos_of_int64 h)

let n_of_int64 (x : int64) : n = if Int64.equal x 0L then N0 else Npos (pos_of_int64 x)

let n_of_string (s : string) : n =
  (* decimal, possibly larger than 2^63 : use the 0u prefix *)
  n_of_int64 (Int64.of_string ("0u" ^ s))

let n_of_int (i : int) : n = n_of_int64 (Int64.of_int i)

exception Too_big

let rec int64_of_pos (p : positive) (depth : int) : int64 =
  if depth > 64 then raise Too_big
  else
    match p with
    | XH -> 1L
    | XO q -> Int64.shift_left (int64_of_pos q (depth + 1)) 1
    | XI q -> Int64.logor (Int64.shift_left (int64_of_pos q (depth + 1)) 1) 1L

let rec pos_bits (p : positive) : int = match p with XH -> 1 | XO q | XI q -> 1 + pos_bits q

let string_of_n (x : n) : string =
  match x with
  | N0 -> "0"
  | Npos p ->
      if pos_bits p > 64 then "BIG" else Printf.sprintf "%Lu" (int64_of_pos p 1)

let int_of_n (x : n) : int =
  match x with N0 -> 0 | Npos p -> Int64.to_int (int64_of_pos p 1)


(* ---------- arbitrary-size decimal printing (extracted N.div_eucl by 10) ---------- *)
let rec dec_of_n (x : n) : string =
  match x with
  | N0 -> ""
  | _ -> let (q, r) = divmod10 x in dec_of_n q ^ string_of_int (int_of_n r)
let big_of_n x = match x with N0 -> "0" | _ -> dec_of_n x
let big_of_z (x : z) = match x with Z0 -> "0" | Zpos p -> big_of_n (Npos p) | Zneg p -> "-" ^ big_of_n (Npos p)
let z_of_string (s : string) : z =
  if String.length s > 0 && s.[0] = '-' then
    (match n_of_string (String.sub s 1 (String.length s - 1)) with N0 -> Z0 | Npos p -> Zneg p)
  else (match n_of_string s with N0 -> Z0 | Npos p -> Zpos p)

(* ---------- token reader ---------- *)
type reader = { toks : string array; mutable pos : int }

exception Parse_error of string

let next r =
  if r.pos >= Array.length r.toks then raise (Parse_error "eol")
  else (
    let t = r.toks.(r.pos) in
    r.pos <- r.pos + 1;
    t)

let next_n r = try n_of_string (next r) with Failure _ -> raise (Parse_error "num")
let next_int r = try int_of_string (next r) with Failure _ -> raise (Parse_error "int")

let next_list r f =
  let k = next_int r in
  List.init k (fun _ -> f r)

let next_ranges r =
  next_list r (fun r ->
      let s = next_n r in
      let e = next_n r in
      (s, e))

let next_qty r =
  match next r with
  | "s" | "hpx" -> Hpx
  | "t" | "time" -> Time
  | "f" | "freq" -> Freq
  | _ -> raise (Parse_error "qty")

let next_op2 r =
  match next r with
  | "and" -> OAnd
  | "or" -> OOr
  | "xor" -> OXor
  | "minus" -> OMinus
  | _ -> raise (Parse_error "op2")

let rec next_expr r : expr =
  match next r with
  | "L" ->
      let d = next_n r in
      let l = next_ranges r in
      ELeaf (d, l)
  | "A" -> let a = next_expr r in let b = next_expr r in EOp2 (OAnd, a, b)
  | "O" -> let a = next_expr r in let b = next_expr r in EOp2 (OOr, a, b)
  | "X" -> let a = next_expr r in let b = next_expr r in EOp2 (OXor, a, b)
  | "M" -> let a = next_expr r in let b = next_expr r in EOp2 (OMinus, a, b)
  | "N" -> ENot (next_expr r)
  | "D" -> let t = next_n r in EDeg (t, next_expr r)
  | "I" -> let _ = next r in EId (KCheck, next_expr r)
  | _ -> raise (Parse_error "expr")

let next_stmoc r : stmoc =
  next_list r (fun r -> let t = next_ranges r in let s = next_ranges r in (t, s))

(* ---------- printers ---------- *)
let buf = Buffer.create 4096
let out_s s = Buffer.add_string buf s
let out_n x = Buffer.add_char buf ' '; Buffer.add_string buf (string_of_n x)
let out_int i = Buffer.add_char buf ' '; Buffer.add_string buf (string_of_int i)

let out_ranges l =
  out_int (List.length l);
  List.iter (fun (s, e) -> out_n s; out_n e) l

let out_bool b = out_s (if b then " 1" else " 0")

let out_moc (d, l) = out_n d; out_ranges l

(* diagnostic flags for an invalid range-2D result (classification only; the verdict is r2d_okb) *)
let r2d_flags w64 dt ds (x : stmoc) : string list =
  let fl = ref [] in
  let add f = if not (List.mem f !fl) then fl := !fl @ [f] in
  let rec go lo prev = function
    | [] -> ()
    | (t, s) :: rest -> (
        match t with
        | [ (a, b) ] ->
            if not (N.leb lo a) then add "T_OVERLAP_OR_UNSORTED";
            if not (N.ltb a b) then add "T_EMPTY_RANGE";
            if s = [] then add "S_EMPTY" else if not (valid_mocb Hpx w64 ds s) then add "S_NOT_VALID";
            if N.eqb a lo && (match prev with Some p -> p = s | None -> false) then add "NOT_FUSED";
            go b (Some s) rest
        | _ -> add "T_NOT_SINGLE_RANGE"; go lo prev rest)
  in
  go N0 None x; ignore dt; !fl

(* ---------- C13: store histories ---------- *)
type sval = V1 of qty * n * (n * n) list | VST of n * n * stmoc

let kind_char = function Hpx -> "s" | Time -> "t" | Freq -> "f"

let out_sval v =
  match v with
  | V1 (q, d, l) -> out_s (" " ^ kind_char q); out_n d; out_ranges l
  | VST (dt, ds, x) -> out_s " st"; out_n dt; out_n ds; out_int (List.length x)

let w64 = n_of_int 64

let store_op1 (name : string) (arg : n) (vs : sval list) : sval option =
  match name, vs with
  | "not", [ V1 (q, d, l) ] -> let (d', l') = moc_not q w64 d l in Some (V1 (q, d', l'))
  | "deg", [ V1 (q, d, l) ] -> let (d', l') = moc_degrade q w64 d l arg in Some (V1 (q, d', l'))
  | _ -> None

let store_op2 (name : string) (vs : sval list) : sval option =
  match name, vs with
  | ("and" | "or" | "xor" | "minus"), [ V1 (q1, d1, l1); V1 (q2, d2, l2) ] when q1 = q2 ->
      let o = (match name with "and" -> OAnd | "or" -> OOr | "xor" -> OXor | _ -> OMinus) in
      let (d, l) = moc_op2 o q1 w64 d1 l1 d2 l2 in Some (V1 (q1, d, l))
  | ("and" | "or" | "minus"), [ VST (dt1, ds1, a); VST (dt2, ds2, b) ] ->
      let o = (match name with "and" -> OAnd | "or" -> OOr | _ -> OMinus) in
      let ub = n_cells_max Hpx w64 in
      let res = st_op_spec o ub a b in
      (* certified by the verified checker *)
      if not (pts_opb o ub res a b) then raise (Parse_error "st_op_spec-not-certified");
      Some (VST (N.max dt1 dt2, N.max ds1 ds2, res))
  | "tfold", [ V1 (Time, _, t); VST (_, ds, x) ] -> Some (V1 (Hpx, ds, tfold x t))
  | "sfold", [ V1 (Hpx, _, sp); VST (dt, _, x) ] -> Some (V1 (Time, dt, sfold x sp))
  | _ -> None

let store_opn (name : string) (vs : sval list) : sval option =
  match vs with
  | [] -> None
  | V1 (q, _, _) :: _ ->
      if List.for_all (function V1 (q', _, _) -> q' = q | _ -> false) vs then begin
        let l = List.map (function V1 (_, d, l) -> (d, l) | _ -> (N0, [])) vs in
        let o = (match name with "and" -> OAnd | "or" -> OOr | _ -> OXor) in
        let (d, r) = kway o q w64 l in Some (V1 (q, d, r))
      end else None
  | _ -> None

let rec nat_of_int i = if i <= 0 then O else S (nat_of_int (i - 1))
let rec int_of_nat = function O -> 0 | S k -> 1 + int_of_nat k

let handle_hist (r : reader) : unit =
  let ncalls = next_int r in
  let slab = ref { ents = []; freel = [] } in
  let created : (int, int) Hashtbl.t = Hashtbl.create 64 in  (* creation index -> key *)
  let ncreated = ref 0 in
  let key_of (tok : string) : nat =
    (* "#i" creation index, or raw key *)
    if String.length tok > 0 && tok.[0] = '#' then
      let i = int_of_string (String.sub tok 1 (String.length tok - 1)) in
      nat_of_int (try Hashtbl.find created i with Not_found -> 5000 + i)
    else nat_of_int (int_of_string tok) in
  let do_call (c : sval call) : unit =
    let (s', res) = exec !slab c in
    slab := s';
    (match res with
     | RKey k -> Hashtbl.replace created !ncreated (int_of_nat k); out_s (" K" ^ string_of_int !ncreated ^ ":" ^ string_of_int (int_of_nat k)); incr ncreated
     | ROk -> out_s " OK"
     | RVal v -> out_s " V"; out_sval v
     | RErr -> (match c with Add _ | Op _ -> incr ncreated | _ -> ()); out_s " ERR");
    out_s " ;" in
  out_s "OK";
  for _ = 1 to ncalls do
    match next r with
    | "ADD" -> let q = next_qty r in let d = next_n r in let l = next_ranges r in do_call (Add (V1 (q, d, l)))
    | "ADDST" -> let dt = next_n r in let ds = next_n r in let x = next_stmoc r in do_call (Add (VST (dt, ds, x)))
    | "COPY" -> do_call (Copy (key_of (next r)))
    | "DROP" -> do_call (Drop (key_of (next r)))
    | "READ" -> do_call (Read (key_of (next r)))
    | "NOT" -> let k = key_of (next r) in do_call (Op ([ k ], store_op1 "not" N0))
    | "DEG" -> let k = key_of (next r) in let d = next_n r in do_call (Op ([ k ], store_op1 "deg" d))
    | "OP2" -> let name = next r in let a = key_of (next r) in let b = key_of (next r) in do_call (Op ([ a; b ], store_op2 name))
    | "OPN" -> let name = next r in let ks = next_list r (fun r -> key_of (next r)) in do_call (Op (ks, store_opn name))
    | _ -> raise (Parse_error "hist-call")
  done

(* ---------- C14: moc-set histories ---------- *)
let status_of = function "valid" | "v" -> Valid | "deprecated" | "d" -> Deprecated | _ -> Removed
let status_str = function Valid -> "valid" | Deprecated -> "deprecated" | Removed -> "removed"

let handle_mset (r : reader) : unit =
  (* MSET n128 ncmds cmds... ; M = (depth, ranges) *)
  let n128 = next_n r in
  let ncmds = next_int r in
  let st = ref { cap = n_of_n128 n128; ents0 = []; locked = false } in
  let dump () =
    out_int (List.length !st.ents0);
    List.iter (fun e -> out_n e.e_id; out_s (" " ^ status_str e.e_st); let (d, l) = e.e_moc in out_n d; out_ranges l) !st.ents0;
    out_s " C"; out_n !st.cap;
    out_s " ;" in
  out_s "OK";
  for _ = 1 to ncmds do
    (match next r with
     | "APP" ->
         let id = next_n r in
         let s0 = status_of (next r) in
         let d = next_n r in
         let l = next_ranges r in
         let (s', o) = exec0 !st (Append (id, s0, (d, l))) in
         st := s'; out_s (match o with Done -> " D" | Failed -> " F")
     | "CHG" ->
         let s0 = status_of (next r) in
         let ids = next_list r next_n in
         let (s', o) = exec0 !st (ChgStatus (s0, ids)) in
         st := s'; out_s (match o with Done -> " D" | Failed -> " F")
     | "PURGE" ->
         let k = (match next r with "-" -> None | x -> Some (n_of_string x)) in
         let (s', o) = exec0 !st (Purge k) in
         st := s'; out_s (match o with Done -> " D" | Failed -> " F")
     | "LOCK" -> st := { !st with locked = true }; out_s " D"
     | "UNLOCK" -> st := { !st with locked = false }; out_s " D"
     | _ -> raise (Parse_error "mset-cmd"));
    dump ()
  done

(* ---------- character-level ASCII codec (Model/AsciiCodec.v): strings travel as hex ---------- *)
let bytes_of_hex (h : string) : n list =
  if h = "-" then [] else
  List.init (String.length h / 2) (fun i -> n_of_int (int_of_string ("0x" ^ String.sub h (2 * i) 2)))
let out_hex (l : n list) =
  Buffer.add_char buf ' ';
  if l = [] then Buffer.add_char buf '-' else
  List.iter (fun b -> Buffer.add_string buf (Printf.sprintf "%02x" (int_of_n b))) l
let aerr_name = function
  | AEParse -> "Parse" | AERemaining -> "Remaining" | AEFirstToken -> "FirstToken" | AEDepthType -> "DepthType"
  | AEDepth -> "Depth" | AEIndex -> "Index" | AENotValid -> "NotValid" | AEFuel -> "FUEL-EXHAUSTED"
let out_elems (l : aelem list) =
  out_int (List.length l);
  List.iter (function
    | ECell (d, i) -> out_s " c"; out_n d; out_n i
    | ERange (d, a, b) -> out_s " r"; out_n d; out_n a; out_n b) l
let next_fold r = match next r with "-" -> None | x -> Some (n_of_string x)
let elems_of_moc q w d l =
  match moc_cells_o q w d l with Some c -> elems_of_cells c | None -> raise (Parse_error "cells-fuel")

let ferr_name = function
  | FIo -> "Io" | FUnexpectedKeyword -> "UnexpectedKeyword" | FValueIndicatorNotFound -> "ValueIndicatorNotFound"
  | FUnexpectedValue -> "UnexpectedValue" | FUintValueNotFound -> "UintValueNotFound" | FStringValueNotFound -> "StringValueNotFound"
  | FWrongUintValue -> "WrongUintValue" | FMissingKeyword -> "MissingKeyword" | FUncompatibleKeywordContent -> "UncompatibleKeywordContent"
  | FUnexpectedDepth -> "UnexpectedDepth" | FCustom -> "Custom" | FFuel -> "FUEL-EXHAUSTED"

(* ---------- dispatch ---------- *)
let handle (r : reader) : unit =
  match next r with
  | "PING" -> out_s "OK PONG"
  | "OP2" ->
      let o = next_op2 r in
      let q = next_qty r in
      let w = next_n r in
      let da = next_n r in
      let a = next_ranges r in
      let db = next_n r in
      let b = next_ranges r in
      out_s "OK";
      out_moc (moc_op2 o q w da a db b)
  | "NOT" ->
      let q = next_qty r in
      let w = next_n r in
      let d = next_n r in
      let a = next_ranges r in
      out_s "OK";
      out_moc (moc_not q w d a)
  | "DEG" ->
      let q = next_qty r in
      let w = next_n r in
      let d = next_n r in
      let a = next_ranges r in
      let t = next_n r in
      out_s "OK";
      out_moc (moc_degrade q w d a t)
  | "VALID" ->
      let q = next_qty r in
      let w = next_n r in
      let d = next_n r in
      let a = next_ranges r in
      out_s "OK";
      out_bool (valid_mocb q w d a)
  | "QRY" ->
      (* QRY <ranges M> <nq> (a b)* -> per query: contains_val(a) contains_range intersects_range width *)
      let m = next_ranges r in
      let qs = next_ranges r in
      out_s "OK";
      List.iter
        (fun (a, b) ->
          out_bool (contains_val m a);
          out_bool (contains_range m a b);
          out_bool (intersects_range m a b);
          out_n (width m a b))
        qs
  | "QMOC" ->
      (* QMOC <ranges A> <ranges B> -> intersects, A contains B, msum A, overlapped_by A B *)
      let a = next_ranges r in
      let b = next_ranges r in
      out_s "OK";
      out_bool (intersects a b);
      out_bool (contains a b);
      out_n (msum a);
      out_ranges (overlapped_by a b)
  | "MOM" ->
      (* MOM <hpx|zuniq> <qty> <w> <ranges M> k (key value)*  ->
         numerator of the weighted sum over 2^shift(depth 0) ; for hpx also the filter
         n (value width shift)* *)
      let kind = next r in
      let q = next_qty r in
      let w = next_n r in
      let m = next_ranges r in
      let kvs = next_list r (fun r -> let k = next_n r in let v = z_of_string (next r) in (k, v)) in
      out_s "OK";
      if kind = "hpx" then begin
        out_s (" " ^ big_of_z (mom_sum_hpx w m kvs));
        let f = mom_filter_hpx w m kvs in
        out_s (" " ^ string_of_int (List.length f));
        List.iter (fun ((v, wd), sh) -> out_s (" " ^ big_of_z v); out_n wd; out_n sh) f
      end else
        out_s (" " ^ big_of_z (mom_sum_zuniq q w m kvs))
  | "R2DB" ->
      (* R2DB k (ta tb <ranges S>)*  -> the range-2D construction as the code performs it
         (Model/Sweep2D.v r2d_build): n (ta tb <ranges>)* *)
      let es = next_list r (fun r -> let a = next_n r in let b = next_n r in let s = next_ranges r in ((a, b), s)) in
      let out = r2d_build es in
      out_s "OK";
      out_s (" " ^ string_of_int (List.length out));
      List.iter (fun ((a, b), s) -> out_n a; out_n b; out_ranges s) out
  | "R2DOP" ->
      (* R2DOP <or|and|minus> kA (ta tb <ranges>)* kB (ta tb <ranges>)*  -> the range-2D binary operation as
         the code performs it (Model/Merge2D.v merge2): n (ta tb <ranges>)* *)
      let o = next r in
      let rd r = next_list r (fun r -> let a = next_n r in let b = next_n r in let s = next_ranges r in ((a, b), s)) in
      let a = rd r in
      let b = rd r in
      let out = (match o with "or" -> merge2 op_union a b | "and" -> merge2 op_inter a b | _ -> merge2 op_diff a b) in
      out_s "OK";
      out_s (" " ^ string_of_int (List.length out));
      List.iter (fun ((x, y), s) -> out_n x; out_n y; out_ranges s) out
  | "STBM" ->
      (* STBM dt ds k (time_cell space_cell)*  -> the streaming (time cell, space cell) builder without flush
         (Model/STBuilder.v st_build): n (<time ranges> <space ranges>)* *)
      let dt = next_n r in
      let ds = next_n r in
      let buff = next_list r (fun r -> let a = next_n r in let b = next_n r in (a, b)) in
      let out = st_build dt ds buff in
      out_s "OK";
      out_s (" " ^ string_of_int (List.length out));
      List.iter (fun (t, s) -> out_ranges t; out_ranges s) out
  | "STSW" ->
      (* STSW ds k (ta tb cell)*  -> the streaming (time range, space cell) sweep-line builder without flush
         (Model/SweepLine.v st_sweep): n (ta tb <space ranges>)* *)
      let ds = next_n r in
      let obs = next_list r (fun r -> let a = next_n r in let b = next_n r in let c = next_n r in ((a, b), c)) in
      let out = st_sweep ds obs in
      out_s "OK";
      out_s (" " ^ string_of_int (List.length out));
      List.iter (fun ((a, b), s) -> out_n a; out_n b; out_ranges s) out
  | "CANON" ->
      let l = next_ranges r in
      out_s "OK";
      out_ranges (canon_of l)
  | "BCELLS" ->
      let q = next_qty r in
      let w = next_n r in
      let d = next_n r in
      let cells = next_list r next_n in
      out_s "OK"; out_n d;
      out_ranges (build_cells q w d cells)
  | "BRANGES" ->
      let q = next_qty r in
      let w = next_n r in
      let d = next_n r in
      let l = next_ranges r in
      out_s "OK"; out_n d;
      out_ranges (build_ranges q w d l)
  | "BDCELLS" ->
      let q = next_qty r in
      let w = next_n r in
      let d = next_n r in
      let l = next_ranges r in
      out_s "OK"; out_n d;
      out_ranges (build_dcells q w d l)
  | "KWAY" ->
      let o = next_op2 r in
      let q = next_qty r in
      let w = next_n r in
      let l = next_list r (fun r -> let d = next_n r in let l = next_ranges r in (d, l)) in
      out_s "OK";
      out_moc (kway o q w l)
  | "NCELLS" ->
      let q = next_qty r in
      let w = next_n r in
      let d = next_n r in
      let l = next_ranges r in
      let cells = next_ranges r in
      out_s "OK";
      out_bool (canonb l && normal_cellsb q w d l cells);
      (* the decomposition as the code computes it (Model/CellsSM.v), for an exact comparison *)
      (match moc_cells_o q w d l with Some c -> out_ranges c | None -> out_s " FUEL-EXHAUSTED")
  | "NUM" ->
      (* NUM q w n (depth idx)* -> per cell: nuniq zuniq *)
      let q = next_qty r in
      let w = next_n r in
      let cells = next_ranges r in
      out_s "OK";
      List.iter (fun (d, i) -> out_n (uniq_hpx d i); out_n (to_zuniq q w d i)) cells
  | "SCALE" ->
      let k = next_n r in
      let l = next_ranges r in
      out_s "OK";
      out_ranges (scale k l)
  | "FITSROWS" ->
      (* FITSROWS w ranges -> hex of the data part *)
      let w = next_int r in
      let l = next_ranges r in
      let rec nat_of_int i = if i <= 0 then O else S (nat_of_int (i - 1)) in
      let bytes = encode_rows (nat_of_int (w / 8)) l in
      out_s "OK ";
      List.iter (fun b -> Buffer.add_string buf (Printf.sprintf "%02x" (int_of_n b))) bytes
  | "ASCW" ->
      (* ASCW q w d fold use_len ranges -> the characters to_ascii_ivoa writes for the cells().cellranges() view *)
      let q = next_qty r in
      let w = next_n r in
      let d = next_n r in
      let fold = next_fold r in
      let ul = next_int r <> 0 in
      let l = next_ranges r in
      let es = elems_of_moc q w d l in
      out_s "OK"; out_hex (to_ascii d fold ul es); out_elems es
  | "ASCR" ->
      (* ASCR q w hex -> from_ascii_ivoa: depth, elements, and their ranges() view; or the error kind *)
      let q = next_qty r in
      let w = next_n r in
      let s = bytes_of_hex (next r) in
      (match from_ascii isort_e q w s with
       | AOk (d, es) -> out_s "OK"; out_n d; out_elems es; out_ranges (ranges_of_elems q w es)
       | AErr e -> out_s ("ERR " ^ aerr_name e))
  | "ASC2W" ->
      (* ASC2W q1 w1 q2 w2 p1 p2 d1 d2 fold use_len n (ranges1 ranges2)* *)
      let q1 = next_qty r in let w1 = next_n r in
      let q2 = next_qty r in let w2 = next_n r in
      let p1 = next_n r in let p2 = next_n r in
      let d1 = next_n r in let d2 = next_n r in
      let fold = next_fold r in
      let ul = next_int r <> 0 in
      let l = next_list r (fun r -> let a = next_ranges r in let b = next_ranges r in (elems_of_moc q1 w1 d1 a, elems_of_moc q2 w2 d2 b)) in
      out_s "OK"; out_hex (st_to_ascii p1 p2 d1 d2 fold ul l)
  | "ASC2R" ->
      (* ASC2R q1 w1 q2 w2 p1 p2 hex -> moc2d_from_ascii_ivoa *)
      let q1 = next_qty r in let w1 = next_n r in
      let q2 = next_qty r in let w2 = next_n r in
      let p1 = next_n r in let p2 = next_n r in
      let s = bytes_of_hex (next r) in
      (match st_from_ascii isort_e q1 w1 q2 w2 p2 p1 s with
       | StOk (d1, d2, l) ->
           out_s "OK"; out_n d1; out_n d2; out_int (List.length l);
           List.iter (fun (a, b) -> out_elems a; out_elems b) l
       | StErr SElemNotFound -> out_s "ERR ElemNotFound"
       | StErr (SAscii e) -> out_s ("ERR " ^ aerr_name e))
  | "ASSW" ->
      (* ASSW q w d use_len ranges -> the characters to_ascii_stream writes *)
      let q = next_qty r in
      let w = next_n r in
      let d = next_n r in
      let ul = next_int r <> 0 in
      let l = next_ranges r in
      out_s "OK"; out_hex (to_ascii_stream q d ul (elems_of_moc q w d l))
  | "ASSR" ->
      (* ASSR q w hex -> from_ascii_stream: depth and elements in file order, or the error kind *)
      let q = next_qty r in
      let w = next_n r in
      let s = bytes_of_hex (next r) in
      (match from_ascii_stream q w s with
       | SOk (d, es) -> out_s "OK"; out_n d; out_elems es
       | SErr e -> out_s ("ERR " ^ (match e with SEmptyReader -> "EmptyReader" | SQtyExpected -> "QtyExpectedAtFirstLine"
                                    | SNoData -> "NoData" | SDepthExpected -> "DepthExpectedAtSecondLine" | SDepthNotValid -> "Depth")))
  | "FITSW" ->
      (* FITSW q w d ranges -> the whole file ranges_to_fits_ivoa writes (hex) *)
      let q = next_qty r in
      let w = next_n r in
      let d = next_n r in
      let l = next_ranges r in
      out_s "OK"; out_hex (fits_write q w d l)
  | "FITSR" ->
      (* FITSR hex -> from_fits_ivoa + collect: leaf, width, depths, data; or the error kind *)
      let s = bytes_of_hex (next r) in
      (match fits_read s with
       | FOk (lf, w, d1, d2, dt) ->
           out_s ("OK " ^ (match lf with LSNuniq -> "s-cells" | LSRange -> "s-ranges" | LTRange -> "t-ranges" | LFRange -> "f-ranges"
                                         | LSTRange -> "st-v2" | LST29 -> "st-prev2"));
           out_n w; out_n d1; out_n d2;
           (match dt with DRanges l -> out_ranges l | DCells l -> out_ranges l
                       | DSt x -> out_int (List.length x); List.iter (fun (t, sp) -> out_ranges t; out_ranges sp) x | DSt29 -> ())
       | FErr e -> out_s ("ERR " ^ (ferr_name e)))
  | "MOMR" ->
      (* MOMR hex -> the multi-order-map reader: MOCORDER and the rows (uniq, bits of the density), or the error kind *)
      let s = bytes_of_hex (next r) in
      (match mom_read s with
       | MomOk (d, rows) -> out_s "OK"; out_n d; out_ranges rows
       | MomErr e -> out_s ("ERR " ^ ferr_name e))
  | "FITSW2" ->
      (* FITSW2 w dt ds n (tranges sranges)* -> the whole file rangemoc2d_to_fits_ivoa writes *)
      let w = next_n r in
      let dt = next_n r in
      let ds = next_n r in
      let x = next_list r (fun r -> let t = next_ranges r in let sp = next_ranges r in (t, sp)) in
      out_s "OK"; out_hex (fits_write_st w dt ds x)
  | "FITSWN" ->
      (* FITSWN w d ranges -> the whole file hpx_cells_to_fits_ivoa writes for the cells() view *)
      let w = next_n r in
      let d = next_n r in
      let l = next_ranges r in
      (match moc_cells_o Hpx w d l with
       | Some cells -> out_s "OK"; out_hex (fits_write_nuniq w d cells)
       | None -> out_s "ERR cells-fuel")
  | "MSETB" ->
      (* MSETB n128 k (id status depth ranges)* -> the bytes of the moc-set file of that state (Model/MocSetBytes.v) *)
      let n128 = next_n r in
      let ents = next_list r (fun r ->
        let id = next_n r in
        let s0 = status_of (next r) in
        let d = next_n r in
        let l = next_ranges r in
        { e_st = s0; e_id = id; e_moc = (d, l) }) in
      out_s "OK"; out_hex (file_bytes n128 ents)
  | "MSETA" ->
      (* MSETA n128 k (id status depth ranges)* id status depth ranges step -> the file after the step-th write
         (1 data, 2 index slot, 3 metadata word) of the append of that entry to the file of that state *)
      let n128 = next_n r in
      let ent r = let id = next_n r in let s0 = status_of (next r) in let d = next_n r in let l = next_ranges r in
                  { e_st = s0; e_id = id; e_moc = (d, l) } in
      let ents = next_list r ent in
      let e = ent r in
      let step = next_int r in
      let files = append_steps n128 ents e (file_bytes n128 ents) in
      out_s "OK"; out_hex (List.nth files (step - 1))
  | "SKYR" ->
      (* SKYR hex -> the sky-map reader up to the pixel values: depth, or the error kind *)
      let s = bytes_of_hex (next r) in
      (match sky_read s with
       | SkyOk (d, _, _, _) -> out_s "OK"; out_n d
       | SkyErr e -> out_s ("ERR " ^ ferr_name e))
  | "MSETP" ->
      (* MSETP n128 k (id status depth ranges)* idx -> the idx-th file (from 0) the temporary file of a purge goes
         through (three per kept entry); idx = -1: the complete temporary file *)
      let n128 = next_n r in
      let ent r = let id = next_n r in let s0 = status_of (next r) in let d = next_n r in let l = next_ranges r in
                  { e_st = s0; e_id = id; e_moc = (d, l) } in
      let ents = next_list r ent in
      let idx = next_int r in
      let files = purge_tmp_files n128 ents in
      out_s "OK";
      if idx < 0 then out_hex (file_bytes n128 (kept_of ents)) else out_hex (List.nth files idx)
  | "JSONW" ->
      (* JSONW q w d fold ranges -> the characters to_json_aladin writes for the cells() view (prefix "") *)
      let q = next_qty r in
      let w = next_n r in
      let d = next_n r in
      let fold = next_fold r in
      let l = next_ranges r in
      (match moc_cells_o q w d l with
       | Some cells -> out_s "OK"; out_hex (to_json d fold [] cells)
       | None -> out_s "ERR cells-fuel")
  | "JSON2W" ->
      (* JSON2W d1 d2 fold n (tranges sranges)* -> cellmoc2d_to_json_aladin for Time x Hpx, 64-bit *)
      let d1 = next_n r in let d2 = next_n r in
      let fold = next_fold r in
      let w64 = n_of_int 64 in
      let cells q d l = (match moc_cells_o q w64 d l with Some c -> c | None -> raise (Parse_error "cells-fuel")) in
      let l = next_list r (fun r -> let a = next_ranges r in let b = next_ranges r in (cells Time d1 a, cells Hpx d2 b)) in
      out_s "OK"; out_hex (st_to_json (n_of_int 116) (n_of_int 115) d1 d2 fold l)
  | "JSONR" ->
      (* JSONR q w hex -> from_json_aladin on the JSON subset of the model: OUT (outside the subset), the
         depth and the cells with their ranges() view, or ERR *)
      let q = next_qty r in
      let w = next_n r in
      let s = bytes_of_hex (next r) in
      (match from_json isort_e q w s with
       | JROut -> out_s "OUT"
       | JRRes (AOk (d, es)) -> out_s "OK"; out_n d; out_elems es; out_ranges (ranges_of_elems q w es)
       | JRRes (AErr _) -> out_s "ERR")
  | "JSON2R" ->
      (* JSON2R hex -> cellmoc2d_from_json_aladin for Time x Hpx, 64-bit *)
      let s = bytes_of_hex (next r) in
      let w64 = n_of_int 64 in
      (match st_from_json isort_e Time w64 Hpx w64 (n_of_int 116) (n_of_int 115) s with
       | J2Out -> out_s "OUT"
       | J2Err -> out_s "ERR"
       | J2Ok (d1, d2, l) ->
           out_s "OK"; out_n d1; out_n d2; out_int (List.length l);
           List.iter (fun (a, b) -> out_elems a; out_elems b) l)
  | "ASC2WL" ->
      (* ASC2WL q1 w1 q2 w2 p1 p2 d1 d2 l1 l2 fold use_len n (ranges1 ranges2)*  : the 2-D ASCII document when
         every element is labelled with the depths l1 / l2 (<= d1 / d2) *)
      let q1 = next_qty r in let w1 = next_n r in
      let q2 = next_qty r in let w2 = next_n r in
      let p1 = next_n r in let p2 = next_n r in
      let d1 = next_n r in let d2 = next_n r in
      let l1 = next_n r in let l2 = next_n r in
      let fold = next_fold r in
      let ul = next_int r <> 0 in
      let l = next_list r (fun r -> let a = next_ranges r in let b = next_ranges r in ((l1, elems_of_moc q1 w1 l1 a), (l2, elems_of_moc q2 w2 l2 b))) in
      out_s "OK"; out_hex (st_to_ascii_l p1 p2 d1 d2 fold ul l)
  | "JSON2WL" ->
      (* JSON2WL d1 d2 l1 l2 fold n (tranges sranges)*  : the 2-D JSON document, elements labelled l1 / l2 *)
      let d1 = next_n r in let d2 = next_n r in
      let l1 = next_n r in let l2 = next_n r in
      let fold = next_fold r in
      let w64 = n_of_int 64 in
      let cells q d l = (match moc_cells_o q w64 d l with Some c -> c | None -> raise (Parse_error "cells-fuel")) in
      let l = next_list r (fun r -> let a = next_ranges r in let b = next_ranges r in ((l1, cells Time l1 a), (l2, cells Hpx l2 b))) in
      out_s "OK"; out_hex (st_to_json_l (n_of_int 116) (n_of_int 115) d1 d2 fold l)
  | "HIST" -> handle_hist r
  | "MSET" -> handle_mset r
  | "TEXTV" ->
      (* TEXTV q w nmarks marks n (d a b_incl|INVx)* : reference validation of a text document *)
      let q = next_qty r in
      let w = next_n r in
      let marks = next_list r next_n in
      let items = next_list r (fun r ->
        let d = next_n r in
        let a = next_n r in
        let bt = next r in
        let b_excl =
          if String.length bt > 3 && String.sub bt 0 3 = "INV" then n_of_string (String.sub bt 3 (String.length bt - 3))  (* inverted: b_incl < a, keep b_incl so that a >= b *)
          else N.succ (n_of_string bt) in
        (d, (a, b_excl))) in
      let depth = text_depth marks items in
      if text_accept q w items && N.leb depth (max_depth q w) then begin
        out_s "ACCEPT"; out_n depth; out_ranges (text_decode q w items)
      end else out_s "REJECT"
  | "STROWS" ->
      (* STROWS w X -> hex of the FITS v2 data part *)
      let w = next_int r in
      let x = next_stmoc r in
      let rec nat_of_int i = if i <= 0 then O else S (nat_of_int (i - 1)) in
      let msb = N.pow (n_of_int 2) (n_of_int (w - 1)) in
      let rows = encode2 msb x in
      let bytes = encode_rows (nat_of_int (w / 8)) rows in
      out_s "OK ";
      List.iter (fun b -> Buffer.add_string buf (Printf.sprintf "%02x" (int_of_n b))) bytes
  | "ST2R" ->
      (* like ST2 but the output is in range-2D form: shape judged by r2d_okb *)
      let o = next_op2 r in
      let dt = next_n r in
      let ds = next_n r in
      let out = next_stmoc r in
      let a = next_stmoc r in
      let b = next_stmoc r in
      let w64 = n_of_int 64 in
      let ub = n_cells_max Hpx w64 in
      let wf = wfb ub out && wfb ub a && wfb ub b in
      let valid = r2d_okb w64 ds N0 None out in
      let pts = wf && pts_opb o ub out a b in
      let flags = (if valid then [] else r2d_flags w64 dt ds out) @ (if wf then [] else ["S_NOT_WF"]) in
      out_s "OK"; out_bool valid; out_bool pts;
      out_s (" " ^ (if flags = [] then "-" else String.concat "," flags))
  | "LOOKUP" ->
      let x = next_stmoc r in
      let probes = next_ranges r in
      out_s "OK";
      List.iter (fun (t, s) -> out_bool (cov2b x t s)) probes
  | "TFOLD" ->
      let x = next_stmoc r in
      let t = next_ranges r in
      out_s "OK"; out_ranges (tfold x t)
  | "SFOLD" ->
      let x = next_stmoc r in
      let s = next_ranges r in
      out_s "OK"; out_ranges (sfold x s)
  | "STOBS" ->
      (* STOBS form dt ds out nobs (ta tb S)* : out judged against the observations' point set *)
      let form = next r in
      let dt = next_n r in
      let ds = next_n r in
      let out = next_stmoc r in
      let obs = next_list r (fun r -> let ta = next_n r in let tb = next_n r in let s = next_ranges r in ((ta, tb), s)) in
      let w64 = n_of_int 64 in
      let ub = n_cells_max Hpx w64 in
      let reference = obs_moc w64 dt obs in
      let wf = wfb ub out && wfb ub reference in
      let pts = wf && pts_eqb ub out reference in
      let valid, flags =
        if form = "M2" then begin
          let flag name f = if List.exists f out then [name] else [] in
          (valid2db w64 w64 dt ds out,
           flag "T_EMPTY" (fun (t, _) -> t = [])
           @ flag "S_EMPTY" (fun (_, s) -> s = [])
           @ flag "T_NOT_VALID" (fun (t, _) -> t <> [] && not (valid_mocb Time w64 dt t))
           @ flag "S_NOT_VALID" (fun (_, s) -> s <> [] && not (valid_mocb Hpx w64 ds s))
           @ (if time_orderedb N0 out then [] else ["T_ORDER_OR_OVERLAP_BETWEEN_ELEMENTS"]))
        end else begin
          let v = r2d_okb w64 ds N0 None out in
          (v, if v then [] else r2d_flags w64 dt ds out)
        end in
      let flags = flags @ (if wf then [] else ["S_NOT_WF"]) in
      out_s "OK"; out_bool valid; out_bool pts;
      out_s (" " ^ (if flags = [] then "-" else String.concat "," flags))
  | "ST2" ->
      (* ST2 op dt ds out A B : verdict of the verified checkers on the implementation output *)
      let o = next_op2 r in
      let dt = next_n r in
      let ds = next_n r in
      let out = next_stmoc r in
      let a = next_stmoc r in
      let b = next_stmoc r in
      let w64 = n_of_int 64 in
      let ub = n_cells_max Hpx w64 in
      let wf = wfb ub out && wfb ub a && wfb ub b in
      let valid = valid2db w64 w64 dt ds out in
      let pts = wf && pts_opb o ub out a b in
      (* diagnostic flags: each is an extracted sub-predicate of valid2db *)
      let flag name f = if List.exists f out then [name] else [] in
      let flags =
        flag "T_EMPTY" (fun (t, _) -> t = [])
        @ flag "S_EMPTY" (fun (_, s) -> s = [])
        @ flag "T_NOT_VALID" (fun (t, _) -> t <> [] && not (valid_mocb Time w64 dt t))
        @ flag "S_NOT_VALID" (fun (_, s) -> s <> [] && not (valid_mocb Hpx w64 ds s))
        @ (if time_orderedb N0 out then [] else ["T_ORDER_OR_OVERLAP_BETWEEN_ELEMENTS"])
        @ (if wf then [] else ["S_NOT_WF"]) in
      out_s "OK"; out_bool valid; out_bool pts;
      out_s (" " ^ (if flags = [] then "-" else String.concat "," flags))
  | "F2H" ->
      (* F2H n b* -> per pattern: hash, or R when rejected (Rust: panic) *)
      let bs = next_list r next_n in
      out_s "OK";
      List.iter (fun b -> match freq2hash b with Some h -> out_n h | None -> out_s " R") bs
  | "H2F" ->
      let hs = next_list r next_n in
      out_s "OK";
      List.iter (fun h -> match hash2freq h with Some b -> out_n b | None -> out_s " R") hs
  | "NARROW" ->
      (* NARROW w n h* -> from_u64_idx *)
      let w = next_n r in
      let hs = next_list r next_n in
      out_s "OK";
      List.iter (fun h -> out_n (from_u64_idx w h)) hs
  | "MOCV" ->
      let q = next_qty r in
      let w = next_n r in
      let d = next_n r in
      let hs = next_list r next_n in
      out_s "OK"; out_n d;
      out_ranges (moc_of_values q w d hs)
  | "MOCR" ->
      let q = next_qty r in
      let w = next_n r in
      let d = next_n r in
      let rs = next_ranges r in
      out_s "OK"; out_n d;
      out_ranges (moc_of_ranges q w d rs)
  | "SETQ" ->
      (* SETQ <i|c|p|l> <dep> <region ranges | 1 x 0 | id list as ranges (id,0)> <dunion> <n> (st id depth ranges)*
         -> OK k id* | union ranges *)
      let m = next r in
      let dep = next r = "1" in
      let reg = next_ranges r in
      let du = next_n r in
      let ents =
        next_list r (fun r ->
            let st = (match next r with "v" -> QValid | "d" -> QDeprecated | _ -> QRemoved) in
            let id = next_n r in
            let d = next_n r in
            let rg = next_ranges r in
            { s_st = st; s_id = id; s_depth = d; s_rng = rg })
      in
      let ids, u =
        match m with
        | "i" -> (query Intersect dep reg ents, union_query Intersect dep reg du ents)
        | "c" -> (query Included dep reg ents, union_query Included dep reg du ents)
        | "p" -> let x = fst (List.hd reg) in (query_pos dep x ents, union_pos dep x du ents)
        | _ -> let l = List.map fst reg in ([], union_ids l du ents)
      in
      out_s "OK";
      out_int (List.length ids);
      List.iter out_n ids;
      out_s " |";
      out_ranges u
  | "NB" ->
      (* NB <4|8> d n c* -> per cell: k n1..nk *)
      let conn = next_int r in
      let d = next_int r in
      let cs = next_list r next_n in
      let rec nat_of_int i = if i <= 0 then O else S (nat_of_int (i - 1)) in
      let dn = nat_of_int d in
      out_s "OK";
      List.iter (fun c -> let l = (if conn = 4 then nb4 dn c else nb8 dn c) in out_int (List.length l); List.iter out_n l) cs
  | "HPXOP" ->
      (* HPXOP <exp|con|ext|int> w d ranges *)
      let op = next r in
      let w = next_n r in
      let d = next_int r in
      let l = next_ranges r in
      let rec nat_of_int i = if i <= 0 then O else S (nat_of_int (i - 1)) in
      let nb = nb8 (nat_of_int d) in
      let dn = n_of_int d in
      let res = (match op with
        | "exp" -> expanded_spec nb w dn l
        | "con" -> contracted_spec nb w dn l
        | "ext" -> ext_border_spec nb w dn l
        | _ -> int_border_spec nb w dn l) in
      out_s "OK"; out_n dn; out_ranges res
  | "SPLIT" ->
      (* SPLIT <4|8> w d M nparts part* -> YES | NO | UNKNOWN *)
      let conn = next_int r in
      let w = next_n r in
      let d = next_int r in
      let m = next_ranges r in
      let parts = next_list r next_ranges in
      let rec nat_of_int i = if i <= 0 then O else S (nat_of_int (i - 1)) in
      let nb = (if conn = 4 then nb4 (nat_of_int d) else nb8 (nat_of_int d)) in
      let sh = shift Hpx w (n_of_int d) in
      (match split_okb nb (cells_of sh m) (List.map (cells_of sh) parts) with
       | Yes -> out_s "OK YES" | No -> out_s "OK NO" | Unknown -> out_s "OK UNKNOWN")
  | "SPLITF" ->
      (* SPLITF <4|8> w d ranges -> the components the flood fill of split_into_joint_mocs_gen produces, in
         order, each as its cells in vector order:  OK n then per component k and k pairs depth idx *)
      let conn = next_int r in
      let w = next_n r in
      let d = next_int r in
      let m = next_ranges r in
      let rec nat_of_int i = if i <= 0 then O else S (nat_of_int (i - 1)) in
      let nb = (if conn = 4 then nb4 (nat_of_int d) else nb8 (nat_of_int d)) in
      let dn = n_of_int d in
      (match moc_cells_o Hpx w dn m with
       | None -> out_s "ERR cells-fuel"
       | Some cells ->
         (match ff_split (max_depth Hpx w) dn (ext_of nb dn) cells with
          | None -> out_s "ERR fuel"
          | Some comps ->
              out_s "OK"; out_int (List.length comps);
              List.iter (fun c -> out_int (List.length c); List.iter (fun (a, b) -> out_n a; out_n b) c) comps))
  | "FILLF" ->
      (* FILLF w d ranges <n | "S" num den>  -> the MOC fill_holes(Some n) / fill_holes_smaller_than(num/den) returns,
         as ranges: the MOC plus the chosen components of the flood fill of its complement *)
      let w = next_n r in
      let d = next_int r in
      let m = next_ranges r in
      let mode = next r in
      let rec nat_of_int i = if i <= 0 then O else S (nat_of_int (i - 1)) in
      let nb = nb8 (nat_of_int d) in
      let dn = n_of_int d in
      let (_, cmp) = moc_not Hpx w dn m in
      (match moc_cells_o Hpx w dn cmp with
       | None -> out_s "ERR cells-fuel"
       | Some cells ->
         let res =
           if mode = "S" then
             let num = next_n r in let den = next_n r in
             ff_fill_smaller (max_depth Hpx w) dn (ext_of nb dn) cells num den
           else ff_fill (max_depth Hpx w) dn (ext_of nb dn) cells (nat_of_int (int_of_string mode)) in
         (match res with
          | None -> out_s "ERR fuel"
          | Some sel ->
              let added = List.concat_map (fun comp -> List.map (fun c -> cell_range Hpx w (fst c) (snd c)) comp) sel in
              out_s "OK"; out_ranges (canon_of (m @ added))))
  | "FILL" ->
      let w = next_n r in
      let d = next_int r in
      let m = next_ranges r in
      let o = next_ranges r in
      let rec nat_of_int i = if i <= 0 then O else S (nat_of_int (i - 1)) in
      let sh = shift Hpx w (n_of_int d) in
      out_s "OK"; out_bool (fill_okb (nb8 (nat_of_int d)) (cells_of sh m) (cells_of sh o))
  | "TFOP" ->
      (* TFOP <exp|con> q w d ranges *)
      let op = next r in
      let q = next_qty r in
      let w = next_n r in
      let d = next_n r in
      let l = next_ranges r in
      let u = N.pow (n_of_int 2) (shift q w d) in
      let ncm = n_cells_max q w in
      out_s "OK"; out_n d;
      out_ranges (if op = "exp" then tf_expanded u ncm l else tf_contracted u ncm l)
  | "VSEL" ->
      (* VSEL fixed maxd from to asc strict nosplit rev n (d i v k)* <out ranges>
         -> OK <model ranges | PANIC> | wf subset between order bracket samecell *)
      let fixed = next r = "1" in
      let maxd = next_n r in
      let from = next_n r in
      let to_ = next_n r in
      let asc = next r = "1" in
      let strict = next r = "1" in
      let nosplit = next r = "1" in
      let rev = next r = "1" in
      let cells = next_list r (fun r -> let d = next_n r in let i = next_n r in let v = next_n r in let k = next_n r in
                                { vd = d; vi = i; vv = v; vk = k }) in
      let out = next_ranges r in
      out_s "OK";
      (match select fixed maxd cells from to_ asc strict nosplit rev with
       | Some l -> out_ranges (canon_of (List.map (fun c -> cell_range Hpx (n_of_int 64) (fst c) (snd c)) l))
       | None -> out_s " PANIC");
      let v = check maxd cells from to_ asc strict nosplit out in
      out_s " |";
      out_bool v.v_wf; out_bool v.v_subset; out_bool v.v_between; out_bool v.v_order; out_bool v.v_bracket; out_bool v.v_samecell
  | "EFF" ->
      (* EFF df cap h n (st id depth nbytes payload)* UPD k POST
         UPD = A st id depth nbytes payload | C st nids id* | P cap h ; POST = - | R | K st id depth nbytes payload
         -> OK neff lock tmp VIEW ; VIEW'   with VIEW = FAIL | cnt (id st depth payload nbytes)* *)
      let rec nat_of_int i = if i <= 0 then O else S (nat_of_int (i - 1)) in
      let next_st r = (match next r with "v" -> SValid | "d" -> SDeprecated | _ -> SRemoved) in
      let df = next r = "1" in
      let cap = next_int r in
      let h = next_n r in
      let next_ent r =
        let st = next_st r in let id = next_n r in let d = next_n r in let nb = next_n r in let pl = next_n r in
        (({ m_st = st; m_id = id; m_depth = d }, nb), pl) in
      let ents = next_list r next_ent in
      let next_upd r = (match next r with
        | "A" -> let ((m, nb), pl) = next_ent r in UAppend (m, nb, pl)
        | "C" -> let st = next_st r in let ids = next_list r next_n in UChg (ids, st)
        | _ -> let c = next_int r in let h2 = next_n r in UPurge (nat_of_int c, h2)) in
      let u = next_upd r in
      let k = next_int r in
      let f = mk_file (nat_of_int cap) h ents in
      let w0 = { main = f; lock = false; tmp = None } in
      let out_view (f : n file) =
        (match view N0 f with
         | None -> out_s " FAIL"
         | Some v ->
             out_int (List.length v);
             let sz = sizes_of f in
             List.iteri (fun i (m, pl) ->
               out_n m.m_id;
               out_s (match m.m_st with SValid -> " v" | SDeprecated -> " d" | SRemoved -> " r");
               out_n m.m_depth; out_n pl; out_n (List.nth sz i)) v) in
      let rec nat_to_int = function O -> 0 | S x -> 1 + nat_to_int x in
      let w = at_prefix df w0 u (nat_of_int k) in
      out_s "OK";
      out_int (nat_to_int (n_effects df w0 u));
      out_bool w.lock;
      out_bool (match w.tmp with Some _ -> true | None -> false);
      out_view w.main;
      out_s " ;";
      (match next r with
       | "R" -> let w2 = at_prefix df w0 u (nat_of_int 100000) in out_bool w2.lock; out_view w2.main
       | "K" -> let ((m, nb), pl) = next_ent r in
                let wc = cleanup w in
                let w2 = at_prefix df wc (UAppend (m, nb, pl)) (nat_of_int 100000) in out_bool w2.lock; out_view w2.main
       | _ -> out_s " -")
  | "EXPR" ->
      let q = next_qty r in
      let w = next_n r in
      let e = next_expr r in
      out_s "OK";
      out_moc (eval q w e)
  | k -> out_s ("ERR unknown-kind " ^ k)

let () =
  try
    while true do
      let line = input_line stdin in
      Buffer.clear buf;
      let toks =
        Array.of_list (List.filter (fun s -> s <> "") (String.split_on_char ' ' (String.trim line)))
      in
      (try handle { toks; pos = 0 } with
      | Parse_error m ->
          Buffer.clear buf;
          out_s ("ERR parse " ^ m)
      | Too_big ->
          Buffer.clear buf;
          out_s "ERR too-big"
      | Stack_overflow ->
          Buffer.clear buf;
          out_s "ERR stack-overflow");
      print_string (Buffer.contents buf);
      print_char '\n';
      flush stdout
    done
  with End_of_file -> ()
